#!/bin/bash
# Applies every behaviour-preserving refactor under /verif/benign/<ID>-<k>/patch.diff (or a scratch root given
# as $1 with <ID>/_seed/patch<k>.diff) to a worktree and runs all quick checks; any VIOLATION is a false alarm.
R=${TRYREPO:-/repo}
cd $R || exit 2
if [ -n "$(git status --porcelain --untracked-files=no)" ]; then echo "$R is dirty"; exit 2; fi
ROOT=${1:-/verif/benign}
for f in $(ls $ROOT/*/patch.diff $ROOT/*/_seed/patch*.diff 2>/dev/null | sort); do
  git apply $f || { echo "$f: DOES NOT APPLY"; continue; }
  tmp=$(mktemp)
  timeout 900 /verif/bin/lfscheck -repo $R -verif /verif -prop all > $tmp 2>&1
  git checkout -- . ; git clean -fdq
  bad=$(grep -E "^RESULT" $tmp | grep -v "rc=0" | sed 's/RESULT //' | tr '\n' ' ')
  echo "$f: ${bad:-ok}"
  if [ -n "$bad" ]; then grep -E "instance:" $tmp | sed 's/^/      /' | cut -c1-200 | head -n 12; fi
  rm -f $tmp
done
