#!/usr/bin/env python3
# Regenerates /verif/MANIFEST.json from the table below. Properties without an entry in CLAIMS
# are listed under not_applicable with the reason given in NA (or "not built yet").
import json, subprocess, sys
props=[json.loads(l) for l in open('/verif/properties.jsonl')]
CLAIMS=json.load(open('/verif/tools/claims.json'))
NA=json.load(open('/verif/tools/not_applicable.json'))
checks=[]; na=[]
for p in props:
    i=p['id']
    if i in CLAIMS:
        c=CLAIMS[i]
        checks.append({
          "property_id":i,
          "quick_cmd":f"./check {i} quick",
          "thorough_cmd":f"./check {i} thorough",
          "evidence_file":f"/verif/evidence/{i}.json",
          "replay_cmd_template":f"./check {i} quick   # the replay file {{path}} names the failing obligation (rule, construct key, position)",
          "engine":"lfscheck",
          "level_claimed":{"category":c["category"],"text":c["text"],"design_ref":f"DESIGN.md §3 {i}"},
          "level_note":c["note"],
          "technique":c["technique"]})
    else:
        na.append({"property_id":i,"reason":NA.get(i,"check not built yet (construction in progress; see DESIGN.md §3 for the planned static rules)")})
m={"version":1,
 "setup_cmd":"cd /verif/checker && GOFLAGS=-mod=mod GOPROXY=off GOSUMDB=off GOTOOLCHAIN=local GOWORK=off go build -o ../bin/lfscheck .",
 "hooks":{"guard":"verif","enable":"none needed: static analysis reads /repo's working tree as it is; there are no hook commits (the only commits made in /repo are the unguarded fix: commits listed in KNOWN_FINDINGS.json)","baseline_off_cmd":"/verif/tools/baseline.sh","source_commits":[],"add_only":True},
 "engines":[{"name":"lfscheck","path":"/verif/checker","serves_properties":[c["property_id"] for c in checks],"kind_free_text":"repository-specific static analyser over go/types + go/ssa + call graph (x/tools v0.29.0): cut-set reachability (GUARD), path counting (COUNT), who-may-call (WHOMAY), value provenance (FLOW), table agreement (TABLE), pairing, variants, predicate shape; self-tested by overlay canaries"}],
 "checks":checks,
 "notes":"Every check loads /repo's working tree (go/packages LoadAllSyntax), builds SSA and decides the rules of DESIGN.md §3 for that property; nothing is executed. KNOWN_FINDINGS.json lists repaired (fixed:) and recorded (known) findings. seeded/ holds independently written breaking changes and which rules catch them.",
 "not_applicable":na}
json.dump(m,open('/verif/MANIFEST.json','w'),indent=1)
print(len(checks),"claimed;",len(na),"not applicable/pending")
