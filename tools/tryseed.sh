#!/bin/bash
# usage: tryseed.sh <patch.diff> <prop> [prop...]  -- applies the patch to /repo, runs the quick checks, reverts.
P=$1; shift
R=${TRYREPO:-/repo}; cd $R || exit 2
if [ -n "$(git status --porcelain --untracked-files=no)" ]; then echo "tryseed: /repo is dirty"; exit 2; fi
git apply "$P" || { echo "tryseed: patch does not apply"; exit 2; }
trap 'git -C $R checkout -- . ' EXIT
for id in "$@"; do
  out=$(VERIF_NOEVIDENCE=1 timeout 900 /verif/bin/lfscheck -repo $R -verif /verif -prop $id -tier quick -no-evidence 2>&1); rc=$?
  echo "== $id rc=$rc"; echo "$out" | grep -E "VIOLATION|instance:|why:|lfscheck:" | head -12
done
