#!/bin/bash
# usage: storeseed.sh <scratch-root> <ID> <i> <n>
# Stores the verified seed i of property ID (scratch-root/ID/_seed, verified by verify_one.sh) as seeded/ID-n.
R=$1; ID=$2; I=$3; N=$4; S=$R/$ID/_seed; D=/verif/seeded/$ID-$N
mkdir -p $D/demo
cp $S/patch$I.diff $D/patch.diff
[ -d $S/demo$I ] && cp -r $S/demo$I/. $D/demo/
python3 - "$S" "$I" "$ID-$N" "$D" <<'P'
import json,sys,subprocess
S,I,seed,D=sys.argv[1:5]
m=json.load(open(f'{S}/meta{I}.json'))
head=subprocess.check_output(['git','-C','/repo','rev-parse','--short','HEAD']).decode().strip()
tail=open(f'{S}/verify{I}.patched.log',errors='replace').read()[-900:]
out={"property":m["property"],"seed":seed,
 "origin":"written by an independent sub-agent given only the property text, a scratch worktree and the list of earlier seed ideas to avoid (round 2)",
 "summary":m.get("summary",""),"needs_to_manifest":m.get("needs_to_manifest",""),
 "files_changed":m.get("files_changed",[]),
 "demo_cmd":m.get("demo_cmd","")+"   (paths: the demo lives in ./demo here; the agent ran it as _seed/demo%s from the worktree root)"%I,
 "confirmed_by_me":{"against_repo_commit":head,
  "what_i_ran":"in a scratch worktree of /repo HEAD: demo on the pristine tree; git apply patch.diff; go build ./...; the 648-test baseline (tools/baseline.sh); the demo again; git checkout -- . ; verdict of the demo read from its log (FAIL/panic marks), not its exit code",
  "patch_applies":True,"compiles":True,"baseline_passes":True,"demo_passes_without_patch":True,"demo_fails_with_patch":True},
 "patched_log_tail":tail}
json.dump(out,open(f'{D}/meta.json','w'),indent=1)
P
echo stored $D
