#!/bin/bash
# Runs /repo's pinned test suite (guard OFF; there are no hooks) and compares with BASELINE.json.
# The sandbox's ~/.gitconfig sets init.defaultBranch=main, which the suite's fixtures do not
# expect (they `git checkout master`), so git's global config is neutralised for the run.
set -o pipefail
export GOFLAGS=-mod=mod GOPROXY=off GOSUMDB=off GOTOOLCHAIN=local GOWORK=off
export GIT_CONFIG_GLOBAL=/dev/null GIT_CONFIG_NOSYSTEM=1
export GIT_AUTHOR_NAME=builder GIT_AUTHOR_EMAIL=builder@example.invalid GIT_COMMITTER_NAME=builder GIT_COMMITTER_EMAIL=builder@example.invalid
REPO=${1:-/repo}
OUT=$(mktemp /tmp/verif-baseline.XXXXXX.json)
(cd "$REPO" && go test -json -vet=off -count=1 -timeout 25m ./... > "$OUT" 2>/dev/null)
python3 - "$OUT" <<'PY'
import json,sys
base=set(json.load(open('/root/.vp/BASELINE.json'))['stable_pass'])
res={}
for l in open(sys.argv[1]):
    try: e=json.loads(l)
    except Exception: continue
    if e.get('Test') and e.get('Action') in('pass','fail','skip'):
        res[e['Package']+'::'+e['Test']]=e['Action']
passed={k for k,v in res.items() if v=='pass'}
missing=sorted(base-passed)
print(f"baseline={len(base)} passed_now={len(passed)} baseline_not_passing={len(missing)}")
for m in missing[:40]: print("  NOT PASSING:",m,res.get(m,'absent'))
sys.exit(1 if missing else 0)
PY
rc=$?
rm -f "$OUT"
exit $rc
