#!/usr/bin/env python3
"""Regenerate the obligations-per-rule table of DESIGN.md 9.8 from the evidence files.

Reads /verif/evidence/C??.json (written by the registered commands) and prints a
markdown table; with -w it replaces the table in DESIGN.md between the markers
'| id | obligations | rules |' and the first blank line after it.
"""
import json, glob, os, re, sys, collections

root = os.path.dirname(os.path.dirname(os.path.abspath(__file__)))


def natural(s):
    return [int(x) if x.isdigit() else x for x in re.split(r'(\d+)', s)]


rows = []
for f in sorted(glob.glob(os.path.join(root, 'evidence', 'C??.json'))):
    e = json.load(open(f))
    pid = e['property_id']
    own = {}
    shared = collections.Counter()
    for k, v in e['coverage']['per_rule'].items():
        name = k.split('.', 1)[1]
        if '/' in name:
            shared[name.split('/')[0]] += v['discharged']
        else:
            own[name] = v['discharged']
    parts = ['%s(%d)' % (r, own[r]) for r in sorted(own, key=natural)]
    parts += ['+%s rules(%d)' % (p, n) for p, n in sorted(shared.items())]
    rows.append('| %s | %d | %s |' % (pid, e['coverage']['obligations'], ' '.join(parts)))

table = '| id | obligations | rules |\n|----|-------------|-------|\n' + '\n'.join(rows) + '\n'
if len(sys.argv) > 1 and sys.argv[1] == '-w':
    p = os.path.join(root, 'DESIGN.md')
    s = open(p).read()
    i = s.index('| id | obligations | rules |')
    j = s.index('\n\n', i)
    s = s[:i] + table.rstrip('\n') + s[j:]
    open(p, 'w').write(s)
else:
    sys.stdout.write(table)
