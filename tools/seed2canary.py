#!/usr/bin/env python3
"""Print a Go `Canary{...}` literal for a stored seed: one Find/Repl edit per hunk of seeded/<id>/patch.diff.

usage: seed2canary.py <seed-id> <canary-name> <expect-key>
The literal is pasted into the cNNCanaries slice of the property; the thorough tier then applies the edits as an
overlay on /repo's current source and requires the named obligation to be reported.
"""
import json, os, re, sys

root = os.path.dirname(os.path.dirname(os.path.abspath(__file__)))
sid, name, key = sys.argv[1:4]
edits = []
cur = None
old, new = [], []


def flush():
    global old, new
    if cur and (old or new):
        edits.append((cur, '\n'.join(old) + '\n', '\n'.join(new) + '\n'))
    old, new = [], []


for line in open(os.path.join(root, 'seeded', sid, 'patch.diff')).read().split('\n'):
    if line.startswith('diff --git'):
        flush()
        cur = None
    elif line.startswith('+++ b/'):
        cur = line[6:]
    elif line.startswith('--- ') or line.startswith('index ') or line.startswith('new file') or line.startswith('\\'):
        continue
    elif line.startswith('@@'):
        flush()
    elif cur is None:
        continue
    elif line.startswith('+'):
        new.append(line[1:])
    elif line.startswith('-'):
        old.append(line[1:])
    elif line.startswith(' '):
        old.append(line[1:])
        new.append(line[1:])
flush()
parts = ', '.join('{File: %s, Find: %s, Repl: %s}' % (json.dumps(f), json.dumps(a), json.dumps(b)) for f, a, b in edits)
print('\t{Name: %s, ExpectKey: %s, Edits: []Edit{%s}},' % (json.dumps(name), json.dumps(key), parts))
