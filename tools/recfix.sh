#!/bin/bash
# usage: recfix.sh <name> <property> <demo-file-in-repo> <demo-cmd> -- records the reverse of /repo HEAD as a seeded regression
set -e
name=$1; prop=$2; demo=$3; shift 3
d=/verif/seeded/$name; mkdir -p $d
git -C /repo diff HEAD HEAD~1 -- . > $d/patch.diff
[ -n "$demo" ] && mv /repo/$demo $d/ 
sha=$(git -C /repo rev-parse --short HEAD)
cat > $d/meta.json <<EOM
{"property":"$prop","origin":"reverse of fix commit $sha (re-introduces the defect found on the original tree)","demo_file":"$(basename $demo)","demo_cmd":"$*","needs_to_manifest":"see DESIGN.md §5","confirmed":"demo fails with patch.diff applied (pre-fix code), passes on /repo HEAD; baseline passes both ways"}
EOM
echo recorded $d
