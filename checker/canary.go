package main

import (
	"fmt"
	"os"
	"os/exec"
	"strings"
	"sync"
)

// Canary is a self-test: a small edit of /repo (applied as a go/packages overlay, never on
// disk) that still type-checks and breaks one rule. The rule must report a violation whose
// key contains ExpectKey.
type Canary struct {
	Name      string
	Edits     []Edit
	ExpectKey string // substring of the obligation key that must be reported
}

type canaryResult struct {
	Total, Fired, Stale int
	Missed              []string
	Lines               []string
}

// runCanaries runs every canary of def in its own subprocess (memory), a few in parallel.
func runCanaries(def *PropDef, repo, verif string) canaryResult {
	self, err := os.Executable()
	res := canaryResult{Total: len(def.Canaries)}
	if err != nil {
		res.Missed = append(res.Missed, "cannot locate own executable")
		return res
	}
	type out struct {
		name string
		code int
		text string
	}
	outs := make([]out, len(def.Canaries))
	sem := make(chan struct{}, 6)
	var wg sync.WaitGroup
	for i, cn := range def.Canaries {
		wg.Add(1)
		go func(i int, cn Canary) {
			defer wg.Done()
			sem <- struct{}{}
			defer func() { <-sem }()
			cmd := exec.Command(self, "-repo", repo, "-verif", verif, "-prop", def.ID, "-tier", "quick", "-canary", cn.Name, "-no-evidence")
			b, err := cmd.CombinedOutput()
			code := 0
			if ee, ok := err.(*exec.ExitError); ok {
				code = ee.ExitCode()
			} else if err != nil {
				code = -1
			}
			outs[i] = out{cn.Name, code, string(b)}
		}(i, cn)
	}
	wg.Wait()
	for i, cn := range def.Canaries {
		o := outs[i]
		switch {
		case o.code == 3:
			res.Stale++
			res.Lines = append(res.Lines, fmt.Sprintf("%s: stale (edit no longer applies: %s)", cn.Name, firstLine(o.text)))
		case o.code == 1 && strings.Contains(o.text, "VIOLATION property="+def.ID) && strings.Contains(o.text, cn.ExpectKey):
			res.Fired++
			res.Lines = append(res.Lines, fmt.Sprintf("%s: fired (%s)", cn.Name, cn.ExpectKey))
		default:
			res.Missed = append(res.Missed, cn.Name)
			res.Lines = append(res.Lines, fmt.Sprintf("%s: NOT detected (exit %d; expected key %s): %s", cn.Name, o.code, cn.ExpectKey, firstLine(o.text)))
		}
	}
	return res
}

func firstLine(s string) string {
	s = strings.TrimSpace(s)
	if i := strings.Index(s, "\n"); i >= 0 {
		s = s[:i]
	}
	if len(s) > 200 {
		s = s[:200]
	}
	return s
}
