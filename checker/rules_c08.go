package main

import (
	"fmt"
	"go/constant"
	"go/token"
	"go/types"
	"strings"

	"golang.org/x/tools/go/ssa"
)

// C08 — pointers pass through clean untouched; look-alike content is never truncated.

func init() {
	register(&PropDef{
		ID:    "C08",
		Level: "other",
		Explanation: "Decides on the current source of the clean/smudge filters: (R1) when clean finds that its input already is a pointer it writes back exactly the bytes it sniffed (the error context set at the single construction site), untransformed; (R2) on that branch nothing is published to the object store; (R3) the pointer-size cutoff is one constant used consistently by the decoder buffer, the sniff buffer, the `<`/`>=` comparisons of the blob/file decoders and the scanners; " +
			"(R4) the already-a-pointer verdict is reachable only through (clean parse ∧ fewer bytes than the cutoff) or a read error — otherwise control reaches the full content copy; (R5) the prefix is read with a fill-until-full read (io.ReadFull), and every direct single Read whose count drives a decision is on the enumerated list of readers that fill (bytes.Reader-backed, pkt-line); (R6) smudge passes non-pointer input through from the reader that replays the sniffed bytes. Byte-for-byte equality is a run-time fact and not decided.",
		Assumptions: []string{
			"bytes.Reader and io.MultiReader(bytes.Reader, …) return the whole buffered prefix in one Read; pktline readers fill until a flush packet (C14.R7)",
			"io.ReadFull fills the buffer unless the input ends",
		},
		Run:      runC08,
		Canaries: c08Canaries,
	})
}

func constInt64(p *Prog, pkg, name string) (int64, bool) {
	pk := p.byPath[PkgPath(pkg)]
	if pk == nil || pk.Types == nil {
		return 0, false
	}
	obj, ok := pk.Types.Scope().Lookup(name).(*types.Const)
	if !ok {
		return 0, false
	}
	return constant.Int64Val(obj.Val())
}

func runC08(c *Ctx) {
	p := c.P
	{
		// what is not an OID is not a pointer: the OID language (C07.R1) decides what clean passes through
		saved := c.RulePrefix
		c.RulePrefix = saved + "C07/"
		c07OidRule(c)
		c.RulePrefix = saved
	}
	clean := p.Fn("commands", "clean")
	ctt := p.Fn("lfs", "(*GitFilter).copyToTemp")
	if clean == nil || ctt == nil {
		c.Missing("R1", "commands.clean / (*lfs.GitFilter).copyToTemp", "not found")
		return
	}
	cutoff, ok := constInt64(p, "lfs", "blobSizeCutoff")
	if !ok {
		c.Missing("R3", "lfs.blobSizeCutoff", "constant not found")
		return
	}

	// ---- R1: verbatim write-back ------------------------------------------------------------
	// the single construction site passes the sniffed bytes
	nSites := 0
	var sniffed ssa.Value
	for _, fn := range p.RepoFuncs(productPkg) {
		for _, ci := range CallsIn(fn, "errors.NewCleanPointerError") {
			nSites++
			by := ci.Common().Args[1]
			// by = buf2[:n] with n = X.Read(buf2), X = reader returned by DecodeFrom
			good := false
			if sl, ok := Unwrap(by).(*ssa.Slice); ok && sl.High != nil {
				if rd, idx, isRes := CallResult(sl.High); isRes && idx == 0 && CalleeName(rd.Common()) == "(io.Reader).Read" {
					if Unwrap(rd.Call.Args[0]) == Unwrap(sl.X) {
						if dc, i2, isRes := CallResult(rd.Call.Value); isRes && i2 == 1 && CalleeName(dc.Common()) == "lfs.DecodeFrom" {
							good = true
							sniffed = by
						}
					}
				}
			}
			// φ of raw and sliced (by = by[:n] reassigns): accept a φ/alloc whose leaves are that slice
			if !good {
				for _, l := range p.LeavesNoFields(by, func(v ssa.Value) FlowAct {
					if _, ok := v.(*ssa.Slice); ok {
						return Stop
					}
					return Descend
				}) {
					if sl, ok := l.(*ssa.Slice); ok && sl.High != nil {
						if rd, idx, isRes := CallResult(sl.High); isRes && idx == 0 && CalleeName(rd.Common()) == "(io.Reader).Read" {
							if dc, i2, isRes := CallResult(rd.Call.Value); isRes && i2 == 1 && CalleeName(dc.Common()) == "lfs.DecodeFrom" {
								good = true
								sniffed = l
							}
						}
					}
				}
			}
			c.Check(good && FnName(fn) == FnName(ctt), "R1", "clean-pointer-error:bytes@"+FnName(fn), p.InstrPos(ci),
				"the error carries exactly the bytes sniffed from the reader DecodeFrom returned", "the already-a-pointer error does not carry the bytes read from the input (or is built somewhere else)")
		}
	}
	c.AtLeast("R1", "NewCleanPointerError sites", nSites, 1)
	_ = sniffed
	// NewCleanPointerError stores its second argument under the context key "bytes"
	if ne := p.Fn("errors", "NewCleanPointerError"); ne != nil {
		good := false
		for _, ci := range CallsIn(ne, "errors.SetContext") {
			a := ci.Common().Args
			if s, ok := ConstString(a[1]); ok && s == "bytes" {
				for _, l := range p.LeavesNoFields(a[2], nil) {
					if l == ssa.Value(ne.Params[1]) {
						good = true
					}
				}
			}
		}
		c.Check(good, "R1", "clean-pointer-error:context-key", p.Pos(ne.Pos()), "the bytes are stored under the context key \"bytes\"", "NewCleanPointerError does not store its bytes argument under the key \"bytes\"")
	}
	// in clean: on IsCleanPointerError(err) the bytes written are GetContext(err,"bytes") of that err
	var cpeEdges []Edge
	var cpeFail []Edge
	for _, b := range clean.Blocks {
		ifi, ok := lastInstr(b).(*ssa.If)
		if !ok {
			continue
		}
		cond, flip := stripNot(ifi.Cond)
		if call, ok := cond.(*ssa.Call); ok && CalleeName(&call.Call) == "errors.IsCleanPointerError" {
			t, f := Edge{b, 0}, Edge{b, 1}
			if flip {
				t, f = f, t
			}
			cpeEdges = append(cpeEdges, t)
			cpeFail = append(cpeFail, f)
			errv := call.Call.Args[0]
			// writes reachable on the true side before returning
			reach := ReachBlocks(t.To(), EdgeSet(nil), nil)
			nW := 0
			for rb := range reach {
				for _, in := range rb.Instrs {
					cc := AsCall(in)
					if cc == nil || CalleeName(cc) != "(io.Writer).Write" {
						continue
					}
					// only writes dominated by the true edge target
					if !t.To().Dominates(rb) {
						continue
					}
					nW++
					good := false
					if ta, ok := Unwrap(cc.Args[0]).(*ssa.TypeAssert); ok {
						if gc, _, isRes := CallResult(ta.X); isRes && CalleeName(gc.Common()) == "errors.GetContext" {
							k, isK := ConstString(gc.Call.Args[1])
							if isK && k == "bytes" && SameVar(gc.Call.Args[0], errv) {
								good = true
							}
						}
					}
					c.Check(good, "R1", "clean:write-back", p.InstrPos(in), "clean writes back exactly the context bytes of the pointer error", "on the already-a-pointer branch clean writes something other than the sniffed bytes (e.g. a re-encoded pointer): a non-canonical pointer would be altered")
				}
			}
			c.AtLeast("R1", "writes on the pass-through branch", nW, 1)
			// ---- R2: nothing is published on that branch
			pubReach := false
			for rb := range ReachBlocks(t.To(), nil, nil) {
				for _, in := range rb.Instrs {
					if cc := AsCall(in); cc != nil && nameIn(CalleeName(cc), publishCallees) {
						pubReach = true
					}
					if cc := AsCall(in); cc != nil && CalleeName(cc) == "lfs.EncodePointer" {
						pubReach = true
					}
				}
			}
			c.Check(!pubReach, "R2", "clean:pass-through-stores-nothing", p.InstrPos(ifi), "on the already-a-pointer branch nothing is moved into the object store and no new pointer is emitted", "the already-a-pointer branch can reach the publish / pointer-emission code: a pointer to a pointer could be produced")
		}
	}
	c.AtLeast("R1", "IsCleanPointerError tests in clean", len(cpeEdges), 1)
	// conversely: the publish is reachable only when the error was not a clean-pointer error
	for _, ci := range CallsIn(clean, publishCallees...) {
		ok, path := Guarded(clean.Blocks[0], ci, cpeFail, noReturnCommands)
		c.Check(ok, "R2", "clean:publish-only-for-content", p.InstrPos(ci), "the object is published only when the input was content", "the publish is reachable without the not-a-pointer decision: "+path)
	}

	// ---- R3: cutoff agreement ----------------------------------------------------------------
	type use struct {
		fn   string
		desc string
		ok   bool
		pos  string
	}
	var uses []use
	makeLen := func(fn *ssa.Function, what string) {
		if fn == nil {
			uses = append(uses, use{what, "function not found", false, "-"})
			return
		}
		found := false
		for _, b := range fn.Blocks {
			for _, in := range b.Instrs {
				if ms, ok := in.(*ssa.MakeSlice); ok {
					if k, isK := ConstInt(ms.Len); isK && k == cutoff {
						found = true
						uses = append(uses, use{FnName(fn), "buffer of cutoff bytes", true, p.InstrPos(in)})
					}
				}
				if al, ok := in.(*ssa.Alloc); ok {
					if arr, isArr := al.Type().(*types.Pointer).Elem().Underlying().(*types.Array); isArr && arr.Len() == cutoff && al.Comment == "makeslice" {
						found = true
						uses = append(uses, use{FnName(fn), "buffer of cutoff bytes", true, p.InstrPos(in)})
					}
				}
			}
		}
		if !found {
			uses = append(uses, use{FnName(fn), "no buffer of exactly the cutoff size (" + fmt.Sprint(cutoff) + " bytes)", false, p.Pos(fn.Pos())})
		}
	}
	makeLen(p.Fn("lfs", "DecodeFrom"), "lfs.DecodeFrom")
	makeLen(ctt, "copyToTemp")
	cmpK := func(fn *ssa.Function, what string, wantOps map[token.Token]bool) {
		if fn == nil {
			uses = append(uses, use{what, "function not found", false, "-"})
			return
		}
		found := false
		for _, f := range WithAnon(fn) {
			for _, b := range f.Blocks {
				for _, in := range b.Instrs {
					bo, ok := in.(*ssa.BinOp)
					if !ok {
						continue
					}
					k, isK := ConstInt(bo.Y)
					op := bo.Op
					if !isK {
						// the constant on the left: K > x is x < K
						if kl, isL := ConstInt(bo.X); isL {
							k, isK = kl, true
							switch op {
							case token.LSS:
								op = token.GTR
							case token.LEQ:
								op = token.GEQ
							case token.GTR:
								op = token.LSS
							case token.GEQ:
								op = token.LEQ
							}
						}
					}
					if !isK || (k != cutoff && k != cutoff-1 && k != cutoff+1) {
						continue
					}
					switch op {
					case token.LSS, token.LEQ, token.GTR, token.GEQ:
					default:
						continue
					}
					found = true
					// x < K and x >= K draw the same line (which branch does what is decided by R4/R5)
					good := k == cutoff && (wantOps[op] || op == token.LSS || op == token.GEQ)
					d := fmt.Sprintf("compares with %s %d", op, k)
					uses = append(uses, use{FnName(f), d, good, p.InstrPos(in)})
				}
			}
		}
		if !found {
			uses = append(uses, use{FnName(fn), "no comparison with the cutoff", false, p.Pos(fn.Pos())})
		}
	}
	lt := map[token.Token]bool{token.LSS: true}
	ge := map[token.Token]bool{token.GEQ: true}
	cmpK(ctt, "copyToTemp", lt)
	cmpK(p.Fn("lfs", "DecodePointerFromBlob"), "DecodePointerFromBlob", ge)
	cmpK(p.Fn("lfs", "DecodePointerFromFile"), "DecodePointerFromFile", ge)
	cmpK(p.Fn("lfs", "runScanTree"), "runScanTree", lt)
	cmpK(p.Fn("lfs", "(*PointerScanner).next"), "PointerScanner.next", lt)
	for i, u := range uses {
		c.Check(u.ok, "R3", fmt.Sprintf("cutoff-use:%s#%d", u.fn, i), u.pos, u.desc+" (consistent with the cutoff)", "inconsistent use of the pointer-size cutoff: "+u.desc+" — inputs at the boundary are classified differently by different parts of the code")
	}

	// ---- R4: the already-a-pointer verdict ---------------------------------------------------
	var dec *ssa.Call
	for _, ci := range CallsIn(ctt, "lfs.DecodeFrom") {
		dec, _ = ci.(*ssa.Call)
	}
	if dec == nil {
		c.Missing("R4", "DecodeFrom call in copyToTemp", "not found")
	} else {
		for _, ci := range CallsIn(ctt, "errors.NewCleanPointerError") {
			// pass edges (any-of): read error != nil true edge; or (parse err == nil AND len < cutoff)
			readErr := PassEdges(ctt, func(cond ssa.Value) (bool, bool) {
				e, trueMeansNil, ok := IsErrNilCheck(cond)
				if ok {
					if rc, idx, isRes := CallResult(e); isRes && idx == 1 && CalleeName(rc.Common()) == "(io.Reader).Read" {
						return !trueMeansNil, true
					}
				}
				return false, false
			})
			parseOK := PassEdges(ctt, func(cond ssa.Value) (bool, bool) {
				e, trueMeansNil, ok := IsErrNilCheck(cond)
				if ok && ResultOfCall(e, dec, 2) {
					return trueMeansNil, true
				}
				return false, false
			})
			short := PassEdges(ctt, func(cond ssa.Value) (bool, bool) {
				op, x, y, ok := BinCmp(cond)
				if !ok {
					return false, false
				}
				k, isK := ConstInt(y)
				lc, isCall := x.(*ssa.Call)
				if !isK || !isCall || k != cutoff {
					return false, false
				}
				if bi, ok := lc.Call.Value.(*ssa.Builtin); !ok || bi.Name() != "len" {
					return false, false
				}
				switch op {
				case token.LSS:
					return true, true
				case token.GEQ:
					return false, true
				}
				return false, false
			})
			ok1, p1 := Guarded(ctt.Blocks[0], ci, append(append([]Edge{}, readErr...), parseOK...), nil)
			ok2, p2 := Guarded(ctt.Blocks[0], ci, append(append([]Edge{}, readErr...), short...), nil)
			c.Check(ok1 && len(parseOK) > 0, "R4", "pointer-verdict:needs-clean-parse", p.InstrPos(ci), "input is declared a pointer only after it parsed cleanly (or the read failed)", "input can be declared an existing pointer although it did not parse as one: "+p1)
			c.Check(ok2 && len(short) > 0, "R4", "pointer-verdict:needs-short-input", p.InstrPos(ci), "input is declared a pointer only when fewer bytes than the cutoff were read (or the read failed)", "input of cutoff length or more can be declared an existing pointer, so the rest of the stream is dropped: "+p2)
		}
		// the converse: input goes on to be hashed and stored only if it failed to parse or is not short — every
		// parseable short input (canonical or not) is left alone
		// one matcher for both tests, so that `already := decoded && short; if … || already` (a φ of the two) is
		// understood: the branch is passed when the flag is false
		nFail, nLong := 0, 0
		notPointer := PassEdges(ctt, func(cond ssa.Value) (bool, bool) {
			if e, trueMeansNil, ok := IsErrNilCheck(cond); ok && ResultOfCall(e, dec, 2) {
				nFail++
				return !trueMeansNil, true
			}
			op, x, y, ok := BinCmp(cond)
			if !ok {
				return false, false
			}
			k, isK := ConstInt(y)
			lc, isCall := x.(*ssa.Call)
			if !isK || !isCall || k != cutoff {
				return false, false
			}
			if bi, ok := lc.Call.Value.(*ssa.Builtin); !ok || bi.Name() != "len" {
				return false, false
			}
			switch op {
			case token.LSS:
				nLong++
				return false, true
			case token.GEQ:
				nLong++
				return true, true
			}
			return false, false
		})
		for _, ci := range CallsIn(ctt, "tools.CopyWithCallback", "io.Copy") {
			okc, pc := Guarded(ctt.Blocks[0], ci, notPointer, nil)
			c.Check(okc && nFail > 0 && nLong > 0 && nonVacuous(notPointer), "R4", "content-verdict:only-unparseable-or-long", p.InstrPos(ci), "input is stored as content only if it did not parse as a pointer or is not short",
				"short input that parsed as a pointer can still be hashed and stored as content (an extra condition on the pointer, e.g. being canonical): a non-canonical pointer is wrapped into a pointer to a pointer: "+pc)
		}
	}

	// ---- R5: whole-prefix reads -----------------------------------------------------------------
	df := p.Fn("lfs", "DecodeFrom")
	if df != nil {
		full := false
		for _, ci := range CallsIn(df, "io.ReadFull", "io.ReadAtLeast", "io.ReadAll") {
			_ = ci
			full = true
		}
		single := len(CallsIn(df, "(io.Reader).Read")) > 0
		c.Check(full && !single, "R5", "DecodeFrom:fills-prefix", p.Pos(df.Pos()), "the pointer-sized prefix is read with a fill-until-full read", "DecodeFrom decides on the result of a single Read: a pointer arriving in two pipe writes is parsed from its first fragment only and cleaned into a pointer to a pointer")
	}
	allowedSingleRead := map[string]string{
		"(*lfs.GitFilter).copyToTemp":                  "reads the reader returned by DecodeFrom: a bytes.Reader (optionally followed by the rest) holding the whole sniffed prefix",
		"commands.incomingOrCached":                    "pkt-line reader fills until full or flush packet (C14.R7)",
		"tools.Spool":                                  "short first read is harmless: the remainder is copied afterwards",
		"(*tq.adapterBase).setContentTypeFor":          "content sniffing only",
		"lfshttp.tracedRead":                           "tracing wrapper that passes Read through",
		"(*ssh.PktlineConnection).ReadStatusWithData":  "protocol reader",
		"(*ssh.PktlineConnection).ReadStatusWithLines": "protocol reader",
	}
	n := 0
	for _, fn := range p.RepoFuncs(productPkg) {
		for _, ci := range CallsIn(fn, "(io.Reader).Read", "(*os.File).Read", "(io.ReadCloser).Read", "(io.ReadSeeker).Read") {
			root := fn
			for root.Parent() != nil {
				root = root.Parent()
			}
			if root.Name() == "Read" && root.Signature.Recv() != nil {
				continue // an io.Reader wrapper passing Read through
			}
			n++
			why, ok := allowedSingleRead[FnName(root)]
			if !ok {
				// ssh protocol helpers and similar: allowed when the count is not compared/used for a parse decision is hard to see; list them
				if strings.HasPrefix(FnName(root), "(*ssh.") || strings.HasPrefix(FnName(root), "ssh.") {
					why, ok = "ssh pkt-line protocol reader", true
				}
			}
			c.Check(ok, "R5", "single-Read:"+FnName(root), p.InstrPos(ci), "known reader that fills: "+why, "a single Read whose byte count may be taken for the whole input occurs at a site the rules do not know (a short read from a pipe would be mistaken for end of data)")
		}
	}
	c.AtLeast("R5", "direct Read sites", n, 3)

	// fill-until-full reads: input shorter than the buffer is ordinary (most pointers and many files are shorter
	// than the 1024-byte sniff buffer); io.ReadFull/ReadAtLeast report it as io.ErrUnexpectedEOF, which must be
	// told apart from a real error wherever the error of such a read is looked at
	nFull := 0
	for _, fn := range p.RepoFuncs(productPkg) {
		for _, ci := range CallsIn(fn, "io.ReadFull", "io.ReadAtLeast") {
			call, ok := ci.(*ssa.Call)
			if !ok {
				continue
			}
			nFull++
			tolerant, looked := false, false
			for _, r := range Referrers(call) {
				ex, ok := r.(*ssa.Extract)
				if !ok || ex.Index != 1 {
					continue
				}
				var scan func(v ssa.Value, d int)
				scan = func(v ssa.Value, d int) {
					if d > 3 {
						return
					}
					for _, rr := range Referrers(v) {
						switch x := rr.(type) {
						case *ssa.BinOp:
							if x.Op == token.EQL || x.Op == token.NEQ {
								looked = true
								for _, o := range []ssa.Value{x.X, x.Y} {
									if ld, ok := o.(*ssa.UnOp); ok {
										if g, ok := ld.X.(*ssa.Global); ok && g.Name() == "ErrUnexpectedEOF" {
											tolerant = true
										}
									}
								}
							}
						case *ssa.Phi:
							scan(x, d+1)
						case *ssa.Store:
							if al, ok := x.Addr.(*ssa.Alloc); ok {
								for _, ld := range Referrers(al) {
									if u, ok := ld.(*ssa.UnOp); ok {
										scan(u, d+1)
									}
								}
							}
						case *ssa.Return, *ssa.MakeInterface:
							looked = true
						case ssa.CallInstruction:
							looked = true
							if cn := CalleeName(x.Common()); cn == "errors.Is" || cn == "github.com/pkg/errors.Is" {
								for _, a := range x.Common().Args {
									if ld, ok := a.(*ssa.UnOp); ok {
										if g, ok := ld.X.(*ssa.Global); ok && g.Name() == "ErrUnexpectedEOF" {
											tolerant = true
										}
									}
								}
							}
						}
					}
				}
				scan(ex, 0)
			}
			c.Check(!looked || tolerant, "R5", "fill-read-tolerates-short-input:"+FnName(fn), p.InstrPos(ci), "the error of a fill-until-full read is compared with io.ErrUnexpectedEOF (short input is not a failure)",
				"the error of a fill-until-full read is acted upon without telling io.ErrUnexpectedEOF apart: input shorter than the buffer (any small file or pointer) is treated as a hard error and its content is dropped")
		}
	}
	c.AtLeast("R5", "fill-until-full reads", nFull, 1)

	emptyShortcutRule(c, "R7")
	decodeFromWholeStream(c, "R8")
	extensionKeySplit(c, "R4")
	smudgeDecidesFirst(c, "R6")
	copyHelperReadsToEnd(c, "R1")
	// non-pointer input is passed through by the long-running filter as well: its answers follow the protocol
	// grammar C14 decides (status before content, one status per request), shared here
	savedPrefix := c.RulePrefix
	c.RulePrefix = savedPrefix + "C14/"
	runC14(c)
	c.RulePrefix = savedPrefix
	c08SmudgePassesAllNonPointers(c)
	notAPointerIsNotAnError(c, "R6")
	c08BlankLines(c)

	// ---- R6: smudge pass-through ------------------------------------------------------------------
	for _, name := range []string{"smudge", "delayedSmudge"} {
		fn := p.Fn("commands", name)
		if fn == nil {
			c.Missing("R6", "commands."+name, "not found")
			continue
		}
		var d *ssa.Call
		for _, ci := range CallsIn(fn, "lfs.DecodeFrom") {
			d, _ = ci.(*ssa.Call)
		}
		sp := CallsIn(fn, "tools.Spool")
		if d == nil || len(sp) == 0 {
			c.Bad("R6", name+":pass-through", p.Pos(fn.Pos()), "no DecodeFrom + Spool pass-through for non-pointer input")
			continue
		}
		for _, s := range sp {
			a := s.Common().Args
			var to *ssa.Parameter
			for _, prm := range fn.Params {
				if short(prm.Type().String()) == "io.Writer" {
					to = prm
				}
			}
			srcOK := false
			if rc, idx, isRes := CallResult(a[1]); isRes && rc == d && idx == 1 {
				srcOK = true
			}
			dstOK := to != nil && SameVar(a[0], to)
			// reachable only when the parse failed
			pass := PassEdges(fn, func(cond ssa.Value) (bool, bool) {
				e, trueMeansNil, ok := IsErrNilCheck(cond)
				if ok {
					if rc, idx, isRes := CallResult(e); isRes && rc == d && idx == 2 {
						return !trueMeansNil, true
					}
				}
				return false, false
			})
			g, _ := Guarded(fn.Blocks[0], s, pass, nil)
			c.Check(srcOK && dstOK && g && nonVacuous(pass), "R6", name+":pass-through", p.InstrPos(s), "non-pointer input is copied to the output from the reader that replays the sniffed bytes followed by the rest",
				"smudge does not pass non-pointer input through unchanged (wrong source/destination, or not restricted to the parse-failure branch)")
		}
	}
}

// noReturnCommands: calls that end the process in package commands.
func noReturnCommands(in ssa.Instruction) bool {
	if cc := AsCall(in); cc != nil {
		switch CalleeName(cc) {
		case "os.Exit", "commands.Exit", "commands.ExitWithError", "commands.Panic", "log.Fatal", "log.Fatalf", "commands.requireStdin__never":
			return true
		}
	}
	_, isPanic := in.(*ssa.Panic)
	return isPanic
}

var c08Canaries = []Canary{
	{Name: "r7-status-before-clearing", ExpectKey: "C08.R6#filter-process:status-after-not-a-pointer-cleared", Edits: []Edit{{File: "commands/command_filter_process.go", Find: "\t\t\tExitWithError(errors.New(tr.Tr.Get(\"unknown command %q\", req.Header[\"command\"])))\n\t\t}\n\n\t\tif errors.IsNotAPointerError(err) {\n\t\t\tmalformed = append(malformed, req.Header[\"pathname\"])\n\t\t\terr = nil\n\t\t} else if possiblyMalformedObjectSize(n) {\n\t\t\tmalformedOnWindows = append(malformedOnWindows, req.Header[\"pathname\"])\n\t\t}\n\n\t\tvar status git.FilterProcessStatus\n\t\tif delayed {\n\t\t\t// If delayed, there is no need to call w.Flush() since\n", Repl: "\t\t\tExitWithError(errors.New(tr.Tr.Get(\"unknown command %q\", req.Header[\"command\"])))\n\t\t}\n\n\t\tvar status git.FilterProcessStatus\n\t\tif delayed {\n\t\t\t// If delayed, there is no need to call w.Flush() since\n"}, {File: "commands/command_filter_process.go", Find: "\t\t}\n\n\t\ts.WriteStatus(status)\n\t}\n\n\tif len(malformed) > 0 {\n", Repl: "\t\t}\n\n\t\ts.WriteStatus(status)\n\n\t\t// Only list a file in the summary below once its response has\n\t\t// actually been written back to Git.\n\t\tif errors.IsNotAPointerError(err) {\n\t\t\tmalformed = append(malformed, req.Header[\"pathname\"])\n\t\t\terr = nil\n\t\t} else if possiblyMalformedObjectSize(n) {\n\t\t\tmalformedOnWindows = append(malformedOnWindows, req.Header[\"pathname\"])\n\t\t}\n\t}\n\n\tif len(malformed) > 0 {\n"}}},
	{Name: "r6-copy-helper-stops-early", ExpectKey: "C08.R1#copy-with-callback:reads-to-the-end", Edits: []Edit{{File: "tools/iotools.go", Find: "\t\treturn io.Copy(writer, reader)\n\t}\n\n\tcbReader := &CallbackReader{\n\t\tC:         cb,\n\t\tTotalSize: totalSize,\n", Repl: "\t\treturn io.Copy(writer, reader)\n\t}\n\n\tif totalSize > 0 {\n\t\t// Progress is reported against totalSize, so keep the amount\n\t\t// read (and reported) within it.\n\t\treader = io.LimitReader(reader, totalSize)\n\t}\n\n\tcbReader := &CallbackReader{\n\t\tC:         cb,\n\t\tTotalSize: totalSize,\n"}}},
	{Name: "r5-canonical-only-passes", ExpectKey: "C08.R4#content-verdict", Edits: []Edit{{File: "lfs/gitfilter_clean.go", Find: "\tif rerr != nil || (err == nil && len(by) < blobSizeCutoff) {", Repl: "\tif rerr != nil || (err == nil && ptr.Canonical && len(by) < blobSizeCutoff) {"}}},
	{Name: "r4-unbounded-extension-split", ExpectKey: "C08.R4#extension-key", Edits: []Edit{{File: "lfs/pointer.go", Find: "strings.SplitN(key, \"-\", 3)", Repl: "strings.Split(key, \"-\")"}}},
	{Name: "reencode-pointer", ExpectKey: "C08.R1#clean:write-back", Edits: []Edit{{File: "commands/command_clean.go", Find: "		_, err = to.Write(errors.GetContext(err, \"bytes\").([]byte))", Repl: "		_, err = to.Write([]byte(errors.GetContext(err, \"pointer\").(*lfs.Pointer).Encoded()))"}}},
	{Name: "cutoff-leq", ExpectKey: "C08.R3", Edits: []Edit{{File: "lfs/gitfilter_clean.go", Find: "len(by) < blobSizeCutoff", Repl: "len(by) <= blobSizeCutoff"}}},
	{Name: "verdict-without-parse", ExpectKey: "C08.R4#pointer-verdict:needs-clean-parse", Edits: []Edit{{File: "lfs/gitfilter_clean.go", Find: "	if rerr != nil || (err == nil && len(by) < blobSizeCutoff) {", Repl: "	if rerr != nil || len(by) < blobSizeCutoff/8 || (err == nil && len(by) < blobSizeCutoff) {"}}},
	{Name: "single-read-again", ExpectKey: "C08.R5#DecodeFrom:fills-prefix", Edits: []Edit{{File: "lfs/pointer.go", Find: "	n, err := io.ReadFull(reader, buf)\n	if err == io.ErrUnexpectedEOF {\n		err = io.EOF\n	}", Repl: "	n, err := reader.Read(buf)"}}},
	{Name: "spool-original-reader", ExpectKey: "C08.R6#smudge:pass-through", Edits: []Edit{{File: "commands/command_smudge.go", Find: "	ptr, pbuf, perr := lfs.DecodeFrom(from)\n	if perr != nil {\n		n, err := tools.Spool(to, pbuf, cfg.TempDir())", Repl: "	ptr, pbuf, perr := lfs.DecodeFrom(from)\n	_ = pbuf\n	if perr != nil {\n		n, err := tools.Spool(to, from, cfg.TempDir())"}}},
	{Name: "blank-is-empty", ExpectKey: "C08.R7#DecodeFrom:empty-only-for-zero-bytes", Edits: []Edit{{File: "lfs/pointer.go", Find: "	if len(buf) == 0 {\n		return EmptyPointer(), contents, nil\n	}\n\n	p, err := decodeKV(bytes.TrimSpace(buf))", Repl: "	data := bytes.TrimSpace(buf)\n	if len(data) == 0 {\n		return EmptyPointer(), contents, nil\n	}\n\n	p, err := decodeKV(data)"}}},
	{Name: "blob-cutoff-gt", ExpectKey: "C08.R3", Edits: []Edit{{File: "lfs/pointer.go", Find: "	if b.Size >= blobSizeCutoff {", Repl: "	if b.Size > blobSizeCutoff {"}}},
	{Name: "publish-before-verdict", ExpectKey: "C08.R2", Edits: []Edit{{File: "commands/command_clean.go", Find: "		_, err = to.Write(errors.GetContext(err, \"bytes\").([]byte))\n		return nil, err", Repl: "		_, err = to.Write(errors.GetContext(err, \"bytes\").([]byte))\n		if err != nil {\n			return nil, err\n		}"}}},
}

// c08SmudgePassesAllNonPointers (R6, every parse failure): smudge passes its input through unchanged whenever the
// input does not decode as a pointer — whatever the reason the decoder gives (not a pointer at all, a look-alike
// with a bad oid, size or version). Decided: on the branch taken when DecodeFrom returns an error, every return of
// smudge / delayedSmudge comes after the pass-through copy.
func c08SmudgePassesAllNonPointers(c *Ctx) {
	p := c.P
	for _, name := range []string{"smudge", "delayedSmudge"} {
		fn := p.Fn("commands", name)
		if fn == nil {
			c.Missing("R6", "commands."+name, "not found")
			continue
		}
		n := 0
		for _, b := range fn.Blocks {
			ifi, ok := lastInstr(b).(*ssa.If)
			if !ok {
				continue
			}
			e, trueMeansNil, isChk := IsErrNilCheck(ifi.Cond)
			if !isChk {
				continue
			}
			cc, idx, isRes := CallResult(e)
			if !isRes || CalleeName(cc.Common()) != "lfs.DecodeFrom" || idx != 2 {
				continue
			}
			n++
			entry := b.Succs[0]
			if trueMeansNil {
				entry = b.Succs[1]
			}
			good := true
			where := ""
			// leaving because the status line could not be written to Git (broken pipe) is an environment fault,
			// not a decision about the content: those edges are not followed
			pipeCut := map[Edge]bool{}
			for _, pb := range fn.Blocks {
				if pif, ok := lastInstr(pb).(*ssa.If); ok {
					if pe, tmn, isChk := IsErrNilCheck(pif.Cond); isChk {
						if pc, _, isRes := CallResult(pe); isRes && strings.HasSuffix(CalleeName(pc.Common()), ".WriteStatus") {
							if tmn {
								pipeCut[Edge{pb, 1}] = true
							} else {
								pipeCut[Edge{pb, 0}] = true
							}
						}
					}
				}
			}
			for _, ex := range RunCount(CountQuery{Fn: fn, Entry: entry, Cut: pipeCut, Event: func(in ssa.Instruction) CSet {
				if sc := AsCall(in); sc != nil && nameIn(CalleeName(sc), []string{"tools.Spool", "io.Copy"}) {
					return C1
				}
				return 0
			}, NoRet: noReturnCommands}) {
				if ex.Kind == "return" && ex.Set&C0 != 0 {
					// leaving because the status line could not be written to Git (broken pipe) is an environment
					// fault, not a decision about the content
					if r, ok := ex.Instr.(*ssa.Return); ok && len(r.Results) > 0 {
						if cc, _, isRes := CallResult(r.Results[len(r.Results)-1]); isRes && strings.HasSuffix(CalleeName(cc.Common()), ".WriteStatus") {
							continue
						}
					}
					good = false
					where = ex.Desc(p)
				}
			}
			c.Check(good, "R6", name+":every-parse-failure-is-passed-through", p.InstrPos(ifi), "whenever the input does not decode as a pointer it is copied to the output before returning",
				name+" can return for input that failed to decode as a pointer without copying it to the output ("+where+"): content that merely looks like a pointer (bad oid, size or version line) is replaced by nothing")
		}
		c.AtLeast("R6", "decode-failure branches in "+name, n, 1)
	}
}

// c08BlankLines (R4, what still counts as a pointer): the decoder accepts — as a non-canonical pointer, passed
// through untouched by clean — pointer text with empty lines between its keys. The key/value split of a line runs
// only for non-empty lines; dropping the skip turns such files into "not a pointer", and clean wraps them in a new
// pointer.
func c08BlankLines(c *Ctx) {
	p := c.P
	fn := p.Fn("lfs", "decodeKVData")
	if fn == nil {
		c.Missing("R4", "lfs.decodeKVData", "not found")
		return
	}
	n := 0
	for _, ci := range CallsIn(fn, "strings.SplitN", "strings.Split", "strings.Cut", "strings.Fields") {
		args := CallArgs(ci.Common())
		line := args[0]
		cc, _, isRes := CallResult(line)
		if !isRes || CalleeName(cc.Common()) != "(*bufio.Scanner).Text" {
			continue
		}
		n++
		pass := PassEdges(fn, func(cond ssa.Value) (bool, bool) {
			op, x, y, ok := BinCmp(cond)
			if !ok {
				return false, false
			}
			isLenLine := func(v ssa.Value) bool {
				lc, ok := v.(*ssa.Call)
				if !ok {
					return false
				}
				bi, ok := lc.Call.Value.(*ssa.Builtin)
				return ok && bi.Name() == "len" && Unwrap(lc.Call.Args[0]) == Unwrap(line)
			}
			if isLenLine(x) {
				if k, isK := ConstInt(y); isK && k == 0 {
					switch op {
					case token.EQL:
						return false, true
					case token.NEQ, token.GTR:
						return true, true
					}
				}
			}
			if Unwrap(x) == Unwrap(line) {
				if s, isS := ConstString(y); isS && s == "" {
					return op == token.NEQ, true
				}
			}
			return false, false
		})
		l := LoopOf(Loops(fn), ci.Block())
		entry := fn.Blocks[0]
		if l != nil {
			entry = l.Body
		}
		g, path := Guarded(entry, ci, pass, nil)
		c.Check(g && nonVacuous(pass), "R4", fmt.Sprintf("decodeKVData:blank-lines-skipped#%d", n), p.InstrPos(ci), "a line is split into key and value only when it is not empty",
			"empty lines are no longer skipped by the pointer decoder: a pointer file with a blank line between its keys stops being recognised as a pointer, and clean stores it and emits a pointer to the pointer: "+path)
	}
	c.AtLeast("R4", "line splits in decodeKVData", n, 1)
}
