package main

// Rules written after the fourth round of independently seeded changes. Each states a structural necessary
// condition of one or more properties; the run functions of the properties call them with their own rule id.

import (
	"go/constant"
	"go/token"
	"go/types"
	"regexp/syntax"
	"sort"
	"strconv"
	"strings"

	"golang.org/x/tools/go/ssa"
)

// smudgeToFileRule (C01, C04): writing a pointer's content to a path in the working tree.
//
//	(a) SmudgeToFile reports success only after Smudge wrote the object into the file it created — the single
//	    exception is the empty object over an empty file (pointer size tested against zero);
//	(b) when the download was declined (content not local, download not allowed) the file it truncated by
//	    creating it gets the pointer text back: rewind to the start, then Pointer.Encode into the same file,
//	    on every path that leaves through that branch.
func smudgeToFileRule(c *Ctx, rule string) {
	p := c.P
	fn := p.Fn("lfs", "(*GitFilter).SmudgeToFile")
	if fn == nil {
		c.Missing(rule, "(*lfs.GitFilter).SmudgeToFile", "not found")
		return
	}
	var smudge *ssa.Call
	for _, ci := range CallsIn(fn, "(*lfs.GitFilter).Smudge") {
		if cc, ok := ci.(*ssa.Call); ok {
			smudge = cc
		}
	}
	var created *ssa.Call
	for _, ci := range CallsIn(fn, "os.Create", "os.OpenFile") {
		if cc, ok := ci.(*ssa.Call); ok {
			created = cc
		}
	}
	if smudge == nil || created == nil {
		c.Missing(rule, "SmudgeToFile: os.Create / Smudge", "not found")
		return
	}
	isFile := func(v ssa.Value) bool {
		return onlyFrom(v, func(x ssa.Value) bool { cc, i, ok := CallResult(x); return ok && cc == created && i == 0 })
	}
	c.Check(len(smudge.Call.Args) > 1 && isFile(smudge.Call.Args[1]), rule, "SmudgeToFile:smudges-into-created-file", p.InstrPos(smudge),
		"the object is written into the file created at the requested path", "Smudge does not write into the file SmudgeToFile created at the requested path")
	// (a)
	pass := PassEdges(fn, func(cond ssa.Value) (bool, bool) {
		op, x, y, ok := BinCmp(cond)
		if !ok {
			return false, false
		}
		if _, isC := ConstInt(x); isC {
			x, y = y, x
			switch op {
			case token.LEQ:
				op = token.GEQ
			case token.GEQ:
				op = token.LEQ
			}
		}
		if n, isC := ConstInt(y); !isC || n != 0 || !IsLoadOfField(x, "lfs.Pointer", "Size") {
			return false, false
		}
		switch op {
		case token.EQL, token.LEQ:
			return true, true
		case token.NEQ, token.GTR:
			return false, true
		}
		return false, false
	})
	good, where := true, ""
	for _, ex := range RunCount(CountQuery{Fn: fn, Event: func(in ssa.Instruction) CSet {
		if in == ssa.Instruction(smudge) {
			return C1
		}
		return 0
	}, NoRet: noReturnCommands}) {
		if ex.Kind != "return" || ex.Set&C0 == 0 {
			continue
		}
		r := ex.Instr.(*ssa.Return)
		nilRes := false
		for _, v := range ReturnValues(r, -1) {
			if IsNilConst(v) {
				nilRes = true
			}
		}
		if !nilRes {
			continue
		}
		if ok, w := Guarded(fn.Blocks[0], r, pass, noReturnCommands); !ok {
			good, where = false, p.InstrPos(r)+" via "+w
		}
	}
	c.Check(good, rule, "SmudgeToFile:success-only-after-smudge", p.InstrPos(smudge), "success is reported only after Smudge ran, or for the empty object (pointer size tested against zero)",
		"SmudgeToFile can report success without writing the object, under a test other than `pointer size is zero` ("+where+"): an existing file that merely has the right length (e.g. the pointer text itself) is left in place and reported as checked out")
	// (b)
	n := 0
	for _, b := range fn.Blocks {
		ifi, ok := lastInstr(b).(*ssa.If)
		if !ok {
			continue
		}
		cond, flip := stripNot(ifi.Cond)
		cc, isCall := cond.(*ssa.Call)
		if !isCall || CalleeName(cc.Common()) != "errors.IsDownloadDeclinedError" || !ResultOfCall(cc.Call.Args[0], smudge, 1) {
			continue
		}
		n++
		entry := b.Succs[0]
		if flip {
			entry = b.Succs[1]
		}
		isEncode := func(in ssa.Instruction) bool {
			sc := AsCall(in)
			if sc == nil || CalleeName(sc) != "(*lfs.Pointer).Encode" {
				return false
			}
			a := CallArgs(sc)
			return len(a) > 1 && isFile(a[1])
		}
		ok2, where2 := true, ""
		for _, ex := range RunCount(CountQuery{Fn: fn, Entry: entry, Event: func(in ssa.Instruction) CSet {
			if isEncode(in) {
				return C1
			}
			return 0
		}, NoRet: noReturnCommands}) {
			if ex.Kind == "return" && ex.Set&C0 != 0 {
				ok2, where2 = false, ex.Desc(p)
			}
		}
		c.Check(ok2, rule, "SmudgeToFile:declined-download-restores-pointer", p.InstrPos(ifi), "when the download is declined the pointer text is written back into the truncated file on every path",
			"SmudgeToFile can leave through the `download declined` branch without writing the pointer text back into the file it truncated ("+where2+"): a skipped file is left empty instead of remaining a valid pointer")
		// the rewind precedes the write
		for _, eb := range fn.Blocks {
			for _, in := range eb.Instrs {
				if !isEncode(in) || !entry.Dominates(eb) {
					continue
				}
				rewound := false
				for _, si := range CallsIn(fn, "(*os.File).Seek") {
					a := CallArgs(si.Common())
					off, ok1 := ConstInt(a[1])
					wh, ok2 := ConstInt(a[2])
					if !isFile(a[0]) || !ok1 || !ok2 || off != 0 || wh != 0 {
						continue
					}
					if si.Block() == eb && InstrIndex(si) < InstrIndex(in) || si.Block() != eb && si.Block().Dominates(eb) && entry.Dominates(si.Block()) {
						rewound = true
					}
				}
				c.Check(rewound, rule, "SmudgeToFile:pointer-written-from-start", p.InstrPos(in), "the file is rewound to offset 0 before the pointer text is written",
					"the pointer text is written without rewinding the file to its start: whatever Smudge wrote before it was declined stays in front of it")
			}
		}
	}
	c.AtLeast(rule, "download-declined branches in SmudgeToFile", n, 1)
}

func itoa(n int) string { return strconv.Itoa(n) }

var _ = types.Typ
var _ = strings.HasPrefix

// tempCleanupAgeRule (C01, C09): the exit-time sweep of the temp dir runs in every git-lfs process while
// other processes of the same repository may be half-way through a clean or a download. A temp file is removed
// only when the final object already exists, or when it is older than a grace period that is long compared with
// a transfer — the rule asks for a constant of at least one minute (today: one hour). An untyped `60 * 60`
// is 3600 nanoseconds as a time.Duration and makes every file stale.
func tempCleanupAgeRule(c *Ctx, rule string) {
	p := c.P
	cl := p.Fn("fs", "(*Filesystem).cleanupTmp")
	if cl == nil {
		c.Missing(rule, "(*fs.Filesystem).cleanupTmp", "not found")
		return
	}
	n := 0
	for _, f := range WithAnon(cl) {
		rm := CallsIn(f, "os.Remove", "os.RemoveAll")
		if len(rm) == 0 {
			continue
		}
		pass := PassEdges(f, func(cond ssa.Value) (bool, bool) {
			// the final object exists: err == nil for os.Stat(f.ObjectPathname(oid))
			if e, trueMeansNil, ok := IsErrNilCheck(cond); ok {
				if cc, _, isRes := CallResult(e); isRes && CalleeName(cc.Common()) == "os.Stat" {
					if pc, _, ok := CallResult(cc.Call.Args[0]); ok && strings.HasSuffix(CalleeName(pc.Common()), ".ObjectPathname") {
						return trueMeansNil, true
					}
				}
				return false, false
			}
			op, x, y, ok := BinCmp(cond)
			if !ok {
				return false, false
			}
			if _, isC := ConstInt(x); isC {
				x, y = y, x
				switch op {
				case token.LSS:
					op = token.GTR
				case token.LEQ:
					op = token.GEQ
				case token.GTR:
					op = token.LSS
				case token.GEQ:
					op = token.LEQ
				}
			}
			k, isC := ConstInt(y)
			sc, _, isRes := CallResult(x)
			if !isC || !isRes || CalleeName(sc.Common()) != "time.Since" || k < int64(60*1e9) {
				return false, false
			}
			if mc, _, ok := CallResult(sc.Call.Args[0]); !ok || !strings.HasSuffix(CalleeName(mc.Common()), ".ModTime") {
				return false, false
			}
			switch op {
			case token.GTR, token.GEQ:
				return true, true
			case token.LSS, token.LEQ:
				return false, true
			}
			return false, false
		})
		for _, ci := range rm {
			n++
			ok, where := Guarded(f.Blocks[0], ci, pass, noReturnCommands)
			c.Check(ok, rule, "cleanupTmp:removes-only-stale-or-superseded#"+itoa(n), p.InstrPos(ci), "a temp file is removed only when its object exists or it is older than a grace period of at least a minute",
				"a temp file can be removed although it is neither superseded by its final object nor older than a grace period of at least a minute ("+where+"): a concurrent clean or download loses the file it is writing")
		}
	}
	c.AtLeast(rule, "temp-file removals in cleanupTmp", n, 2)
}

// errNotDropped: in fn, the error returned by every call to one of the callees either is the error the function
// returns, or the function goes on only over the `err == nil` edge of a test of that error. Returns that hand the
// callee's error on (directly, or wrapped: the value derives from it) are accepted. Returns the number of calls.
func errNotDropped(c *Ctx, rule, key string, fn *ssa.Function, what string, callees ...string) int {
	p := c.P
	n := 0
	for _, ci := range CallsIn(fn, callees...) {
		g, ok := ci.(*ssa.Call)
		if !ok {
			continue
		}
		res := g.Call.Signature().Results()
		if res.Len() == 0 || !isErrorType(res.At(res.Len()-1).Type()) {
			continue
		}
		n++
		eidx := res.Len() - 1
		isErr := func(v ssa.Value) bool { return ResultOfCall(v, g, eidx) }
		pass := PassEdges(fn, func(cond ssa.Value) (bool, bool) {
			if e, trueMeansNil, ok := IsErrNilCheck(cond); ok && isErr(e) {
				return trueMeansNil, true
			}
			return false, false
		})
		good, where := true, ""
		for _, r := range ReturnsOf(fn) {
			if r.Block() != g.Block() && !InstrReachable(g.Block(), r, nil, noReturnCommands) {
				continue
			}
			if r.Block() == g.Block() && InstrIndex(r) < InstrIndex(g) {
				continue
			}
			hands := false
			for _, v := range r.Results {
				if !isErrorType(v.Type()) {
					continue
				}
				if isErr(v) {
					hands = true
				}
				// tail call `return g(...)`: the tuple is returned as it is
				if ex, ok := v.(*ssa.Extract); ok && ex.Tuple == ssa.Value(g) {
					hands = true
				}
				for _, l := range p.Leaves(v, nil) {
					if isErr(l) {
						hands = true
					}
				}
			}
			if hands {
				continue
			}
			if ok, w := Guarded(g.Block(), r, pass, noReturnCommands); !ok {
				good, where = false, p.InstrPos(r)+" via "+w
			}
		}
		c.Check(good, rule, key+":error-of-"+shortCallee(CalleeName(g.Common()))+"#"+itoa(n), p.InstrPos(g), "the error is returned or tested before going on", what+" ("+where+")")
	}
	return n
}

func isErrorType(t types.Type) bool {
	return t.String() == "error"
}

func shortCallee(s string) string {
	if i := strings.LastIndex(s, "."); i >= 0 {
		return s[i+1:]
	}
	return s
}

// transferRelRule (C03, C06): Transfer.Rel answers (nil, nil) only when the server offered no such action — to
// the queue that means "nothing to do for this object, the server has it". An action that exists but is expired
// comes back from ActionSet.Get as an error; dropping that error turns "ask again" into "already uploaded".
func transferRelRule(c *Ctx, rule string) {
	p := c.P
	fn := p.Fn("tq", "(*Transfer).Rel")
	if fn == nil {
		c.Missing(rule, "(*tq.Transfer).Rel", "not found")
		return
	}
	n := errNotDropped(c, rule, "Transfer.Rel", fn, "Transfer.Rel can go on to another answer (in the end: no action, no error) although looking the action up failed, e.g. because it is expired: the queue reads that as `the server already has this object`, skips the transfer and reports success", "(tq.ActionSet).Get")
	c.AtLeast(rule, "action lookups in Transfer.Rel", n, 2)
}

// c03TusResume (C03): a resumed tus upload sends the bytes from the offset the server reported. The PATCH
// request's body always goes through the start-callback reader whose callback seeks the opened object file to
// that very offset (the API client rewinds bodies before sending), and the Upload-Offset header carries it.
func c03TusResume(c *Ctx, rule string) {
	p := c.P
	fn := p.Fn("tq", "(*tusUploadAdapter).DoTransfer")
	if fn == nil {
		c.Missing(rule, "(*tq.tusUploadAdapter).DoTransfer", "not found")
		return
	}
	// the offset: result of ParseInt over the HEAD response's Upload-Offset header
	isParsedOffset := func(d ssa.Value) bool {
		cc, idx, ok := CallResult(d)
		if !ok || idx != 0 || CalleeName(cc.Common()) != "strconv.ParseInt" {
			return false
		}
		hc, _, ok := CallResult(cc.Call.Args[0])
		if !ok || CalleeName(hc.Common()) != "(net/http.Header).Get" {
			return false
		}
		s, ok := ConstString(hc.Call.Args[1])
		return ok && s == "Upload-Offset"
	}
	// the value may travel through local cells (a captured variable, the result variable of a helper expanded in
	// place); the zero stored on a path that returns an error is not an offset anybody uses
	var isOffset func(v ssa.Value) bool
	isOffset = func(v ssa.Value) bool {
		seen := map[ssa.Value]bool{}
		n, bad := 0, false
		var walk func(v ssa.Value, d int)
		walk = func(v ssa.Value, d int) {
			v = Unwrap(v)
			if seen[v] || d > 8 {
				return
			}
			seen[v] = true
			if k, ok := ConstInt(v); ok && k == 0 {
				return
			}
			if isParsedOffset(v) {
				n++
				return
			}
			if ph, ok := v.(*ssa.Phi); ok {
				for _, e := range ph.Edges {
					walk(e, d+1)
				}
				return
			}
			if u, ok := v.(*ssa.UnOp); ok && u.Op == token.MUL {
				if al, ok := u.X.(*ssa.Alloc); ok {
					for _, r := range Referrers(al) {
						if st, ok := r.(*ssa.Store); ok && st.Addr == ssa.Value(al) {
							walk(st.Val, d+1)
						}
					}
					return
				}
			}
			bad = true
		}
		walk(v, 0)
		return n > 0 && !bad
	}
	nBody := 0
	for _, b := range fn.Blocks {
		for _, in := range b.Instrs {
			st, ok := in.(*ssa.Store)
			if !ok {
				continue
			}
			fa, ok := st.Addr.(*ssa.FieldAddr)
			if !ok {
				continue
			}
			if tn, f := fieldAddrName(fa); tn != "net/http.Request" || f != "Body" {
				continue
			}
			nBody++
			// every value the body may be is the start-callback reader
			var leaves []ssa.Value
			var walk func(v ssa.Value, seen map[ssa.Value]bool)
			walk = func(v ssa.Value, seen map[ssa.Value]bool) {
				if seen[v] {
					return
				}
				seen[v] = true
				switch x := v.(type) {
				case *ssa.MakeInterface:
					walk(x.X, seen)
				case *ssa.ChangeInterface:
					walk(x.X, seen)
				case *ssa.ChangeType:
					walk(x.X, seen)
				case *ssa.Phi:
					for _, e := range x.Edges {
						walk(e, seen)
					}
				default:
					if defs := ReachingDefs(v); len(defs) > 0 {
						for _, d := range defs {
							walk(d, seen)
						}
						return
					}
					leaves = append(leaves, v)
				}
			}
			walk(st.Val, map[ssa.Value]bool{})
			good, why := len(leaves) > 0, ""
			for _, l := range leaves {
				cc, ok := l.(*ssa.Call)
				if !ok || CalleeName(cc.Common()) != "tq.newStartCallbackReader" {
					good, why = false, "the body can be a reader that is not wrapped by the start callback"
					continue
				}
				mc, ok := cc.Call.Args[1].(*ssa.MakeClosure)
				if !ok {
					good, why = false, "the start callback is not a function literal of DoTransfer"
					continue
				}
				cb := mc.Fn.(*ssa.Function)
				seeks := false
				for _, si := range CallsIn(cb, "(*os.File).Seek") {
					a := CallArgs(si.Common())
					// the offset argument is the captured offset variable
					u, ok := a[1].(*ssa.UnOp)
					if !ok {
						continue
					}
					fv, ok := u.X.(*ssa.FreeVar)
					if !ok {
						continue
					}
					for i, f := range cb.FreeVars {
						if f != fv {
							continue
						}
						al, ok := mc.Bindings[i].(*ssa.Alloc)
						if !ok {
							continue
						}
						allOff := true
						ns := 0
						for _, r := range Referrers(al) {
							if s, ok := r.(*ssa.Store); ok && s.Addr == ssa.Value(al) {
								ns++
								if !isOffset(s.Val) {
									allOff = false
								}
							}
						}
						if ns > 0 && allOff {
							// the seek runs on every path through the callback that reports no error
							seeks = seekOnEveryNilReturn(cb, si)
						}
					}
				}
				if !seeks {
					good, why = false, "the start callback does not (always) seek the file to the offset parsed from the HEAD response's Upload-Offset header"
				}
			}
			c.Check(good, rule, "tus:body-starts-at-server-offset", p.InstrPos(st), "the PATCH body is always the start-callback reader, and the callback seeks the object file to the offset the server reported",
				"a tus upload can send a body that does not start at the offset the server reported ("+why+"): bytes from the start of the file land at the resume offset and the server stores a corrupt object of the right length")
		}
	}
	c.AtLeast(rule, "request bodies set in tus DoTransfer", nBody, 1)
	// the header carries the same offset
	nHdr := 0
	for _, ci := range CallsIn(fn, "(net/http.Header).Set") {
		a := CallArgs(ci.Common())
		if s, ok := ConstString(a[1]); !ok || s != "Upload-Offset" {
			continue
		}
		nHdr++
		okv := false
		if fc, _, ok := CallResult(a[2]); ok && CalleeName(fc.Common()) == "strconv.FormatInt" && isOffset(fc.Call.Args[0]) {
			okv = true
		}
		c.Check(okv, rule, "tus:offset-header-is-server-offset", p.InstrPos(ci), "Upload-Offset of the PATCH request is the offset the HEAD response reported", "the Upload-Offset header of the PATCH request is not the offset parsed from the HEAD response")
	}
	c.AtLeast(rule, "Upload-Offset headers set in tus DoTransfer", nHdr, 1)
}

// seekOnEveryNilReturn: every return of cb that may carry a nil error is reached only after call.
func seekOnEveryNilReturn(cb *ssa.Function, call ssa.CallInstruction) bool {
	for _, ex := range RunCount(CountQuery{Fn: cb, Event: func(in ssa.Instruction) CSet {
		if in == call.(ssa.Instruction) {
			return C1
		}
		return 0
	}, NoRet: noReturnCommands}) {
		if ex.Kind != "return" || ex.Set&C0 == 0 {
			continue
		}
		r := ex.Instr.(*ssa.Return)
		for _, v := range ReturnValues(r, -1) {
			if IsNilConst(v) {
				return false
			}
		}
	}
	return true
}

// ---- argument vectors --------------------------------------------------------------------------------------

// argSym is one element of an abstract argument vector: a single value, or a whole slice spread in place.
type argSym struct {
	V      ssa.Value
	Spread bool
}

// ArgVectors evaluates a []string value built from literals, append chains and φ-nodes into the finite set of
// element sequences it may hold (bounded; ok=false when the bound is hit or a loop feeds the slice).
func ArgVectors(v ssa.Value) (out [][]argSym, ok bool) {
	const bound = 128
	ok = true
	memo := map[ssa.Value][][]argSym{}
	var eval, eval1 func(v ssa.Value, seen map[ssa.Value]bool) [][]argSym
	// a chain of conditional appends is a chain of φ-nodes over one another: without the memo every φ would
	// evaluate its predecessor chain twice (exponential in the number of conditions)
	eval = func(v ssa.Value, seen map[ssa.Value]bool) [][]argSym {
		if r, done := memo[v]; done {
			return r
		}
		if seen[v] {
			ok = false
			return nil
		}
		r := eval1(v, seen)
		if len(r) > bound {
			ok = false
			r = r[:bound]
		}
		memo[v] = r
		return r
	}
	eval1 = func(v ssa.Value, seen map[ssa.Value]bool) [][]argSym {
		seen[v] = true
		defer delete(seen, v)
		switch x := v.(type) {
		case *ssa.Const:
			if x.IsNil() {
				return [][]argSym{{}}
			}
		case *ssa.MakeSlice:
			if n, isC := ConstInt(x.Len); isC && n == 0 {
				return [][]argSym{{}}
			}
		case *ssa.Slice:
			if _, isAl := x.X.(*ssa.Alloc); isAl && x.Low == nil && x.High == nil {
				var seq []argSym
				for _, e := range variadicOrdered(x) {
					seq = append(seq, argSym{V: e})
				}
				return [][]argSym{seq}
			}
		case *ssa.Phi:
			var res [][]argSym
			for _, e := range x.Edges {
				res = append(res, eval(e, seen)...)
			}
			if len(res) > bound {
				ok = false
				return res[:bound]
			}
			return res
		case *ssa.UnOp:
			if defs := ReachingDefs(x); len(defs) > 0 {
				var res [][]argSym
				for _, d := range defs {
					res = append(res, eval(d, seen)...)
				}
				return res
			}
		case *ssa.Call:
			if b, isB := x.Call.Value.(*ssa.Builtin); isB && b.Name() == "append" && len(x.Call.Args) == 2 {
				as := eval(x.Call.Args[0], seen)
				bs := eval(x.Call.Args[1], seen)
				var res [][]argSym
				for _, a := range as {
					for _, b := range bs {
						s := append(append([]argSym{}, a...), b...)
						res = append(res, s)
						if len(res) > bound {
							ok = false
							return res
						}
					}
				}
				return res
			}
		}
		return [][]argSym{{argSym{V: v, Spread: true}}}
	}
	out = eval(v, map[ssa.Value]bool{})
	return out, ok
}

// gitRunners are the functions of package git that start a git process with the argument vector given.
var gitRunners = []string{"git.gitSimple", "git.gitNoLFSSimple", "git.gitNoLFS", "git.git", "git.gitNoLFSBuffered", "git.gitBuffered", "git.gitConfigNoLFS"}

// pathspecSeparatorRule: the functions of package git that hand caller-supplied path names to a git command
// after a revision put the `--` separator between the two. Without it git parses a path that is missing from the
// working tree as a revision and fails with "ambiguous argument" — exactly when the caller asks about a deleted
// file — and a path that looks like an option or a ref changes the command.
//
// instances: function → the parameter carrying paths
var pathspecSites = []struct{ fn, param string }{
	{"DiffIndexWithPaths", "paths"},
	{"Checkout", "paths"},
	{"IsFileModified", "filepath"},
}

func pathspecSeparatorRule(c *Ctx, rule string) {
	p := c.P
	for _, site := range pathspecSites {
		fn := p.Fn("git", site.fn)
		if fn == nil {
			c.Missing(rule, "git."+site.fn, "not found")
			continue
		}
		var prm *ssa.Parameter
		for _, q := range fn.Params {
			if q.Name() == site.param {
				prm = q
			}
		}
		if prm == nil {
			c.Missing(rule, "git."+site.fn+" parameter "+site.param, "not found")
			continue
		}
		isPath := func(v ssa.Value) bool {
			if SameVar(v, prm) {
				return true
			}
			for _, l := range p.LeavesNoFields(v, nil) {
				if l == ssa.Value(prm) {
					return true
				}
			}
			return false
		}
		n := 0
		for _, ci := range CallsIn(fn, gitRunners...) {
			a := CallArgs(ci.Common())
			if len(a) == 0 {
				continue
			}
			vecs, ok := ArgVectors(a[len(a)-1])
			if !ok {
				c.Undecided(rule, "git."+site.fn+":argv", p.InstrPos(ci), "the argument vector could not be enumerated")
				continue
			}
			n++
			good, why := true, ""
			sawPath := false
			for _, vec := range vecs {
				sep := false
				for _, e := range vec {
					if s, isC := ConstString(e.V); isC && !e.Spread && s == "--" {
						sep = true
					}
					if isPath(e.V) {
						sawPath = true
						if !sep {
							good, why = false, "an argument vector places the paths without a preceding `--`"
						}
					}
				}
			}
			if !sawPath {
				good, why = false, "the path parameter does not reach the command"
			}
			c.Check(good, rule, "git."+site.fn+":paths-after-separator", p.InstrPos(ci), "every argument vector puts `--` before the caller's paths",
				"git."+site.fn+" runs git with caller-supplied paths not separated from revisions and options by `--` ("+why+"): a path missing from the working tree (a deleted file) makes git fail with `ambiguous argument`, and the caller silently skips restoring it")
		}
		c.AtLeast(rule, "git invocations in git."+site.fn, n, 1)
	}
}

// staticReach: the repository functions reachable from root over statically resolved calls (closures included).
func staticReach(p *Prog, roots ...*ssa.Function) map[*ssa.Function]bool {
	seen := map[*ssa.Function]bool{}
	var visit func(fn *ssa.Function)
	visit = func(fn *ssa.Function) {
		if fn == nil || seen[fn] || fn.Blocks == nil || fn.Pkg == nil || !productPkg(fn.Pkg.Pkg.Path()) {
			return
		}
		seen[fn] = true
		for _, a := range fn.AnonFuncs {
			visit(a)
		}
		for _, b := range fn.Blocks {
			for _, in := range b.Instrs {
				if sc := AsCall(in); sc != nil {
					if callee := sc.StaticCallee(); callee != nil {
						visit(callee)
					}
				}
			}
		}
	}
	for _, r := range roots {
		visit(r)
	}
	return seen
}

// retentionScansUnfiltered (C05): what an unpushed commit or a stash refers to is retained whatever its path —
// the path filter prune builds from lfs.fetchexclude narrows only what counts as referenced by the current
// checkout and recent refs. The log scans behind ScanUnpushed and ScanStashed therefore run without a path filter.
func retentionScansUnfiltered(c *Ctx, rule string) {
	p := c.P
	n := 0
	for _, rootName := range []string{"(*GitScanner).ScanUnpushed", "(*GitScanner).ScanStashed"} {
		root := p.Fn("lfs", rootName)
		if root == nil {
			c.Missing(rule, "lfs."+rootName, "not found")
			continue
		}
		m := 0
		for fn := range staticReach(p, root) {
			for _, ci := range CallsIn(fn, "lfs.parseScannerLogOutput") {
				a := CallArgs(ci.Common())
				good := true
				for _, l := range p.LeavesUp(a[3], nil) {
					if !IsNilConst(l) {
						good = false
					}
				}
				if len(p.LeavesUp(a[3], nil)) == 0 && !IsNilConst(a[3]) {
					good = false
				}
				m++
				n++
				c.Check(good, rule, "unfiltered-retention-scan:"+strings.TrimPrefix(rootName, "(*GitScanner)."), p.InstrPos(ci), "the log scan runs without a path filter",
					"the scan behind "+rootName+" applies a path filter: objects on paths matching lfs.fetchexclude that only an unpushed commit or a stash refers to are no longer retained, and prune deletes the only copy")
			}
		}
		c.AtLeast(rule, "log scans behind "+rootName, m, 1)
	}
	_ = n
}

// adapterBegunRule (C06): the queue's "adapter in progress" flag means "Begin succeeded, End must be called and
// jobs may be handed over". It is set only on the success edge of Adapter.Begin: after a failed Begin no worker
// runs, End would wait for workers that never started (Wait never returns) and a later batch would skip Begin.
func adapterBegunRule(c *Ctx, rule string) {
	p := c.P
	n := 0
	for _, fn := range p.RepoFuncs(func(path string) bool { return strings.HasSuffix(path, "/tq") }) {
		for _, b := range fn.Blocks {
			for _, in := range b.Instrs {
				st, ok := in.(*ssa.Store)
				if !ok {
					continue
				}
				fa, ok := st.Addr.(*ssa.FieldAddr)
				if !ok {
					continue
				}
				if tn, f := fieldAddrName(fa); tn != "tq.TransferQueue" || f != "adapterInProgress" {
					continue
				}
				if bv, isC := ConstBool(st.Val); isC && !bv {
					continue
				}
				n++
				var begins []*ssa.Call
				for _, ci := range CallsIn(fn, "(tq.Adapter).Begin") {
					if cc, ok := ci.(*ssa.Call); ok {
						begins = append(begins, cc)
					}
				}
				pass := PassEdges(fn, func(cond ssa.Value) (bool, bool) {
					if e, trueMeansNil, ok := IsErrNilCheck(cond); ok {
						for _, bc := range begins {
							if ResultOfCall(e, bc, 0) {
								return trueMeansNil, true
							}
						}
					}
					return false, false
				})
				ok2, where := Guarded(fn.Blocks[0], st, pass, noReturnCommands)
				c.Check(ok2 && nonVacuous(pass), rule, "adapter-in-progress-only-after-begin:"+FnName(fn), p.InstrPos(st), "the in-progress flag is set only after Begin returned no error",
					"the queue can mark its adapter as in progress although Begin failed or was not called ("+where+"): Wait() then calls End on an adapter whose workers never started and never returns")
			}
		}
	}
	c.AtLeast(rule, "sites setting adapterInProgress", n, 1)
}

// decodeFromFillsPrefix (C07): what DecodeFrom decodes must not depend on how the reader chunks its data. The
// pointer-sized prefix is read with io.ReadFull, or io.ReadAtLeast asked for the whole buffer — never with a
// single Read or a smaller minimum, which return after the first chunk of a pipe.
func decodeFromFillsPrefix(c *Ctx, rule string) {
	p := c.P
	df := p.Fn("lfs", "DecodeFrom")
	if df == nil {
		c.Missing(rule, "lfs.DecodeFrom", "not found")
		return
	}
	good, why := false, "no fill-until-full read of the prefix"
	for _, ci := range CallsIn(df, "io.ReadFull", "io.ReadAtLeast", "io.ReadAll") {
		call, ok := ci.(*ssa.Call)
		if !ok {
			continue
		}
		good = true
		if CalleeName(call.Common()) == "io.ReadAtLeast" {
			a := call.Call.Args
			full := false
			if bc, ok := a[2].(*ssa.Call); ok {
				if bi, ok := bc.Call.Value.(*ssa.Builtin); ok && bi.Name() == "len" && bc.Call.Args[0] == a[1] {
					full = true
				}
			}
			if k, ok := ConstInt(a[2]); ok {
				if ms, ok := Unwrap(a[1]).(*ssa.MakeSlice); ok {
					if l, ok := ConstInt(ms.Len); ok && k >= l {
						full = true
					}
				}
			}
			if !full {
				good, why = false, "io.ReadAtLeast is asked for fewer bytes than the buffer holds"
			}
		}
	}
	if len(CallsIn(df, "(io.Reader).Read")) > 0 {
		good, why = false, "a single Read decides"
	}
	c.Check(good, rule, "DecodeFrom:independent-of-chunking", p.Pos(df.Pos()), "the prefix is read until the buffer is full or the input ends",
		"DecodeFrom reads its prefix with a read that may stop at the first chunk ("+why+"): the same pointer text decodes to a different pointer, or is rejected, depending on how the reader delivers it")
}

// decodeFromWholeStream (C08, C01): the reader DecodeFrom hands back replays the whole input — the sniffed
// prefix followed by the unread rest of the original reader — on every return, whatever the parse verdict; only
// when the fill read hit the end of the input (its error compared equal to io.EOF) may it be the prefix alone.
// Clean stores what this reader yields, so a prefix-only reader silently truncates content that merely starts
// like a pointer.
func decodeFromWholeStream(c *Ctx, rule string) {
	p := c.P
	df := p.Fn("lfs", "DecodeFrom")
	if df == nil || len(df.Params) == 0 {
		c.Missing(rule, "lfs.DecodeFrom", "not found")
		return
	}
	src := df.Params[0]
	var fill *ssa.Call
	for _, ci := range CallsIn(df, "io.ReadFull", "io.ReadAtLeast") {
		fill, _ = ci.(*ssa.Call)
	}
	if fill == nil {
		c.Missing(rule, "fill read in lfs.DecodeFrom", "not found")
		return
	}
	var fromFill func(v ssa.Value, d int) bool
	fromFill = func(v ssa.Value, d int) bool {
		if d > 4 {
			return false
		}
		if ResultOfCall(v, fill, 1) {
			return true
		}
		if ph, ok := v.(*ssa.Phi); ok {
			for _, e := range ph.Edges {
				if fromFill(e, d+1) {
					return true
				}
			}
		}
		return false
	}
	isEOF := func(v ssa.Value) bool {
		u, ok := v.(*ssa.UnOp)
		if !ok {
			return false
		}
		g, ok := u.X.(*ssa.Global)
		return ok && g.Name() == "EOF" && g.Pkg != nil && g.Pkg.Pkg.Path() == "io"
	}
	ended := PassEdges(df, func(cond ssa.Value) (bool, bool) {
		op, x, y, ok := BinCmp(cond)
		if !ok || (op != token.EQL && op != token.NEQ) {
			return false, false
		}
		if isEOF(x) {
			x, y = y, x
		}
		if !isEOF(y) || !fromFill(x, 0) {
			return false, false
		}
		return op == token.EQL, true
	})
	whole := func(v ssa.Value) bool {
		for i := 0; i < 6; i++ {
			switch x := v.(type) {
			case *ssa.MakeInterface:
				v = x.X
				continue
			case *ssa.ChangeInterface:
				v = x.X
				continue
			}
			break
		}
		cc, ok := v.(*ssa.Call)
		if !ok || CalleeName(cc.Common()) != "io.MultiReader" {
			return false
		}
		els := variadicOrdered(cc.Call.Args[0])
		return len(els) >= 2 && els[len(els)-1] != nil && SameVar(els[len(els)-1], src)
	}
	good, where := true, ""
	nRet := 0
	before := ExploreOverflow
	ExploreOverflow = false
	ExploreX(df.Blocks[0], nil, nil, noReturnCommands, EdgeSet(ended), nil, func(in ssa.Instruction, st PState) bool {
		r, ok := in.(*ssa.Return)
		if !ok || len(r.Results) < 2 {
			return true
		}
		nRet++
		if !whole(Base(r.Results[1], st)) {
			good, where = false, p.InstrPos(r)
		}
		return true
	})
	if ExploreOverflow {
		c.Undecided(rule, "DecodeFrom:returns-whole-stream", p.Pos(df.Pos()), "path exploration ran into its bound")
	}
	ExploreOverflow = before
	c.Check(good && nonVacuous(ended) && nRet > 0, rule, "DecodeFrom:returns-whole-stream", p.Pos(df.Pos()), "unless the input ended inside the prefix, every return hands back prefix + rest of the original reader",
		"DecodeFrom can hand back a reader that holds only the sniffed prefix although more input follows (return at "+where+"): clean hashes and stores the first bytes only and silently drops the rest of the file")
}

// extensionKeySplit (C07, C08): the encoder writes an extension line as "ext-<priority>-<name> ..." with the name
// verbatim, and names may contain '-' (e.g. "case-fold"). The decoder therefore splits the key into at most three
// parts, the name being the remainder: an unbounded split rejects pointers this very client wrote.
func extensionKeySplit(c *Ctx, rule string) {
	p := c.P
	fn := p.Fn("lfs", "parsePointerExtension")
	if fn == nil || len(fn.Params) == 0 {
		c.Missing(rule, "lfs.parsePointerExtension", "not found")
		return
	}
	key := fn.Params[0]
	n := 0
	for _, ci := range CallsIn(fn, "strings.Split", "strings.SplitN", "strings.SplitAfter", "strings.SplitAfterN", "strings.Fields", "strings.FieldsFunc", "strings.Cut") {
		a := CallArgs(ci.Common())
		if !SameVar(a[0], key) {
			continue
		}
		n++
		good := false
		switch CalleeName(ci.Common()) {
		case "strings.SplitN":
			if k, ok := ConstInt(a[2]); ok && k == 3 {
				good = true
			}
		case "strings.Cut":
			good = true
		}
		c.Check(good, rule, "extension-key:name-is-the-remainder", p.InstrPos(ci), "the key is split into at most three parts", "the extension key is split without the bound of three parts: an extension whose name contains '-' (which Encode writes verbatim) no longer decodes, so a pointer this client wrote is not recognised as a pointer and clean wraps it into a pointer to a pointer")
	}
	c.AtLeast(rule, "splits of the extension key", n, 1)
}

// shellSafeChars: characters that sh passes through unchanged in an unquoted word (no expansion, no operator,
// no glob). Everything else — $ ` ( ) ; & | < > * ? [ ] { } ~ ! # space quotes backslash — needs quoting.
const shellSafeChars = "abcdefghijklmnopqrstuvwxyzABCDEFGHIJKLMNOPQRSTUVWXYZ0123456789_@/.-,:=+%"

// isShellWordAllowList: pat is `\A<class>+\z` (or *) with a class made of shell-safe characters only.
func isShellWordAllowList(pat string) (bool, string) {
	re, err := syntax.Parse(pat, syntax.Perl)
	if err != nil {
		return false, "pattern does not parse"
	}
	if re.Op != syntax.OpConcat || len(re.Sub) != 3 || re.Sub[0].Op != syntax.OpBeginText || re.Sub[2].Op != syntax.OpEndText {
		return false, "pattern is not anchored at both ends of the text"
	}
	rep := re.Sub[1]
	if rep.Op != syntax.OpPlus && rep.Op != syntax.OpStar {
		return false, "pattern is not a repeated character class"
	}
	cc := rep.Sub[0]
	if cc.Op != syntax.OpCharClass && cc.Op != syntax.OpLiteral {
		return false, "pattern is not a repeated character class"
	}
	if cc.Op == syntax.OpCharClass {
		for i := 0; i+1 < len(cc.Rune); i += 2 {
			if cc.Rune[i+1]-cc.Rune[i] > 64 {
				return false, "character class is too wide"
			}
			for r := cc.Rune[i]; r <= cc.Rune[i+1]; r++ {
				if !strings.ContainsRune(shellSafeChars, r) {
					return false, "character class admits " + strconv.QuoteRune(r) + ", which sh interprets"
				}
			}
		}
	}
	return true, ""
}

// shellQuoteRule (C11): ShellQuoteSingle is what stands between a repository-supplied URL (lfs.url from
// .lfsconfig → ssh user@host argument) and `sh -c` when the user configured an ssh command. It returns its
// argument unquoted only when an allow-list pattern matched the whole string — a deny-list of "characters that
// need quoting" lets $(...) and back-quotes through.
func shellQuoteRule(c *Ctx, rule string) {
	p := c.P
	fn := p.Fn("subprocess", "ShellQuoteSingle")
	if fn == nil || len(fn.Params) == 0 {
		c.Missing(rule, "subprocess.ShellQuoteSingle", "not found")
		return
	}
	str := fn.Params[0]
	// the allow-list test: a method of a package-level *regexp.Regexp applied to the argument
	var badPat string
	pass := PassEdges(fn, func(cond ssa.Value) (bool, bool) {
		var call *ssa.Call
		passWhen := true
		if op, x, y, ok := BinCmp(cond); ok && (op == token.EQL || op == token.NEQ) {
			// re.FindStringIndex(str) == nil
			if IsNilConst(y) {
				call, _ = x.(*ssa.Call)
			} else if IsNilConst(x) {
				call, _ = y.(*ssa.Call)
			}
			passWhen = op == token.NEQ
		} else if cc, ok := cond.(*ssa.Call); ok {
			call = cc
		}
		if call == nil {
			return false, false
		}
		name := CalleeName(call.Common())
		if !nameIn(name, []string{"(*regexp.Regexp).FindStringIndex", "(*regexp.Regexp).MatchString", "(*regexp.Regexp).FindString"}) {
			return false, false
		}
		a := CallArgs(call.Common())
		if len(a) < 2 || !SameVar(a[1], str) {
			return false, false
		}
		u, ok := a[0].(*ssa.UnOp)
		if !ok {
			return false, false
		}
		g, ok := u.X.(*ssa.Global)
		if !ok {
			return false, false
		}
		pats, _, ok := globalInitStrings(p, "subprocess", g.Name())
		if !ok || len(pats) != 1 {
			return false, false
		}
		if good, why := isShellWordAllowList(pats[0]); !good {
			badPat = strconv.Quote(pats[0]) + ": " + why
			return false, false
		}
		return passWhen, true
	})
	n := 0
	for _, r := range ReturnsOf(fn) {
		plain := false
		for _, v := range ReturnValues(r, 0) {
			if SameVar(v, str) {
				plain = true
			}
			if ph, ok := v.(*ssa.Phi); ok {
				for _, e := range ph.Edges {
					if SameVar(e, str) {
						plain = true
					}
				}
			}
		}
		if !plain {
			continue
		}
		n++
		ok, where := Guarded(fn.Blocks[0], r, pass, nil)
		msg := where
		if badPat != "" {
			msg += "; pattern " + badPat
		}
		c.Check(ok && nonVacuous(pass), rule, "ShellQuoteSingle:unquoted-only-if-allow-listed", p.InstrPos(r), "the argument is returned unquoted only after an anchored allow-list of shell-safe characters matched it",
			"ShellQuoteSingle can return its argument unquoted without an anchored allow-list match of shell-safe characters ("+msg+"): `$(...)`, back-quotes, `;` or `|` in an ssh user/host taken from a repository's .lfsconfig reach `sh -c` and run a program")
	}
	c.AtLeast(rule, "unquoted returns of ShellQuoteSingle", n, 1)
}

// everyValueRecorded (C11): readGitConfig reads .lfsconfig first and Git's own configuration last, and a lookup
// answers with the last value recorded for a key — that is how Git's configuration always wins. It only works if
// every well-formed line that is not rejected as unsafe is recorded, in order: a line may leave the loop body
// without being recorded only after its key was added to the `ignored` list. (Dropping "duplicate" values makes
// a value the user set in Git's configuration lose against a later .lfsconfig line.)
func everyValueRecorded(c *Ctx, rule string) {
	p := c.P
	fn := p.Fn("config", "readGitConfig")
	if fn == nil {
		c.Missing(rule, "config.readGitConfig", "not found")
		return
	}
	var mu *ssa.MapUpdate
	for _, b := range fn.Blocks {
		for _, in := range b.Instrs {
			if m, ok := in.(*ssa.MapUpdate); ok && short(m.Map.Type().String()) == "map[string][]string" {
				mu = m
			}
		}
	}
	if mu == nil {
		c.Missing(rule, "readGitConfig: vals[key] = append(...)", "not found")
		return
	}
	l := LoopOf(Loops(fn), mu.Block())
	if l == nil {
		c.Missing(rule, "readGitConfig: loop over the lines", "not found")
		return
	}
	// entry: where the line is known to be well formed — the block that reads OnlySafeKeys for this line
	var entry *ssa.BasicBlock
	for _, b := range RPO(fn) {
		if !l.Region[b] || entry != nil {
			continue
		}
		for _, in := range b.Instrs {
			if v, ok := in.(ssa.Value); ok && IsLoadOfField(v, "git.ConfigurationSource", "OnlySafeKeys") && b.Dominates(mu.Block()) {
				entry = b
				break
			}
		}
	}
	if entry == nil {
		c.Missing(rule, "readGitConfig: per-line read of OnlySafeKeys", "not found")
		return
	}
	good, where := true, ""
	for _, ex := range RunCount(CountQuery{Fn: fn, Entry: entry, Region: l.Region, Header: l.Header, NoRet: noReturnCommands, Event: func(in ssa.Instruction) CSet {
		if in == ssa.Instruction(mu) {
			return C1
		}
		if cc, ok := in.(*ssa.Call); ok {
			if b, isB := cc.Call.Value.(*ssa.Builtin); isB && b.Name() == "append" && short(cc.Type().String()) == "[]string" {
				if _, isLookup := cc.Call.Args[0].(*ssa.Lookup); !isLookup {
					if len(p.LeavesNoFields(cc.Call.Args[0], nil)) >= 0 && derivesFromMakeSlice(cc.Call.Args[0], 0) {
						return C1
					}
				}
			}
		}
		return 0
	}}) {
		if ex.Set&C0 != 0 {
			good, where = false, ex.Desc(p)
		}
	}
	c.Check(good, rule, "readGitConfig:every-accepted-line-is-recorded", p.InstrPos(mu), "a well-formed line is either recorded or listed as ignored",
		"readGitConfig can skip a well-formed line without recording its value or listing the key as ignored ("+where+"): the last-value-wins order that lets Git's own configuration override .lfsconfig no longer holds")
}

// derivesFromMakeSlice: v is a slice variable that starts as make([]T, ...) and grows by append (φ-chain).
func derivesFromMakeSlice(v ssa.Value, d int) bool {
	if d > 6 {
		return false
	}
	switch x := v.(type) {
	case *ssa.MakeSlice:
		return true
	case *ssa.Slice:
		_, isAl := x.X.(*ssa.Alloc)
		return isAl
	case *ssa.Phi:
		for _, e := range x.Edges {
			if derivesFromMakeSlice(e, d+1) {
				return true
			}
		}
	case *ssa.Call:
		if b, isB := x.Call.Value.(*ssa.Builtin); isB && b.Name() == "append" {
			return derivesFromMakeSlice(x.Call.Args[0], d+1)
		}
	}
	return false
}

// after: instruction b can execute after instruction a on some path of their function.
func after(a, b ssa.Instruction) bool {
	if a.Block() == b.Block() && InstrIndex(a) < InstrIndex(b) {
		return true
	}
	seen := map[*ssa.BasicBlock]bool{}
	var walk func(x *ssa.BasicBlock) bool
	walk = func(x *ssa.BasicBlock) bool {
		if seen[x] {
			return false
		}
		seen[x] = true
		if x == b.Block() {
			return true
		}
		for _, s := range x.Succs {
			if walk(s) {
				return true
			}
		}
		return false
	}
	for _, s := range a.Block().Succs {
		if walk(s) {
			return true
		}
	}
	return false
}

// c12NestedTag (C12): a tag of a tag is re-created around the *rewritten* inner tag. The inner tag's ref is
// resolved after the recursive update of that ref — a SHA resolved before it is the original object, and the
// outer tag would be written unchanged and stay on the un-rewritten history.
func c12NestedTag(c *Ctx, rule string) {
	p := c.P
	fn := p.Fn("git/githistory", "(*refUpdater).updateOneRef")
	if fn == nil {
		c.Missing(rule, "(*githistory.refUpdater).updateOneRef", "not found")
		return
	}
	n := 0
	for _, ut := range CallsIn(fn, "(*git/githistory.refUpdater).updateOneTag") {
		a := CallArgs(ut.Common())
		if len(a) < 3 {
			continue
		}
		dc, _, ok := CallResult(a[2])
		if !ok || CalleeName(dc.Common()) != "encoding/hex.DecodeString" {
			continue // the tag-of-commit branch takes the object from the rewrite cache
		}
		n++
		tn, f, base, isF := FieldOf(dc.Call.Args[0])
		var rr *ssa.Call
		if isF && tn == "git.Ref" && f == "Sha" {
			rr, _, _ = CallResult(base)
		}
		if rr == nil || CalleeName(rr.Common()) != "git.ResolveRef" {
			c.Bad(rule, "nested-tag:target-is-resolved-ref", p.InstrPos(ut), "the object of a re-created tag of a tag is not the SHA of the inner tag's ref as resolved by git.ResolveRef")
			continue
		}
		stale := false
		for _, rc := range CallsIn(fn, "(*git/githistory.refUpdater).updateOneRef") {
			if after(rr, rc) && after(rc, ut) {
				stale = true
			}
		}
		c.Check(!stale, rule, "nested-tag:inner-ref-resolved-after-its-update", p.InstrPos(rr), "the inner tag's ref is resolved after the recursive update",
			"the inner tag's ref is resolved before the recursive update that rewrites it: the outer tag is re-created around the original inner tag, hashes to itself, and its ref stays on the un-rewritten history")
	}
	c.AtLeast(rule, "tag-of-tag re-creations in updateOneRef", n, 1)
}

// c12NoRewriteAccumulates (C12): `migrate import --no-rewrite` converts each named path in turn; every
// rewriteTree call starts from the tree the previous one produced (a loop-carried value), and that final tree is
// the tree of the commit written. Starting each iteration from HEAD's tree converts only the last path.
func c12NoRewriteAccumulates(c *Ctx, rule string) {
	p := c.P
	fn := p.Fn("commands", "migrateImportCommand")
	if fn == nil {
		c.Missing(rule, "commands.migrateImportCommand", "not found")
		return
	}
	n := 0
	for _, ci := range CallsIn(fn, "commands.rewriteTree") {
		rt, ok := ci.(*ssa.Call)
		if !ok {
			continue
		}
		n++
		arg := rt.Call.Args[2]
		carried := false
		var vals []ssa.Value
		if ph, ok := arg.(*ssa.Phi); ok {
			vals = ph.Edges
		} else if defs := ReachingDefs(arg); len(defs) > 0 {
			vals = defs
		}
		for _, v := range vals {
			if ResultOfCall(v, rt, 0) {
				carried = true
			}
			if ph, ok := v.(*ssa.Phi); ok {
				for _, e := range ph.Edges {
					if ResultOfCall(e, rt, 0) {
						carried = true
					}
				}
			}
		}
		c.Check(carried, rule, "no-rewrite:tree-accumulates", p.InstrPos(rt), "each path is rewritten in the tree produced by the previous path",
			"every path of `migrate import --no-rewrite` is rewritten starting from the same original tree: only the last path named ends up as a pointer in the new commit, the others stay raw blobs although their objects were stored")
		// the commit's tree is the accumulated tree
		okTree, seen := false, false
		for _, b := range fn.Blocks {
			for _, in := range b.Instrs {
				st, ok := in.(*ssa.Store)
				if !ok {
					continue
				}
				fa, ok := st.Addr.(*ssa.FieldAddr)
				if !ok {
					continue
				}
				if tn, f := fieldAddrName(fa); !strings.HasSuffix(tn, "gitobj.Commit") && !strings.HasSuffix(tn, ".Commit") || f != "TreeID" {
					continue
				}
				if !after(rt, st) {
					continue
				}
				seen = true
				vs := []ssa.Value{st.Val}
				if ph, ok := st.Val.(*ssa.Phi); ok {
					vs = append(vs, ph.Edges...)
				}
				if defs := ReachingDefs(st.Val); len(defs) > 0 {
					vs = append(vs, defs...)
				}
				for _, v := range vs {
					if ResultOfCall(v, rt, 0) || v == arg {
						okTree = true
					}
				}
			}
		}
		c.Check(seen && okTree, rule, "no-rewrite:commit-has-accumulated-tree", p.InstrPos(rt), "the new commit's tree is the accumulated tree", "the commit written by `migrate import --no-rewrite` does not carry the tree produced by the path rewrites")
	}
	c.AtLeast(rule, "rewriteTree calls in migrateImportCommand", n, 1)
}

// indexEntryName (C13, C05): a staged rename or copy is reported by `diff-index -M` with both names; the object
// the index now requires lives under the destination name, which is what path filters and reports must use.
// The source name is the fall-back only for entries that have no destination name (plain adds and edits).
func indexEntryName(c *Ctx, rule string) {
	p := c.P
	root := p.Fn("lfs", "revListIndex")
	if root == nil {
		c.Missing(rule, "lfs.revListIndex", "not found")
		return
	}
	isField := func(v ssa.Value, field string) bool {
		tn, f, _, ok := FieldOf(v)
		return ok && tn == "lfs.DiffIndexEntry" && f == field
	}
	n := 0
	for _, fn := range WithAnon(root) {
		for _, b := range fn.Blocks {
			for _, in := range b.Instrs {
				st, ok := in.(*ssa.Store)
				if !ok {
					continue
				}
				fa, ok := st.Addr.(*ssa.FieldAddr)
				if !ok {
					continue
				}
				if tn, f := fieldAddrName(fa); tn != "lfs.indexFile" || f != "Name" {
					continue
				}
				n++
				good, why := false, "the name is not `destination name, else source name`"
				if ph, ok := st.Val.(*ssa.Phi); ok && len(ph.Edges) == 2 {
					var dst, src ssa.Value
					for _, e := range ph.Edges {
						if isField(e, "DstName") {
							dst = e
						}
						if isField(e, "SrcName") {
							src = e
						}
					}
					if dst != nil && src != nil {
						// the fall-back is taken when the destination name is empty
						for _, bb := range fn.Blocks {
							ifi, ok := lastInstr(bb).(*ssa.If)
							if !ok {
								continue
							}
							op, x, y, ok := BinCmp(ifi.Cond)
							if !ok {
								continue
							}
							k, isK := ConstInt(y)
							lc, isCall := x.(*ssa.Call)
							if !isK || k != 0 || !isCall || (op != token.EQL && op != token.NEQ && op != token.GTR) {
								continue
							}
							if bi, isB := lc.Call.Value.(*ssa.Builtin); !isB || bi.Name() != "len" {
								continue
							}
							if lc.Call.Args[0] == dst {
								good = true
							} else if lc.Call.Args[0] == src {
								why = "the source name is preferred and the destination name is only the fall-back"
							}
						}
					}
				} else if isField(st.Val, "SrcName") {
					why = "the source name is used"
				}
				c.Check(good, rule, "index-entry-name:destination-first", p.InstrPos(st), "an index entry is named by its destination name, the source name being the fall-back for entries without one",
					"index entries are not named `destination name, else source name` ("+why+"): a staged rename is scanned, filtered and reported under its old path, so fsck with lfs.fetchexclude misses an object the index now requires")
			}
		}
	}
	c.AtLeast(rule, "index entries named in revListIndex", n, 1)
}

// appendsInto collects the append calls whose results flow (through φ-nodes and further appends) into v.
func appendsInto(v ssa.Value) []*ssa.Call {
	var out []*ssa.Call
	seen := map[ssa.Value]bool{}
	var walk func(v ssa.Value)
	walk = func(v ssa.Value) {
		if seen[v] {
			return
		}
		seen[v] = true
		switch x := v.(type) {
		case *ssa.Phi:
			for _, e := range x.Edges {
				walk(e)
			}
		case *ssa.Call:
			if b, isB := x.Call.Value.(*ssa.Builtin); isB && b.Name() == "append" {
				out = append(out, x)
				walk(x.Call.Args[0])
			}
		case *ssa.UnOp:
			for _, d := range ReachingDefs(x) {
				walk(d)
			}
		}
	}
	walk(v)
	return out
}

// attrFilterKeepsOptOuts (C13): the per-tree filter of `fsck --pointers` is built from every .gitattributes line
// that sets or unsets the lfs filter, in order: lines with filter=lfs become includes, lines that unset it
// (-filter, !filter, filter=other) become excludes. Without the excludes a path carved out below a broader
// filter=lfs pattern is taken for LFS-tracked and its ordinary content is reported as a broken pointer.
func attrFilterKeepsOptOuts(c *Ctx, rule string) {
	p := c.P
	fn := p.Fn("lfs", "catFileBatchTreeForPointers")
	if fn == nil {
		c.Missing(rule, "lfs.catFileBatchTreeForPointers", "not found")
		return
	}
	n := 0
	for _, ci := range CallsIn(fn, "filepathfilter.NewFromPatterns") {
		n++
		a := CallArgs(ci.Common())
		trackedPass := func(want bool) []Edge {
			return PassEdges(fn, func(cond ssa.Value) (bool, bool) {
				if IsLoadOfField(cond, "git.AttributePath", "Tracked") {
					return want, true
				}
				return false, false
			})
		}
		for i, kind := range []string{"includes", "excludes"} {
			apps := appendsInto(a[i])
			good := false
			for _, ap := range apps {
				els := variadicOrdered(ap.Call.Args[1])
				if len(els) != 1 || els[0] == nil {
					continue
				}
				if pc, _, ok := CallResult(els[0]); !ok || CalleeName(pc.Common()) != "filepathfilter.NewPattern" {
					continue
				}
				pass := trackedPass(i == 0)
				if ok, _ := Guarded(fn.Blocks[0], ap, pass, nil); ok && nonVacuous(pass) {
					good = true
				}
			}
			want := "tracked (filter=lfs)"
			if i == 1 {
				want = "untracked (filter unset or set to something else)"
			}
			c.Check(good, rule, "tree-attr-filter:"+kind, p.InstrPos(ci), "the "+kind+" of the tree filter are the patterns of the "+want+" attribute lines",
				"the "+kind+" of the per-tree attribute filter are not the patterns of the "+want+" .gitattributes lines: `fsck --pointers` then judges paths by a different tracked set than Git does (e.g. a `-filter` carve-out is reported as a broken pointer)")
		}
	}
	c.AtLeast(rule, "filters built in catFileBatchTreeForPointers", n, 1)
}

// transferRecvChecked (C14, C06): the queue closes its watcher channels when it is done; a receive then yields a
// nil *Transfer. Every receive of a *tq.Transfer in package commands is of the two-value form (or a select with
// the ok flag), and the received value is used only where the flag was true. A nil transfer announced as an
// available blob makes filter-process panic in the middle of a response.
func transferRecvChecked(c *Ctx, rule string) {
	p := c.P
	n := 0
	isTransferChan := func(t types.Type) bool {
		ch, ok := t.Underlying().(*types.Chan)
		return ok && short(ch.Elem().String()) == "*tq.Transfer"
	}
	for _, fn := range p.RepoFuncs(func(path string) bool { return strings.HasSuffix(path, "/commands") }) {
		for _, b := range fn.Blocks {
			for _, in := range b.Instrs {
				var val, okv ssa.Value
				var pos ssa.Instruction
				switch x := in.(type) {
				case *ssa.UnOp:
					if x.Op != token.ARROW || !isTransferChan(x.X.Type()) {
						continue
					}
					n++
					pos = x
					if !x.CommaOk {
						c.Bad(rule, "transfer-receive-checked:"+FnName(fn), p.InstrPos(x), "a *tq.Transfer is received without the ok flag: after the queue closed the channel this yields nil, which is then used as a transfer (filter-process announces a nil blob and panics)")
						continue
					}
					for _, r := range Referrers(x) {
						if ex, ok := r.(*ssa.Extract); ok {
							if ex.Index == 0 {
								val = ex
							} else {
								okv = ex
							}
						}
					}
				case *ssa.Select:
					recvIdx := 0
					for _, stt := range x.States {
						if stt.Dir != types.RecvOnly {
							continue
						}
						if isTransferChan(stt.Chan.Type()) {
							n++
							pos = x
							for _, r := range Referrers(x) {
								if ex, ok := r.(*ssa.Extract); ok {
									if ex.Index == 1 {
										okv = ex
									} else if ex.Index == 2+recvIdx {
										val = ex
									}
								}
							}
						}
						recvIdx++
					}
				default:
					continue
				}
				if pos == nil || val == nil {
					continue
				}
				pass := PassEdges(fn, func(cond ssa.Value) (bool, bool) {
					if okv != nil && cond == okv {
						return true, true
					}
					return false, false
				})
				good, where := true, ""
				for _, u := range Referrers(val) {
					if _, isDbg := u.(*ssa.DebugRef); isDbg {
						continue
					}
					if g, w := Guarded(fn.Blocks[0], u, pass, noReturnCommands); !g || !nonVacuous(pass) {
						good, where = false, p.InstrPos(u)+" via "+w
					}
				}
				c.Check(good, rule, "transfer-receive-checked:"+FnName(fn)+"@"+itoa(n), p.InstrPos(pos), "the received transfer is used only where the ok flag was true",
					"a received *tq.Transfer is used without its ok flag having been tested ("+where+"): after the queue closed the channel it is nil")
			}
		}
	}
	c.AtLeast(rule, "receives of *tq.Transfer in package commands", n, 3)
}

// requestHeaderVerbatim (C14): Git names the blob of a filter request in a `pathname=` header and expects the
// very same bytes back when delayed blobs are listed. readRequest stores header keys and values exactly as split
// at the first '=' — no trimming, cleaning or case change.
func requestHeaderVerbatim(c *Ctx, rule string) {
	p := c.P
	isHeaderMap := func(m ssa.Value) bool {
		if IsLoadOfField(m, "git.Request", "Header") {
			return true
		}
		for _, r := range Referrers(m) {
			if st, ok := r.(*ssa.Store); ok && st.Val == m {
				if fa, ok := st.Addr.(*ssa.FieldAddr); ok {
					if tn, f := fieldAddrName(fa); tn == "git.Request" && f == "Header" {
						return true
					}
				}
			}
		}
		return false
	}
	n := 0
	for _, fn := range p.RepoFuncs(func(path string) bool { return strings.HasSuffix(path, "/git") }) {
		for _, b := range fn.Blocks {
			for _, in := range b.Instrs {
				mu, ok := in.(*ssa.MapUpdate)
				if !ok || short(mu.Map.Type().String()) != "map[string]string" || !isHeaderMap(mu.Map) {
					continue
				}
				n++
				verbatim := func(v ssa.Value) (bool, string) {
					switch x := v.(type) {
					case *ssa.Call:
						return false, CalleeName(x.Common())
					case *ssa.Extract:
						if cc, ok := x.Tuple.(*ssa.Call); ok && CalleeName(cc.Common()) == "strings.Cut" {
							return true, ""
						}
						return false, "a call result"
					case *ssa.UnOp:
						if ia, ok := x.X.(*ssa.IndexAddr); ok {
							if cc, _, ok := CallResult(ia.X); ok && nameIn(CalleeName(cc.Common()), []string{"strings.SplitN", "strings.Split"}) {
								if CalleeName(cc.Common()) == "strings.SplitN" {
									if k, ok := ConstInt(cc.Call.Args[2]); !ok || k != 2 {
										return false, "a split that is not bounded to two parts"
									}
								} else {
									return false, "an unbounded split (values containing '=' are cut)"
								}
								return true, ""
							}
						}
					case *ssa.BinOp:
						return false, "a computed string"
					}
					return true, ""
				}
				okK, whyK := verbatim(mu.Key)
				okV, whyV := verbatim(mu.Value)
				why := whyK
				if okK {
					why = whyV
				}
				c.Check(okK && okV, rule, "request-header:stored-verbatim", p.InstrPos(mu), "header key and value are the two parts of the line split at the first '='",
					"a filter request header is stored after passing through "+why+": a pathname with leading or trailing white space is altered, so the path announced for a delayed blob is one Git never asked for")
			}
		}
	}
	c.AtLeast(rule, "stores into a filter request's header map", n, 1)
}

// concatPicksEarliest (C15): when no object is ready the batch collector sleeps for the wait Concat reports; that
// wait is the *smallest* over the deferred objects, so an object on a short back-off is not held back by another
// object's long Retry-After. In the loop of Concat the running value (a loop-carried time.Duration or time.Time)
// is replaced only where the candidate compared smaller/earlier than it.
func concatPicksEarliest(c *Ctx, rule string) {
	p := c.P
	fn := p.Fn("tq", "(batch).Concat")
	if fn == nil {
		c.Missing(rule, "(tq.batch).Concat", "not found")
		return
	}
	isTimeish := func(t types.Type) bool {
		s := t.String()
		return s == "time.Duration" || s == "time.Time"
	}
	judged := 0
	for _, l := range Loops(fn) {
		for _, in := range l.Header.Instrs {
			acc, ok := in.(*ssa.Phi)
			if !ok {
				break
			}
			if !isTimeish(acc.Type()) {
				continue
			}
			// update sites: (value, predecessor block) pairs that feed the accumulator with something else
			type upd struct {
				v ssa.Value
				p *ssa.BasicBlock
			}
			var upds []upd
			seen := map[*ssa.Phi]bool{}
			var expand func(ph *ssa.Phi)
			expand = func(ph *ssa.Phi) {
				if seen[ph] {
					return
				}
				seen[ph] = true
				for i, e := range ph.Edges {
					pred := ph.Block().Preds[i]
					if !l.Region[pred] {
						continue
					}
					if e == ssa.Value(acc) {
						continue
					}
					if m, ok := e.(*ssa.Phi); ok && l.Region[m.Block()] && m.Block() != l.Header {
						expand(m)
						continue
					}
					upds = append(upds, upd{e, pred})
				}
			}
			expand(acc)
			for b := range l.Region {
				ifi, ok := lastInstr(b).(*ssa.If)
				if !ok {
					continue
				}
				cond, flip := stripNot(ifi.Cond)
				smallerOnTrue, isCmp := false, false
				if op, x, y, ok := BinCmp(cond); ok && (x == ssa.Value(acc) || y == ssa.Value(acc)) {
					accLeft := x == ssa.Value(acc)
					switch op {
					case token.LSS, token.LEQ: // new < acc  |  acc < new
						smallerOnTrue, isCmp = !accLeft, true
					case token.GTR, token.GEQ:
						smallerOnTrue, isCmp = accLeft, true
					}
				} else if cc, ok := cond.(*ssa.Call); ok {
					a := cc.Call.Args
					if len(a) == 2 && (a[0] == ssa.Value(acc) || a[1] == ssa.Value(acc)) {
						accRecv := a[0] == ssa.Value(acc)
						switch CalleeName(cc.Common()) {
						case "(time.Time).Before": // new.Before(acc) | acc.Before(new)
							smallerOnTrue, isCmp = !accRecv, true
						case "(time.Time).After":
							smallerOnTrue, isCmp = accRecv, true
						}
					}
				}
				if !isCmp {
					continue
				}
				if flip {
					smallerOnTrue = !smallerOnTrue
				}
				for _, u := range upds {
					onTrue := b.Succs[0] != l.Header && b.Succs[0].Dominates(u.p)
					onFalse := b.Succs[1] != l.Header && b.Succs[1].Dominates(u.p)
					if u.p == b {
						// the If block itself is the predecessor: which edge carries the update?
						continue
					}
					if !onTrue && !onFalse {
						continue
					}
					judged++
					c.Check(onTrue == smallerOnTrue, rule, "Concat:wait-is-the-smallest#"+itoa(judged), p.InstrPos(ifi), "the running wait is replaced only by a smaller/earlier candidate",
						"Concat keeps the larger/later of the deferred objects' ready times as the time to sleep: every deferred object waits for the longest outstanding delay (e.g. another object's Retry-After), beyond lfs.transfer.maxretrydelay")
				}
			}
		}
	}
	c.AtLeast(rule, "min-selections judged in Concat", judged, 1)
}

// retryLaterNotWrapped (C15): the queue tells "retry after the time the server indicated" from "retry on
// back-off" by the outermost error (IsRetriableLaterError looks at the error itself, while IsRetriableError is
// asked first and is satisfied by a wrapper). A retriable-later error must therefore reach the queue as it is:
// it is never passed to another constructor or wrapper of package errors.
func retryLaterNotWrapped(c *Ctx, rule string) {
	p := c.P
	n := 0
	for _, fn := range p.RepoFuncs(productPkg) {
		for _, ci := range CallsIn(fn, "errors.NewRetriableLaterError") {
			call, ok := ci.(*ssa.Call)
			if !ok {
				continue
			}
			n++
			good, where := true, ""
			seen := map[ssa.Value]bool{}
			var follow func(v ssa.Value, d int)
			follow = func(v ssa.Value, d int) {
				if d > 4 || seen[v] {
					return
				}
				seen[v] = true
				for _, r := range Referrers(v) {
					switch x := r.(type) {
					case *ssa.Phi:
						follow(x, d+1)
					case *ssa.Store:
						if al, ok := x.Addr.(*ssa.Alloc); ok && x.Val == v {
							for _, ld := range Referrers(al) {
								if u, ok := ld.(*ssa.UnOp); ok {
									follow(u, d+1)
								}
							}
						}
					case *ssa.MakeInterface:
						follow(x, d+1)
					case ssa.CallInstruction:
						cn := CalleeName(x.Common())
						if strings.HasPrefix(cn, "errors.New") || strings.HasPrefix(cn, "errors.Wrap") {
							for _, a := range x.Common().Args {
								if a == v {
									good, where = false, cn+" at "+p.InstrPos(x)
								}
							}
						}
					}
				}
			}
			follow(call, 0)
			c.Check(good, rule, "retry-later-error-not-wrapped:"+FnName(fn), p.InstrPos(call), "the retriable-later error is handed on as it is",
				"a retriable-later error is wrapped by "+where+": the queue sees an ordinary retriable error first and repeats the request on back-off, long before the time the server's Retry-After indicated")
		}
	}
	c.AtLeast(rule, "constructions of retriable-later errors", n, 3)
}

// protectionFlagTrusted (C17): CR protection can be switched off only by credential.protectProtocol in the
// user's own Git configuration. A .lfsconfig travels with the repository: whatever is read from a file or a blob
// is restricted to the safe keys (the C11 source rule, shared), and no credential.* key is among them.
func protectionFlagTrusted(c *Ctx, rule string) {
	p := c.P
	old := c.RulePrefix
	c.RulePrefix = old + "C11/"
	c11Sources(c)
	c.RulePrefix = old
	safe, pos, ok := stringSliceGlobal(p, "config", "safeKeys")
	if !ok {
		c.Missing(rule, "config.safeKeys", "allow-list table not found")
		return
	}
	good := true
	for _, k := range safe {
		if strings.HasPrefix(strings.ToLower(k), "credential.") {
			good = false
		}
	}
	c.Check(good, rule, "safeKeys:no-credential-keys", p.Pos(pos), "no credential.* key can be set from .lfsconfig", "a credential.* key is on the .lfsconfig allow-list: a repository can switch CR protection off or name a credential helper")
}

// lockPathIsRepoRelative (C16): lock paths are relative to the repository root whatever the current directory;
// the file whose write bit lock/unlock fixes is <working dir of the repository>/<path>, never the path resolved
// against the process's current directory.
func lockPathIsRepoRelative(c *Ctx, rule string) {
	p := c.P
	fn := p.Fn("locking", "(*Client).getAbsolutePath")
	if fn == nil {
		c.Missing(rule, "(*locking.Client).getAbsolutePath", "not found")
		return
	}
	n := 0
	for _, r := range ReturnsOf(fn) {
		for _, v := range ReturnValues(r, 0) {
			if s, ok := ConstString(v); ok && s == "" {
				continue // error return
			}
			n++
			good := false
			if jc, _, ok := CallResult(v); ok && CalleeName(jc.Common()) == "path/filepath.Join" {
				els := variadicOrdered(jc.Call.Args[0])
				if len(els) >= 2 && els[0] != nil && IsLoadOfField(els[0], "locking.Client", "LocalWorkingDir") {
					for _, e := range els[1:] {
						if e != nil && len(fn.Params) > 1 && SameVar(e, fn.Params[1]) {
							good = true
						}
					}
				}
			}
			c.Check(good, rule, "lock-path:joined-to-repository-root", p.InstrPos(r), "the absolute path of a lock is LocalWorkingDir joined with the repository-relative path",
				"the file a lock refers to is not resolved against the repository's working directory: from a sub-directory lock/unlock fix the write bit of a different (or no) file while the server-side lock changes")
		}
	}
	c.AtLeast(rule, "results of getAbsolutePath", n, 1)
}

// redirectKeepsRequest (C18): an API call that is redirected is the same call sent elsewhere: same method, same
// body. The request built for the next hop takes its method from the original request's Method field only, and
// every successful return of newRequestForRetry has copied Body and ContentLength from the original request.
// (Turning a redirected batch POST into a body-less GET — "303 See Other" semantics — sends the server a request
// that is not a batch request at all.)
func redirectKeepsRequest(c *Ctx, rule string) {
	p := c.P
	fn := p.Fn("lfshttp", "newRequestForRetry")
	if fn == nil || len(fn.Params) == 0 {
		c.Missing(rule, "lfshttp.newRequestForRetry", "not found")
		return
	}
	isMethodLoad := func(v ssa.Value) bool { return IsLoadOfField(v, "net/http.Request", "Method") }
	n := 0
	for _, ci := range CallsIn(fn, "net/http.NewRequest", "net/http.NewRequestWithContext") {
		n++
		a := CallArgs(ci.Common())
		m := a[0]
		if CalleeName(ci.Common()) == "net/http.NewRequestWithContext" {
			m = a[1]
		}
		good, why := true, ""
		leaves := p.LeavesUp(m, func(v ssa.Value) FlowAct {
			if isMethodLoad(v) {
				return Stop
			}
			return Descend
		})
		for _, l := range leaves {
			if !isMethodLoad(l) {
				good = false
				if s, ok := ConstString(l); ok {
					why = "it can be the constant " + strconv.Quote(s)
				} else {
					why = "it can come from " + l.String()
				}
			}
		}
		if len(leaves) == 0 {
			good, why = false, "its origin could not be determined"
		}
		c.Check(good, rule, "redirect:method-is-the-original-method", p.InstrPos(ci), "the next hop's method is the original request's Method", "the method of a redirected request is not always the original request's method ("+why+"): a redirected batch, lock or verify POST is re-sent as a different kind of request")
	}
	c.AtLeast(rule, "requests built in newRequestForRetry", n, 1)
	req := fn.Params[0]
	for _, field := range []string{"Body", "ContentLength"} {
		good, where := true, ""
		found := false
		for _, ex := range RunCount(CountQuery{Fn: fn, NoRet: noReturnCommands, Event: func(in ssa.Instruction) CSet {
			st, ok := in.(*ssa.Store)
			if !ok {
				return 0
			}
			fa, ok := st.Addr.(*ssa.FieldAddr)
			if !ok {
				return 0
			}
			if tn, f := fieldAddrName(fa); tn != "net/http.Request" || f != field {
				return 0
			}
			if tn, f, base, ok := FieldOf(st.Val); ok && tn == "net/http.Request" && f == field && SameVar(base, req) {
				found = true
				return C1
			}
			return 0
		}}) {
			if ex.Kind != "return" || ex.Set&C0 == 0 {
				continue
			}
			r := ex.Instr.(*ssa.Return)
			for _, v := range ReturnValues(r, -1) {
				if IsNilConst(v) {
					good, where = false, ex.Desc(p)
				}
			}
		}
		c.Check(good && found, rule, "redirect:carries-"+field, p.Pos(fn.Pos()), "every successful return has copied "+field+" from the original request",
			"newRequestForRetry can return a request without the original request's "+field+" ("+where+"): the redirected API call arrives without its JSON body")
	}
}

// trackMapKeys (C19): `track` merges new lines into the existing file through a map keyed by the *unescaped*
// pattern: an existing line is looked up under the unescaped form of its first field and, once replaced in
// place, removed from the map under that same key. A delete under a different key is a no-op, and the line is
// written a second time at the end of the file, where it overrides more specific lines that followed the original.
func trackMapKeys(c *Ctx, rule string) {
	p := c.P
	root := p.Fn("commands", "trackCommand")
	if root == nil {
		c.Missing(rule, "commands.trackCommand", "not found")
		return
	}
	n := 0
	for _, fn := range WithAnon(root) {
		for _, b := range fn.Blocks {
			for _, in := range b.Instrs {
				cc, ok := in.(*ssa.Call)
				if !ok {
					continue
				}
				bi, isB := cc.Call.Value.(*ssa.Builtin)
				if !isB || bi.Name() != "delete" {
					continue
				}
				m, k := cc.Call.Args[0], cc.Call.Args[1]
				// the lookup whose ok-edge leads here
				var lk *ssa.Lookup
				for _, bb := range fn.Blocks {
					for _, i2 := range bb.Instrs {
						if l, ok := i2.(*ssa.Lookup); ok && l.CommaOk && SameVar(l.X, m) && bb.Dominates(b) {
							lk = l
						}
					}
				}
				if lk == nil {
					continue
				}
				n++
				same := SameValue(lk.Index, k) || SameVar(lk.Index, k)
				c.Check(same, rule, "track:replaced-line-removed-under-its-lookup-key#"+itoa(n), p.InstrPos(cc), "the entry is deleted under the key it was found under",
					"an existing .gitattributes line is looked up under one key and deleted under another: for patterns whose file spelling is escaped (spaces, #) the delete does nothing, the line is written again at the end of the file and overrides later, more specific lines for other paths")
			}
		}
	}
	c.AtLeast(rule, "guarded deletes in trackCommand", n, 1)
}

// blocklistLooksAtBaseName (C19): the names `track` refuses (.gitattributes, .gitignore, .gitmodules, .lfsconfig
// — prefixes ".git" and ".lfs") are file names; the test runs on the base name of the path. Applied to every
// path component it also refuses ordinary files below directories such as .github/, and the whole pattern is
// skipped.
func blocklistLooksAtBaseName(c *Ctx, rule string) {
	p := c.P
	fn := p.Fn("commands", "blocklistItem")
	if fn == nil || len(fn.Params) == 0 {
		c.Missing(rule, "commands.blocklistItem", "not found")
		return
	}
	n := 0
	isBase := func(v ssa.Value) bool {
		bc, _, ok := CallResult(v)
		if !ok || CalleeName(bc.Common()) != "path/filepath.Base" {
			return false
		}
		for _, q := range fn.Params {
			if short(q.Type().String()) == "string" && SameVar(bc.Call.Args[0], q) {
				return true
			}
		}
		return false
	}
	for _, ci := range AllCalls(WithAnon(fn), "strings.HasPrefix", "strings.EqualFold", "strings.Contains", "strings.HasSuffix") {
		a := CallArgs(ci.Common())
		n++
		leaves := p.LeavesNoFields(a[0], func(v ssa.Value) FlowAct {
			if isBase(v) {
				return Stop
			}
			return Descend
		})
		good := len(leaves) > 0
		for _, l := range leaves {
			if !isBase(l) {
				good = false
			}
		}
		c.Check(good, rule, "blocklist:tested-on-base-name", p.InstrPos(ci), "the forbidden-name test runs on filepath.Base(name)",
			"the forbidden-name test of `track` does not run on the base name of the path: files below ordinary directories whose name starts like a forbidden file (.github/, .gitlab/) make track refuse the whole pattern")
	}
	c.AtLeast(rule, "name tests in blocklistItem", n, 1)
}

// onlyFrom: following local cells and φ-nodes back from v, every definition that is not a nil constant satisfies
// pred, and there is at least one (a value threaded through result variables of an expanded helper).
func onlyFrom(v ssa.Value, pred func(ssa.Value) bool) bool {
	seen := map[ssa.Value]bool{}
	n, bad := 0, false
	var walk func(v ssa.Value, d int)
	walk = func(v ssa.Value, d int) {
		v = Unwrap(v)
		if seen[v] || d > 8 {
			return
		}
		seen[v] = true
		if IsNilConst(v) {
			return
		}
		if pred(v) {
			n++
			return
		}
		if ph, ok := v.(*ssa.Phi); ok {
			for _, e := range ph.Edges {
				walk(e, d+1)
			}
			return
		}
		if defs := ReachingDefs(v); len(defs) > 0 {
			for _, x := range defs {
				walk(x, d+1)
			}
			return
		}
		bad = true
	}
	walk(v, 0)
	return n > 0 && !bad
}

// retryLaterSurvivesAdapters (C15): lfshttp's handleResponse turns "429 + Retry-After" into a retriable-later
// error, and wrapping that in errors.NewRetriableError hides it from the queue (IsRetriableLaterError does not look
// through the wrapper), which then repeats the attempt on the ordinary back-off. So, in every function a transfer
// adapter's DoTransfer can reach, an error that comes out of an HTTP exchange is passed to errors.NewRetriableError
// only on paths where the retry-later case is excluded: no response at all, status other than 429, the
// retry-later constructor returned nil (no usable Retry-After), or IsRetriableLaterError said no.
func retryLaterSurvivesAdapters(c *Ctx, rule string) {
	p := c.P
	hr := p.Fn("lfshttp", "(*Client).handleResponse")
	if hr == nil {
		c.Missing(rule, "(*lfshttp.Client).handleResponse", "not found")
		return
	}
	var roots []*ssa.Function
	for _, fn := range p.RepoFuncs(func(path string) bool { return strings.HasSuffix(path, "/tq") }) {
		if fn.Name() == "DoTransfer" && fn.Signature.Recv() != nil {
			roots = append(roots, fn)
		}
	}
	reach := staticReach(p, roots...)
	httpMemo := map[*ssa.Function]bool{}
	isHTTP := func(fn *ssa.Function) bool {
		if fn == nil {
			return false
		}
		if v, ok := httpMemo[fn]; ok {
			return v
		}
		v := staticReach(p, fn)[hr]
		httpMemo[fn] = v
		return v
	}
	fromHTTP := func(e ssa.Value) bool {
		for _, l := range append(p.LeavesUp(e, nil), e) {
			if cc, _, ok := CallResult(l); ok && isErrorType(l.Type()) {
				if isHTTP(cc.Call.StaticCallee()) {
					return true
				}
			}
		}
		return false
	}
	n := 0
	var fns []*ssa.Function
	for fn := range reach {
		if fn.Pkg != nil && strings.HasSuffix(fn.Pkg.Pkg.Path(), "/tq") {
			fns = append(fns, fn)
		}
	}
	sort.Slice(fns, func(i, j int) bool { return FnName(fns[i]) < FnName(fns[j]) })
	for _, fn := range fns {
		sites := CallsIn(fn, "errors.NewRetriableError")
		if len(sites) == 0 {
			continue
		}
		pass := PassEdges(fn, func(cond ssa.Value) (bool, bool) {
			if op, x, y, ok := BinCmp(cond); ok {
				// res == nil
				if (op == token.EQL || op == token.NEQ) && (IsNilConst(y) || IsNilConst(x)) {
					o := x
					if IsNilConst(x) {
						o = y
					}
					if short(o.Type().String()) == "*net/http.Response" {
						return op == token.EQL, true
					}
					if cc, _, isRes := CallResult(o); isRes && CalleeName(cc.Common()) == "errors.NewRetriableLaterError" {
						return op == token.EQL, true
					}
				}
				// res.StatusCode == 429
				if k, isK := ConstInt(y); isK && k == 429 && (op == token.EQL || op == token.NEQ) {
					if _, f, _, isF := FieldOf(x); isF && f == "StatusCode" {
						return op == token.NEQ, true
					}
				}
			}
			if ex, ok := cond.(*ssa.Extract); ok && ex.Index == 1 {
				if cc, ok := ex.Tuple.(*ssa.Call); ok && CalleeName(cc.Common()) == "errors.IsRetriableLaterError" {
					return false, true
				}
			}
			return false, false
		})
		for i, ci := range sites {
			e := ci.Common().Args[0]
			if !fromHTTP(e) {
				continue
			}
			n++
			ok, where := Guarded(fn.Blocks[0], ci, pass, noReturnCommands)
			c.Check(ok, rule, "retry-later-survives:"+FnName(fn)+"#"+itoa(i), p.InstrPos(ci), "the error of an HTTP exchange is made plainly retriable only where it cannot be a retry-later error",
				"the error of an HTTP exchange is wrapped as plainly retriable without excluding the 429/Retry-After case ("+where+"): the queue repeats the transfer on its ordinary back-off, before the time the server indicated")
		}
	}
	c.AtLeast(rule, "plain-retriable wraps of HTTP errors in adapters", n, 4)
}

// zeroDelayHonoured (C15): lfs.transfer.maxretrydelay=0 is a documented setting ("use zero to disable delays
// between retries") and part of the property's configurations; the waits the queue computes are clamped to the
// manifest's value, so the configured 0 has to arrive there: the configuration value is accepted under a test that
// 0 passes, and no later "fall back to the default" assignment runs for a value of 0.
func zeroDelayHonoured(c *Ctx, rule string) {
	p := c.P
	fn := p.Fn("tq", "newConcreteManifest")
	if fn == nil {
		c.Missing(rule, "tq.newConcreteManifest", "not found")
		return
	}
	isDelayField := func(addr ssa.Value) bool {
		fa, ok := addr.(*ssa.FieldAddr)
		if !ok {
			return false
		}
		tn, f := fieldAddrName(fa)
		return tn == "tq.concreteManifest" && f == "maxRetryDelay"
	}
	var cfgStore *ssa.Store
	var others []*ssa.Store
	for _, b := range fn.Blocks {
		for _, in := range b.Instrs {
			st, ok := in.(*ssa.Store)
			if !ok || !isDelayField(st.Addr) {
				continue
			}
			fromCfg := false
			if cc, _, ok := CallResult(st.Val); ok && strings.HasSuffix(CalleeName(cc.Common()), ".Int") {
				if s, ok := ConstString(CallArgs(cc.Common())[1]); ok && strings.EqualFold(s, "lfs.transfer.maxretrydelay") {
					fromCfg = true
				}
			}
			if fromCfg {
				cfgStore = st
			} else {
				others = append(others, st)
			}
		}
	}
	if cfgStore == nil {
		c.Missing(rule, "newConcreteManifest: maxRetryDelay = <lfs.transfer.maxretrydelay>", "not found")
		return
	}
	// accepted under a test that 0 passes
	okAccept := true
	for _, dc := range decidingConds(fn, cfgStore.Block()) {
		op, x, y, ok := BinCmp(dc.Cond)
		if !ok || x != cfgStore.Val {
			continue
		}
		k, isK := ConstInt(y)
		if !isK {
			continue
		}
		holdsForZero := false
		switch op {
		case token.GTR:
			holdsForZero = 0 > k
		case token.GEQ:
			holdsForZero = 0 >= k
		case token.NEQ:
			holdsForZero = 0 != k
		case token.LSS:
			holdsForZero = 0 < k
		case token.LEQ:
			holdsForZero = 0 <= k
		case token.EQL:
			holdsForZero = 0 == k
		}
		if holdsForZero != dc.Want {
			okAccept = false
		}
	}
	c.Check(okAccept, rule, "max-retry-delay:zero-is-accepted", p.InstrPos(cfgStore), "the configured value is taken under a test that 0 passes", "a configured lfs.transfer.maxretrydelay of 0 is not taken over into the manifest")
	// no fall-back to the default for 0
	pass := PassEdges(fn, func(cond ssa.Value) (bool, bool) {
		op, x, y, ok := BinCmp(cond)
		if !ok || !IsLoadOfField(x, "tq.concreteManifest", "maxRetryDelay") {
			return false, false
		}
		k, isK := ConstInt(y)
		if !isK {
			return false, false
		}
		switch {
		case op == token.LSS && k <= 0, op == token.LEQ && k < 0:
			return true, true
		case op == token.GEQ && k <= 0, op == token.GTR && k < 0:
			return false, true
		}
		return false, false
	})
	good, where := true, ""
	for _, st := range others {
		if !after(cfgStore, st) {
			continue
		}
		if ok, w := Guarded(cfgStore.Block(), st, pass, nil); !ok {
			good, where = false, p.InstrPos(st)+" via "+w
		}
	}
	c.Check(good, rule, "max-retry-delay:zero-is-kept", p.InstrPos(cfgStore), "after the configuration was read the default replaces only a negative value",
		"the manifest replaces a configured maximum retry delay of 0 by the default ("+where+"): with lfs.transfer.maxretrydelay=0 (documented: no delays between retries) retries still back off up to ten seconds, beyond the configured maximum")
}

// ---- round 5 ------------------------------------------------------------------------------------------------

// lfsStorageUnderCommonDir (C01): all worktrees of a repository share one object store. fs.New resolves the
// git directory through `commondir` (resolveGitStorageDir) and a relative lfs directory is joined to THAT
// directory — joined to the raw git dir, a linked worktree gets a private store, and what clean stored there is
// not found when the pointer is smudged anywhere else.
func lfsStorageUnderCommonDir(c *Ctx, rule string) {
	p := c.P
	fn := p.Fn("fs", "New")
	if fn == nil {
		c.Missing(rule, "fs.New", "not found")
		return
	}
	n := 0
	for _, b := range fn.Blocks {
		for _, in := range b.Instrs {
			st, ok := in.(*ssa.Store)
			if !ok {
				continue
			}
			fa, ok := st.Addr.(*ssa.FieldAddr)
			if !ok {
				continue
			}
			if tn, f := fieldAddrName(fa); tn != "fs.Filesystem" || f != "LFSStorageDir" {
				continue
			}
			jc, _, isCall := CallResult(st.Val)
			if !isCall || CalleeName(jc.Common()) != "path/filepath.Join" {
				continue // the absolute directory given by the caller
			}
			n++
			els := variadicOrdered(jc.Call.Args[0])
			good := false
			if len(els) > 0 && els[0] != nil {
				if IsLoadOfField(els[0], "fs.Filesystem", "GitStorageDir") {
					good = true
				}
				if cc, _, ok := CallResult(els[0]); ok && CalleeName(cc.Common()) == "fs.resolveGitStorageDir" {
					good = true
				}
			}
			c.Check(good, rule, "lfs-storage:relative-to-common-git-dir", p.InstrPos(st), "a relative lfs directory is joined to the resolved (common) git directory",
				"the LFS storage directory is not derived from the git directory resolved through `commondir`: in a linked worktree objects are stored in (and looked up from) a private store, so a pointer created there cannot be smudged from the repository's other worktrees")
		}
	}
	c.AtLeast(rule, "relative LFS storage directories computed in fs.New", n, 1)
}

// filterStatusReportsCommandError (C01, C14): in the long-running filter the status line that follows the
// content is the only way Git learns that a smudge or clean failed after output started. After the content was
// flushed successfully the status is computed from the command's own error; the flush error only takes its place
// when flushing failed.
func filterStatusReportsCommandError(c *Ctx, rule string) {
	p := c.P
	fn := p.Fn("commands", "filterCommand")
	if fn == nil {
		c.Missing(rule, "commands.filterCommand", "not found")
		return
	}
	n := 0
	for _, ci := range CallsIn(fn, "(*github.com/git-lfs/pktline.PktlineWriter).Flush") {
		fl, ok := ci.(*ssa.Call)
		if !ok {
			continue
		}
		n++
		var nilSucc *ssa.BasicBlock
		for _, b := range fn.Blocks {
			ifi, ok := lastInstr(b).(*ssa.If)
			if !ok {
				continue
			}
			if e, trueMeansNil, ok := IsErrNilCheck(ifi.Cond); ok && ResultOfCall(e, fl, 0) {
				if trueMeansNil {
					nilSucc = b.Succs[0]
				} else {
					nilSucc = b.Succs[1]
				}
			}
		}
		good := false
		if nilSucc != nil {
			for _, sc := range CallsIn(fn, "commands.statusFromErr") {
				arg := sc.Common().Args[0]
				if ResultOfCall(arg, fl, 0) {
					continue
				}
				if nilSucc.Dominates(sc.Block()) {
					good = true
				}
			}
		}
		c.Check(good, rule, "filter-process:status-after-flush-is-the-command's", p.InstrPos(fl), "after a successful flush the status comes from the command's own error",
			"after the content was flushed the status sent to Git does not come from the clean/smudge command's own error: a smudge that failed after output started is reported as success and Git writes a truncated or empty file")
	}
	c.AtLeast(rule, "flushes in filterCommand", n, 1)
}

// hardLinksOnlyInLinkOrCopy (C02, C09): a file that is being written or has been verified must have exactly
// one name until it is published by rename. Hard links give a second name to the same bytes: a later write
// through the other name changes the published object in place, before any hash is checked. The only function
// that may create links is lfs.LinkOrCopy (reference-store sharing of complete, already verified objects).
func hardLinksOnlyInLinkOrCopy(c *Ctx, rule string) {
	p := c.P
	n := 0
	for _, fn := range p.RepoFuncs(productPkg) {
		for _, ci := range CallsIn(fn, "os.Link", "os.Symlink", "syscall.Link", "golang.org/x/sys/unix.Link") {
			n++
			root := fn
			for root.Parent() != nil {
				root = root.Parent()
			}
			c.Check(FnName(root) == "lfs.LinkOrCopy", rule, "link-site:"+FnName(root), p.InstrPos(ci), "links are created only by lfs.LinkOrCopy",
				FnName(root)+" creates a hard or symbolic link: a temporary download or a stored object gets a second name, and a write through one name (a later resume truncating the partial file) alters the verified object under the other")
		}
	}
	c.AtLeast(rule, "link creation sites", n, 1)
}

// exactRefNameMatch (C03): a remote-tracking ref is used as an "already on the server" boundary of the push scan
// only if a ref of exactly that name still exists on the remote. The names put into the set and looked up in it
// are the refs' Name fields as they are — no case folding or trimming (ref names are case-sensitive; a stale
// `Topic` must not be vouched for by a live `topic`).
func exactRefNameMatch(c *Ctx, rule string) {
	p := c.P
	fn := p.Fn("lfs", "calcSkippedRefs")
	if fn == nil {
		c.Missing(rule, "lfs.calcSkippedRefs", "not found")
		return
	}
	n := 0
	for _, f := range WithAnon(fn) {
		for _, ci := range CallsIn(f, "(tools.StringSet).Add", "(tools.StringSet).Contains", "slices.Contains") {
			a := CallArgs(ci.Common())
			n++
			v := a[len(a)-1]
			if vs := variadicOrdered(v); len(vs) == 1 && vs[0] != nil {
				v = vs[0]
			}
			c.Check(IsLoadOfField(v, "git.Ref", "Name"), rule, "skipped-refs:exact-name#"+itoa(n), p.InstrPos(ci), "the set holds and is asked for ref names as they are",
				"calcSkippedRefs compares remote ref names after transforming them ("+CalleeNameOfValue(v)+"): a remote-tracking ref whose branch was deleted on the server is still trusted as already-pushed history, and the objects only it reaches are never uploaded")
		}
		for _, b := range f.Blocks {
			for _, in := range b.Instrs {
				if bo, ok := in.(*ssa.BinOp); ok && (bo.Op == token.EQL || bo.Op == token.NEQ) && short(bo.X.Type().String()) == "string" {
					if IsLoadOfField(bo.X, "git.Ref", "Name") != IsLoadOfField(bo.Y, "git.Ref", "Name") {
						if _, isC := ConstString(bo.X); isC {
							continue
						}
						if _, isC := ConstString(bo.Y); isC {
							continue
						}
						n++
						c.Bad(rule, "skipped-refs:exact-name#"+itoa(n), p.InstrPos(bo), "calcSkippedRefs compares a ref name with a transformed name")
					}
				}
			}
		}
	}
	c.AtLeast(rule, "ref-name set operations in calcSkippedRefs", n, 2)
}

// CalleeNameOfValue names the call a value results from (for messages).
func CalleeNameOfValue(v ssa.Value) string {
	if cc, _, ok := CallResult(v); ok {
		return CalleeName(cc.Common())
	}
	return "not the Name field"
}

// delayedPointersSurviveRounds (C04, C14): the filter process remembers the pointer of every blob it delayed
// until Git asks for that blob's content; a failed download is announced as available as well, and the retry
// happens when Git then sends the content-less smudge request. The map of remembered pointers is therefore
// created once, before the request loop, and entries leave it only one by one (delete) — never by replacing or
// clearing the map between rounds, which turns the next content-less request into "smudge of an empty pointer".
func delayedPointersSurviveRounds(c *Ctx, rule string) {
	p := c.P
	fn := p.Fn("commands", "filterCommand")
	if fn == nil {
		c.Missing(rule, "commands.filterCommand", "not found")
		return
	}
	var makes []*ssa.MakeMap
	for _, b := range fn.Blocks {
		for _, in := range b.Instrs {
			if mm, ok := in.(*ssa.MakeMap); ok && short(mm.Type().String()) == "map[string]*lfs.Pointer" {
				makes = append(makes, mm)
			}
		}
	}
	loops := Loops(fn)
	good, why := len(makes) == 1, ""
	if len(makes) != 1 {
		why = itoa(len(makes)) + " maps of delayed pointers are created"
	} else if LoopOf(loops, makes[0].Block()) != nil {
		good, why = false, "the map is created inside the request loop"
	}
	for _, b := range fn.Blocks {
		for _, in := range b.Instrs {
			if cc, ok := in.(*ssa.Call); ok {
				if bi, isB := cc.Call.Value.(*ssa.Builtin); isB && bi.Name() == "clear" && short(cc.Call.Args[0].Type().String()) == "map[string]*lfs.Pointer" {
					good, why = false, "the map is cleared"
				}
			}
		}
	}
	pos := "-"
	if len(makes) > 0 {
		pos = p.InstrPos(makes[0])
	}
	c.Check(good, rule, "filter-process:delayed-pointers-kept-across-rounds", pos, "one map of delayed pointers, created before the request loop, entries removed singly",
		"the pointers remembered for delayed blobs do not survive from one list_available_blobs round to the next ("+why+"): a blob whose download failed is announced, Git asks for it, and the filter smudges an empty pointer — an empty file is written with status success")
}

// treeListingsCoverWholeTree (C05, C13, C04): `git ls-tree` lists the current directory's part of the tree unless
// told otherwise, and git-lfs does not change to the repository root. LsTree must pass --full-tree (not merely
// --full-name, which only changes how paths are printed) and -r, or a command started in a sub-directory sees
// only the pointers below it: prune deletes the rest of the checkout's objects, fsck --pointers finds no
// .gitattributes.
func treeListingsCoverWholeTree(c *Ctx, rule string) {
	p := c.P
	fn := p.Fn("git", "LsTree")
	if fn == nil {
		c.Missing(rule, "git.LsTree", "not found")
		return
	}
	n := 0
	for _, ci := range CallsIn(fn, gitRunners...) {
		a := CallArgs(ci.Common())
		vecs, ok := ArgVectors(a[len(a)-1])
		if !ok || len(vecs) == 0 {
			c.Undecided(rule, "git.LsTree:argv", p.InstrPos(ci), "the argument vector could not be enumerated")
			continue
		}
		n++
		good := true
		for _, vec := range vecs {
			has := map[string]bool{}
			for _, e := range vec {
				if s, isC := ConstString(e.V); isC && !e.Spread {
					has[s] = true
				}
			}
			if !has["ls-tree"] || !has["--full-tree"] || !has["-r"] {
				good = false
			}
		}
		c.Check(good, rule, "git.LsTree:whole-tree", p.InstrPos(ci), "ls-tree runs with -r and --full-tree", "git.LsTree does not ask for the whole tree (-r and --full-tree): started from a sub-directory, the scan of a commit's tree covers only that directory")
	}
	c.AtLeast(rule, "git invocations in git.LsTree", n, 1)
}

// checkoutRetentionOnlyForce (C05): what a checkout needs — the current HEAD and the HEAD of every other
// worktree — is retained unless --force was given. Among the switches of the prune configuration only
// PruneForce may stand in front of those scans; --recent (PruneRecent) narrows the *recent* window only.
func checkoutRetentionOnlyForce(c *Ctx, rule string) {
	p := c.P
	n := 0
	for _, name := range []string{"pruneTaskGetRetainedWorktree", "pruneTaskGetRetainedCurrentAndRecentRefs"} {
		fn := p.Fn("commands", name)
		if fn == nil {
			c.Missing(rule, "commands."+name, "not found")
			continue
		}
		for _, b := range fn.Blocks {
			for _, in := range b.Instrs {
				g, ok := in.(*ssa.Go)
				if !ok || CalleeName(&g.Call) != "commands.pruneTaskGetRetainedAtRef" {
					continue
				}
				// is the ref the current checkout's or a worktree's HEAD?
				current := false
				for _, cn := range rootCallees(g.Call.Args[1], 0) {
					if nameIn(cn, []string{"git.CurrentRef", "git.GetAllWorktrees"}) {
						current = true
					}
				}
				if !current {
					continue
				}
				n++
				good, why := true, ""
				for _, dc := range decidingConds(fn, b) {
					tn, f, _, ok := FieldOf(dc.Cond)
					if !ok || tn != "lfs.FetchPruneConfig" {
						continue
					}
					if f != "PruneForce" {
						good, why = false, f
					}
				}
				c.Check(good, rule, "checkout-retention-only-force:"+name+"#"+itoa(n), p.InstrPos(g), "the scan of a checked-out commit depends on no switch but PruneForce",
					"the scan that retains what a checked-out commit needs is switched off by "+why+" (not only by --force): `prune --recent` deletes objects another worktree has checked out")
			}
		}
	}
	c.AtLeast(rule, "scans of checked-out commits", n, 2)
}

// rootCallees follows field loads, element loads, range variables and φ-nodes back from v and names the calls whose
// results v is a part of.
func rootCallees(v ssa.Value, d int) []string {
	if d > 10 || v == nil {
		return nil
	}
	v = Unwrap(v)
	if cc, _, ok := CallResult(v); ok {
		return []string{CalleeName(cc.Common())}
	}
	switch x := v.(type) {
	case *ssa.UnOp:
		if x.Op == token.MUL {
			switch a := x.X.(type) {
			case *ssa.FieldAddr:
				return rootCallees(a.X, d+1)
			case *ssa.IndexAddr:
				return rootCallees(a.X, d+1)
			case *ssa.Alloc:
				var out []string
				for _, df := range ReachingDefs(x) {
					out = append(out, rootCallees(df, d+1)...)
				}
				return out
			}
			return rootCallees(x.X, d+1)
		}
	case *ssa.Field:
		return rootCallees(x.X, d+1)
	case *ssa.Index:
		return rootCallees(x.X, d+1)
	case *ssa.FieldAddr:
		return rootCallees(x.X, d+1)
	case *ssa.IndexAddr:
		return rootCallees(x.X, d+1)
	case *ssa.Extract:
		return rootCallees(x.Tuple, d+1)
	case *ssa.Next:
		return rootCallees(x.Iter, d+1)
	case *ssa.Range:
		return rootCallees(x.X, d+1)
	case *ssa.Phi:
		var out []string
		for _, e := range x.Edges {
			if e != ssa.Value(x) {
				out = append(out, rootCallees(e, d+1)...)
			}
		}
		return out
	}
	return nil
}

// collectorLeavesOnlyWhenNothingIsOwed (C06): the batch collector is the only goroutine that can hand a deferred
// object (a retry whose ready time lies in the future sits in `pending`, not in `next`) to an adapter again. It
// may leave its loop only after aborting the wait group (fatal error) or when the pending batch it just computed
// is empty — otherwise an object's wait-group slot is never released and Wait() blocks forever.
func collectorLeavesOnlyWhenNothingIsOwed(c *Ctx, rule string) {
	p := c.P
	fn := p.Fn("tq", "(*TransferQueue).collectBatches")
	if fn == nil {
		c.Missing(rule, "(*tq.TransferQueue).collectBatches", "not found")
		return
	}
	pendingEmpty := PassEdges(fn, func(cond ssa.Value) (bool, bool) {
		op, x, y, ok := BinCmp(cond)
		if !ok {
			return false, false
		}
		k, isK := ConstInt(y)
		lc, isCall := x.(*ssa.Call)
		if !isK || k != 0 || !isCall {
			return false, false
		}
		if bi, isB := lc.Call.Value.(*ssa.Builtin); !isB || bi.Name() != "len" {
			return false, false
		}
		cc, idx, isRes := CallResult(lc.Call.Args[0])
		if !isRes || idx != 1 || CalleeName(cc.Common()) != "(tq.batch).Concat" {
			return false, false
		}
		switch op {
		case token.EQL, token.LEQ:
			return true, true
		case token.NEQ, token.GTR:
			return false, true
		}
		return false, false
	})
	good, where := true, ""
	nRet := 0
	for _, ex := range RunCount(CountQuery{Fn: fn, Cut: EdgeSet(pendingEmpty), NoRet: noReturnCommands, Event: func(in ssa.Instruction) CSet {
		if sc := AsCall(in); sc != nil && strings.HasSuffix(CalleeName(sc), ".Abort") {
			return C1
		}
		return 0
	}}) {
		if ex.Kind != "return" {
			continue
		}
		nRet++
		if ex.Set&C0 != 0 {
			good, where = false, ex.Desc(p)
		}
	}
	c.Check(good && nonVacuous(pendingEmpty), rule, "collectBatches:leaves-only-with-empty-pending", p.Pos(fn.Pos()), "the collector returns only after Abort or when the pending batch is empty",
		"the batch collector can leave its loop while deferred objects are still pending ("+where+"): a retry scheduled for later is never handed to an adapter, its wait-group slot is never released, and Wait() does not return")
}

// decodeOnlyThroughDecodeFrom (C07): the canonical flag is computed in one place, DecodeFrom, by comparing the
// input with the decoded pointer's encoding. Every decoding entry point has to go through it: lfs.decodeKV — which
// leaves the flag at its default `true` — is called by nobody else.
func decodeOnlyThroughDecodeFrom(c *Ctx, rule string) {
	p := c.P
	n := 0
	for _, fn := range p.RepoFuncs(productPkg) {
		for _, ci := range CallsIn(fn, "lfs.decodeKV") {
			n++
			root := fn
			for root.Parent() != nil {
				root = root.Parent()
			}
			c.Check(FnName(root) == "lfs.DecodeFrom", rule, "decodeKV-caller:"+FnName(root), p.InstrPos(ci), "decodeKV is called from DecodeFrom only",
				FnName(root)+" decodes pointer text without going through DecodeFrom: the canonical flag keeps its default, so any input that parses is reported as canonical")
		}
	}
	c.AtLeast(rule, "callers of lfs.decodeKV", n, 1)
}

// smudgeDecidesFirst (C08): what smudge does with its input is decided by decoding it; nothing that can fail
// (progress log, configuration, transfer set-up) may return before that, or bytes that are not a pointer are
// dropped instead of passed through.
func smudgeDecidesFirst(c *Ctx, rule string) {
	p := c.P
	for _, name := range []string{"smudge", "delayedSmudge"} {
		fn := p.Fn("commands", name)
		if fn == nil {
			c.Missing(rule, "commands."+name, "not found")
			continue
		}
		var dec ssa.Instruction
		for _, ci := range CallsIn(fn, "lfs.DecodeFrom") {
			dec = ci
		}
		if dec == nil {
			c.Missing(rule, "DecodeFrom call in commands."+name, "not found")
			continue
		}
		good, where := true, ""
		for _, ex := range RunCount(CountQuery{Fn: fn, NoRet: noReturnCommands, Event: func(in ssa.Instruction) CSet {
			if in == dec {
				return C1
			}
			return 0
		}}) {
			if ex.Kind == "return" && ex.Set&C0 != 0 {
				good, where = false, ex.Desc(p)
			}
		}
		c.Check(good, rule, name+":no-return-before-decode", p.InstrPos(dec), "every return comes after the input was decoded",
			name+" can return before looking at its input ("+where+"): input that is not a pointer is not passed through when that early step fails")
	}
}

// extensionCommandsOnlyFromTrustedConfig (C11): lfs.extension.<name>.clean/.smudge are commands git-lfs runs on
// every clean and smudge. readGitConfig keeps them in a side table (the Extension records), which the generic
// unsafe-key filter further down does not protect: the assignments of the command fields themselves must be
// unreachable for a restricted source (.lfsconfig), i.e. lie behind the `OnlySafeKeys is false` edge.
func extensionCommandsOnlyFromTrustedConfig(c *Ctx, rule string) {
	p := c.P
	fn := p.Fn("config", "readGitConfig")
	if fn == nil {
		c.Missing(rule, "config.readGitConfig", "not found")
		return
	}
	pass := PassEdges(fn, func(cond ssa.Value) (bool, bool) {
		if IsLoadOfField(cond, "git.ConfigurationSource", "OnlySafeKeys") {
			return false, true
		}
		return false, false
	})
	n := 0
	for _, b := range fn.Blocks {
		for _, in := range b.Instrs {
			st, ok := in.(*ssa.Store)
			if !ok {
				continue
			}
			fa, ok := st.Addr.(*ssa.FieldAddr)
			if !ok {
				continue
			}
			tn, f := fieldAddrName(fa)
			if tn != "config.Extension" || (f != "Clean" && f != "Smudge") {
				continue
			}
			n++
			g, where := Guarded(fn.Blocks[0], st, pass, noReturnCommands)
			c.Check(g && nonVacuous(pass), rule, "extension-command-needs-trusted-source:"+f, p.InstrPos(st), "the command of a filter extension is recorded only for an unrestricted source",
				"readGitConfig can record the "+strings.ToLower(f)+" command of a filter extension for a restricted source ("+where+"): a repository's .lfsconfig then names a program that git-lfs runs on the next clean or smudge")
		}
	}
	c.AtLeast(rule, "assignments of extension commands in readGitConfig", n, 2)
}

// noUserinfoOnRedirect (C10): net/http turns the userinfo of a request URL into a Basic Authorization header when
// the request has none. Copying the original URL's User onto the URL of a redirected request therefore carries
// the credentials to whatever host the server named, although the Authorization header itself is dropped. In
// package lfshttp nothing assigns the User part of a URL.
func noUserinfoOnRedirect(c *Ctx, rule string) {
	p := c.P
	n := 0
	for _, fn := range p.RepoFuncs(func(path string) bool { return strings.HasSuffix(path, "/lfshttp") }) {
		n++
		for _, b := range fn.Blocks {
			for _, in := range b.Instrs {
				st, ok := in.(*ssa.Store)
				if !ok {
					continue
				}
				fa, ok := st.Addr.(*ssa.FieldAddr)
				if !ok {
					continue
				}
				if tn, f := fieldAddrName(fa); tn != "net/url.URL" || f != "User" {
					continue
				}
				if IsNilConst(st.Val) {
					continue
				}
				c.Bad(rule, "url-userinfo-assigned:"+FnName(fn), p.InstrPos(st), FnName(fn)+" assigns the userinfo of a request URL: net/http derives a Basic Authorization header from it, so credentials embedded in the configured URL follow a redirect to another host or port")
			}
		}
	}
	c.Check(n > 0, rule, "url-userinfo-never-assigned", "-", "no function of package lfshttp assigns URL.User", "package lfshttp not found")
}

// noFetchIncludeIn (C12, C13, C05): lfs.fetchinclude narrows what fetch, pull, clone and the smudge filter
// download. It must not narrow what migrate rewrites, what fsck examines or what prune retains: the functions
// named (and what they reach statically) neither call Configuration.FetchIncludePaths nor build a path filter
// with useFetchOptions other than the constant false.
func noFetchIncludeIn(c *Ctx, rule, what string, roots ...string) {
	p := c.P
	var rfns []*ssa.Function
	for _, r := range roots {
		fn := p.Fn("commands", r)
		if fn == nil {
			c.Missing(rule, "commands."+r, "not found")
			continue
		}
		rfns = append(rfns, fn)
	}
	n := 0
	var fns []*ssa.Function
	for fn := range staticReach(p, rfns...) {
		fns = append(fns, fn)
	}
	sort.Slice(fns, func(i, j int) bool { return FnName(fns[i]) < FnName(fns[j]) })
	for _, fn := range fns {
		n++
		if nameIn(FnName(fn), []string{"commands.determineIncludeExcludePaths", "commands.buildFilepathFilterWithPatternType", "commands.buildFilepathFilter"}) {
			continue // the shared helpers: what matters is the flag their callers pass
		}
		if FnName(fn) == "lfs.Environ" {
			continue // prints the setting (git lfs env, panic logs); decides nothing
		}
		for _, ci := range CallsIn(fn, "(*config.Configuration).FetchIncludePaths") {
			c.Bad(rule, "fetchinclude-consulted:"+FnName(fn), p.InstrPos(ci), FnName(fn)+" reads lfs.fetchinclude, but "+what)
		}
		for _, ci := range CallsIn(fn, "commands.buildFilepathFilter", "commands.buildFilepathFilterWithPatternType", "commands.determineIncludeExcludePaths") {
			a := CallArgs(ci.Common())
			var flag ssa.Value
			for _, v := range a {
				if short(v.Type().String()) == "bool" {
					flag = v
				}
			}
			bv, isC := ConstBool(flag)
			c.Check(flag != nil && isC && !bv, rule, "no-fetch-options:"+FnName(fn), p.InstrPos(ci), "the path filter is built from the command line only (useFetchOptions is false)",
				FnName(fn)+" builds its path filter with the fetch configuration switched on, but "+what)
		}
	}
	c.AtLeast(rule, "functions examined for use of lfs.fetchinclude", n, 1)
}

// fixupAttributesPerCommit (C12): with --fixup the paths to convert are those the commit's own .gitattributes
// files (root and nested) mark as LFS; the attribute tree is rebuilt from every commit's root tree. In the
// tree-pre callback of migrate import, a return without error for the root path of a fixup run comes only after
// gitattr.New ran on the tree handed in — reusing an earlier commit's attributes converts the wrong paths.
func fixupAttributesPerCommit(c *Ctx, rule string) {
	p := c.P
	root := p.Fn("commands", "migrateImportCommand")
	if root == nil {
		c.Missing(rule, "commands.migrateImportCommand", "not found")
		return
	}
	n := 0
	for _, fn := range WithAnon(root) {
		calls := CallsIn(fn, "git/gitattr.New")
		if len(calls) == 0 || fn == root {
			continue
		}
		var tree *ssa.Parameter
		for _, q := range fn.Params {
			if short(q.Type().String()) == "*gitobj.Tree" || strings.HasSuffix(q.Type().String(), "gitobj/v2.Tree") {
				tree = q
			}
		}
		if tree == nil {
			continue
		}
		n++
		notRootOrNotFixup := PassEdges(fn, func(cond ssa.Value) (bool, bool) {
			if u, ok := cond.(*ssa.UnOp); ok {
				if g, ok := u.X.(*ssa.Global); ok && g.Name() == "migrateFixup" {
					return false, true
				}
			}
			if op, x, y, ok := BinCmp(cond); ok && (op == token.EQL || op == token.NEQ) {
				if s, isC := ConstString(y); isC && s == "/" {
					if _, isP := Unwrap(x).(*ssa.Parameter); isP {
						return op == token.NEQ, true
					}
				}
			}
			return false, false
		})
		good, where := true, ""
		for _, ex := range RunCount(CountQuery{Fn: fn, Cut: EdgeSet(notRootOrNotFixup), NoRet: noReturnCommands, Event: func(in ssa.Instruction) CSet {
			if sc := AsCall(in); sc != nil && CalleeName(sc) == "git/gitattr.New" {
				a := CallArgs(sc)
				if len(a) > 1 && SameVar(a[1], tree) {
					return C1
				}
			}
			return 0
		}}) {
			if ex.Kind != "return" || ex.Set&C0 == 0 {
				continue
			}
			r := ex.Instr.(*ssa.Return)
			for _, v := range ReturnValues(r, -1) {
				if IsNilConst(v) {
					good, where = false, ex.Desc(p)
				}
			}
		}
		c.Check(good && nonVacuous(notRootOrNotFixup), rule, "fixup:attributes-rebuilt-for-every-commit", p.Pos(fn.Pos()), "for the root tree of every commit of a fixup run the attribute tree is rebuilt from that tree",
			"the --fixup callback can finish for a commit's root tree without rebuilding the attribute tree from it ("+where+"): nested .gitattributes added or changed in that commit are ignored and paths other than the ones Git would filter are converted")
	}
	c.AtLeast(rule, "tree callbacks building the attribute tree", n, 1)
}

// incomingPayloadWhole (C14): incomingOrCached looks at the first kilobyte of a request's payload to see whether
// there is one. What it returns is the whole payload: the prefix alone only if the read reported the end of the
// input (its error compared equal to io.EOF) or nothing was read; otherwise prefix + rest, and the read's error is
// handed on only where it is not io.EOF (the caller takes any error as "skip the smudge, answer with nothing").
func incomingPayloadWhole(c *Ctx, rule string) {
	p := c.P
	fn := p.Fn("commands", "incomingOrCached")
	if fn == nil || len(fn.Params) == 0 {
		c.Missing(rule, "commands.incomingOrCached", "not found")
		return
	}
	var read *ssa.Call
	for _, ci := range CallsIn(fn, "(io.Reader).Read", "io.ReadFull", "io.ReadAtLeast") {
		read, _ = ci.(*ssa.Call)
	}
	if read == nil {
		c.Missing(rule, "read of the payload prefix in incomingOrCached", "not found")
		return
	}
	isEOF := func(v ssa.Value) bool {
		u, ok := v.(*ssa.UnOp)
		if !ok {
			return false
		}
		g, ok := u.X.(*ssa.Global)
		return ok && (g.Name() == "EOF" || g.Name() == "ErrUnexpectedEOF") && g.Pkg != nil && g.Pkg.Pkg.Path() == "io"
	}
	eofCmp := func(cond ssa.Value) (isCmp bool, eqWhenTrue bool) {
		op, x, y, ok := BinCmp(cond)
		if !ok || (op != token.EQL && op != token.NEQ) {
			return false, false
		}
		if isEOF(x) {
			x, y = y, x
		}
		if !isEOF(y) || !ResultOfCall(x, read, 1) {
			return false, false
		}
		return true, op == token.EQL
	}
	atEOF := PassEdges(fn, func(cond ssa.Value) (bool, bool) {
		if ok, eq := eofCmp(cond); ok {
			return eq, true
		}
		// nothing was read
		if op, x, y, ok := BinCmp(cond); ok && ResultOfCall(x, read, 0) {
			if k, isK := ConstInt(y); isK && k == 0 {
				switch op {
				case token.EQL, token.LEQ:
					return true, true
				case token.NEQ, token.GTR:
					return false, true
				}
			}
		}
		return false, false
	})
	notEOF := PassEdges(fn, func(cond ssa.Value) (bool, bool) {
		if ok, eq := eofCmp(cond); ok {
			return !eq, true
		}
		return false, false
	})
	src := fn.Params[0]
	n := 0
	for _, r := range ReturnsOf(fn) {
		if len(r.Results) < 2 {
			continue
		}
		isWhole := func(v ssa.Value) bool {
			if cc, ok := Unwrap(v).(*ssa.Call); ok && CalleeName(cc.Common()) == "io.MultiReader" {
				els := variadicOrdered(cc.Call.Args[0])
				return len(els) >= 2 && els[len(els)-1] != nil && SameVar(els[len(els)-1], src)
			}
			return false
		}
		// every reader that is not "prefix, then the rest of the input" — returned directly or merged into a
		// single return — arrives only where the input ended
		nArr, g, where := GuardedArrivals(fn, r, 0, func(v ssa.Value) bool { return !isWhole(v) && !IsNilConst(v) }, atEOF, nil)
		nAll, _, _ := GuardedArrivals(fn, r, 0, func(v ssa.Value) bool { return true }, nil, nil)
		n += nAll
		if nArr > 0 {
			c.Check(g && nonVacuous(atEOF), rule, "incomingOrCached:prefix-only-at-end-of-input#"+itoa(n), p.InstrPos(r), "the prefix alone is returned only when the input ended (or was empty)",
				"incomingOrCached can return only the first bytes of a payload although the input did not report its end ("+where+"): content delivered in several reads is cut, or a full buffer is taken for the whole payload")
		}
		nErr, g2, where2 := GuardedArrivals(fn, r, 1, func(v ssa.Value) bool { return ResultOfCall(v, read, 1) }, notEOF, nil)
		if nErr > 0 {
			c.Check(g2 && nonVacuous(notEOF), rule, "incomingOrCached:eof-is-not-an-error#"+itoa(n), p.InstrPos(r), "the read's error is handed on only where it is not io.EOF",
				"incomingOrCached can hand io.EOF to its caller as an error ("+where2+"): a payload that exactly fills the buffer makes the filter answer with empty content and status success")
		}
	}
	c.AtLeast(rule, "readers returned by incomingOrCached", n, 3)
}

// locksOfAllRefsKnownBeforeUpload (C16): an object reachable from several pushed refs is uploaded while the
// first of them is scanned and skipped (as already uploaded) when the others are. Whether its path is locked by
// someone else on one of the *other* refs must therefore be known before anything is uploaded: the locks of every
// ref update are fetched (lockVerifier.Verify) before the loop that scans and uploads, not inside it.
func locksOfAllRefsKnownBeforeUpload(c *Ctx, rule string) {
	p := c.P
	fn := p.Fn("commands", "uploadForRefUpdates")
	if fn == nil {
		c.Missing(rule, "commands.uploadForRefUpdates", "not found")
		return
	}
	loops := Loops(fn)
	var upl *Loop
	for _, ci := range CallsIn(fn, "(*commands.uploadContext).NewQueue") {
		upl = LoopOf(loops, ci.Block())
	}
	if upl == nil {
		c.Missing(rule, "upload loop of uploadForRefUpdates", "not found")
		return
	}
	inLoop, before := false, false
	for _, ci := range CallsIn(fn, "(*commands.lockVerifier).Verify", "commands.verifyLocksForUpdates") {
		if upl.Region[ci.Block()] || ci.Block() == upl.Header {
			inLoop = true
			continue
		}
		// a call (or a loop of calls) all of whose paths come before the upload loop
		if ci.Block().Dominates(upl.Header) {
			before = true
		} else if l := LoopOf(loops, ci.Block()); l != nil && l.Header.Dominates(upl.Header) && !l.Region[upl.Header] {
			// every update is visited: the loop ranges over the same slice as the upload loop
			if a, b := l.RangedOperand(), upl.RangedOperand(); a != nil && b != nil && SameVar(a, b) {
				before = true
			}
		}
	}
	c.Check(before && !inLoop, rule, "locks-of-all-refs-before-first-upload", p.Pos(fn.Pos()), "locks of all ref updates are fetched before the scanning and uploading loop",
		"the locks of a pushed ref are fetched only when that ref's turn comes (or not for every ref) instead of for all refs up front: an object shared with an earlier ref is already uploaded and skipped, so a lock another user holds on a later ref never blocks the push")
}

// rawErrorsWhereClassified (C16): fixSingleFileWriteFlags ignores "file does not exist" from
// tools.SetFileWriteFlag by asking os.IsNotExist, which does not look through git-lfs's own error wrappers. The
// two must agree: wherever the result of a function is classified with os.IsNotExist, every error that function
// gets from os.Stat/os.Lstat/os.Chmod is returned as it is. Otherwise one tracked-but-missing lockable file
// aborts the pass over all files and the rest keep stale write bits.
func rawErrorsWhereClassified(c *Ctx, rule string) {
	p := c.P
	// producers: functions whose error result reaches os.IsNotExist in package locking
	producers := map[*ssa.Function]bool{}
	for _, fn := range p.RepoFuncs(func(path string) bool { return strings.HasSuffix(path, "/locking") }) {
		for _, ci := range CallsIn(fn, "os.IsNotExist") {
			for _, l := range append(p.LeavesNoFields(ci.Common().Args[0], nil), ci.Common().Args[0]) {
				if cc, _, ok := CallResult(l); ok {
					if callee := cc.Call.StaticCallee(); callee != nil && callee.Pkg != nil && productPkg(callee.Pkg.Pkg.Path()) {
						producers[callee] = true
					}
				}
			}
		}
	}
	n := 0
	var fns []*ssa.Function
	for fn := range producers {
		fns = append(fns, fn)
	}
	sort.Slice(fns, func(i, j int) bool { return FnName(fns[i]) < FnName(fns[j]) })
	for _, fn := range fns {
		for _, r := range ReturnsOf(fn) {
			if len(r.Results) == 0 {
				continue
			}
			for _, v := range ReturnValues(r, -1) {
				if IsNilConst(v) || !isErrorType(v.Type()) {
					continue
				}
				// an error derived from an os call but not that call's result itself
				if cc, _, ok := CallResult(v); ok && strings.HasPrefix(CalleeName(cc.Common()), "os.") {
					n++
					c.OK(rule, "raw-os-error:"+FnName(fn)+"#"+itoa(n), p.InstrPos(r), "the os error is returned as it is")
					continue
				}
				for _, l := range p.LeavesNoFields(v, nil) {
					if cc, _, ok := CallResult(l); ok && strings.HasPrefix(CalleeName(cc.Common()), "os.") && isErrorType(l.Type()) {
						n++
						c.Bad(rule, "raw-os-error:"+FnName(fn)+"#"+itoa(n), p.InstrPos(r), FnName(fn)+" wraps the error of "+CalleeName(cc.Common())+" although a caller classifies its result with os.IsNotExist: a missing file is no longer recognised as such, the pass over the lockable files stops at the first one, and the remaining files keep the wrong write bits")
					}
				}
			}
		}
	}
	c.AtLeast(rule, "os errors returned by functions whose result is classified with os.IsNotExist", n, 1)
}

// protectionLookupURLFromURLFields (C17): whether CR protection applies is looked up under
// credential.<url>.protectProtocol with <url> built from the request URL's scheme, host and path. Nothing decoded
// from the userinfo may be spliced into that lookup URL: a user name containing a control byte makes the URL
// unparsable, the scoped setting is skipped, and the very value the protection is about escapes it.
func protectionLookupURLFromURLFields(c *Ctx, rule string) {
	p := c.P
	fn := p.Fn("creds", "(*CredentialHelperContext).GetCredentialHelper")
	if fn == nil {
		c.Missing(rule, "(*creds.CredentialHelperContext).GetCredentialHelper", "not found")
		return
	}
	isUserinfo := func(v ssa.Value) bool {
		if cc, _, ok := CallResult(v); ok && strings.HasPrefix(CalleeName(cc.Common()), "(*net/url.Userinfo).") {
			return true
		}
		if cc, _, ok := CallResult(v); ok && nameIn(CalleeName(cc.Common()), []string{"(*net/url.URL).String", "(*net/url.URL).Redacted", "(*net/url.URL).RequestURI"}) {
			return true
		}
		return false
	}
	n := 0
	for _, ci := range CallsIn(fn, "(*config.URLConfig).Bool", "(*config.URLConfig).Get", "(*config.URLConfig).GetAll") {
		a := CallArgs(ci.Common())
		if len(a) < 4 {
			continue
		}
		n++
		good := true
		for _, l := range p.LeavesNoFields(a[2], func(v ssa.Value) FlowAct {
			if isUserinfo(v) {
				return Stop
			}
			return Descend
		}) {
			if isUserinfo(l) {
				good = false
			}
		}
		c.Check(good, rule, "config-lookup-url:no-userinfo#"+itoa(n), p.InstrPos(ci), "the URL a credential.<url>.* setting is looked up under contains nothing decoded from the userinfo",
			"the URL under which credential.<url>.* settings are looked up contains the decoded user name: a user name with a control byte makes the URL unparsable, a URL-scoped protectProtocol=true is silently skipped, and the CR reaches `git credential`")
	}
	c.AtLeast(rule, "URL-scoped credential lookups", n, 1)
}

// offeredAuthorizationKept (C18): when a request is refused, doWithAuth forgets the Authorization header only if
// git-lfs itself had filled it from the credential helper (the wrapper carries credentials). A header that came
// with a batch action stays: removing it makes the callers retry the action URL with the user's Git credentials
// instead of the header the server offered.
func offeredAuthorizationKept(c *Ctx, rule string) {
	p := c.P
	fn := p.Fn("lfsapi", "(*Client).doWithAuth")
	if fn == nil {
		c.Missing(rule, "(*lfsapi.Client).doWithAuth", "not found")
		return
	}
	pass := PassEdges(fn, func(cond ssa.Value) (bool, bool) {
		op, x, y, ok := BinCmp(cond)
		if !ok || (op != token.EQL && op != token.NEQ) {
			return false, false
		}
		if IsNilConst(x) {
			x, y = y, x
		}
		if !IsNilConst(y) {
			return false, false
		}
		if tn, f, _, ok := FieldOf(x); ok && tn == "creds.CredentialHelperWrapper" && f == "Creds" {
			return op == token.NEQ, true
		}
		return false, false
	})
	n := 0
	for _, ci := range CallsIn(fn, "(net/http.Header).Del") {
		a := CallArgs(ci.Common())
		if s, ok := ConstString(a[1]); !ok || !strings.EqualFold(s, "Authorization") {
			continue
		}
		n++
		g, where := Guarded(fn.Blocks[0], ci, pass, nil)
		c.Check(g && nonVacuous(pass), rule, "authorization-dropped-only-if-own#"+itoa(n), p.InstrPos(ci), "the Authorization header is removed only when the credentials in it came from the helper",
			"doWithAuth removes an Authorization header it did not set ("+where+"): after a 401 the header a batch action offered is gone and the action URL is retried with the user's own Git credentials")
	}
	c.AtLeast(rule, "removals of the Authorization header in doWithAuth", n, 1)
}

// lockQueryEncoded (C18): the lock list request carries path, id, cursor, limit and refspec as query parameters;
// the query string is what url.Values.Encode produces (which escapes '+', '&' and '='), not a hand-made join.
func lockQueryEncoded(c *Ctx, rule string) {
	p := c.P
	n := 0
	for _, fn := range p.RepoFuncs(productPkg) {
		for _, b := range fn.Blocks {
			for _, in := range b.Instrs {
				st, ok := in.(*ssa.Store)
				if !ok {
					continue
				}
				fa, ok := st.Addr.(*ssa.FieldAddr)
				if !ok {
					continue
				}
				if tn, f := fieldAddrName(fa); tn != "net/url.URL" || f != "RawQuery" {
					continue
				}
				n++
				cc, _, isRes := CallResult(st.Val)
				c.Check(isRes && CalleeName(cc.Common()) == "(net/url.Values).Encode", rule, "raw-query-from-values-encode:"+FnName(fn), p.InstrPos(st), "the query string is url.Values.Encode()",
					FnName(fn)+" assembles a request's query string by hand: a path, ref or cursor containing '+', '&' or '=' reaches the server as a different value or as extra parameters, so the lock list (and an unlock by path) is about another file")
			}
		}
	}
	c.AtLeast(rule, "query strings set on request URLs", n, 1)
}

// lineEndingFallsBack (C19): a .gitattributes without any newline reports an empty line ending. track then
// writes with Git's default ending; the result of getAttributeLineEnding is tested for emptiness in trackCommand
// and replaced by gitLineEnding's result — otherwise old and new line are glued into one, which Git rejects.
func lineEndingFallsBack(c *Ctx, rule string) {
	p := c.P
	fn := p.Fn("commands", "trackCommand")
	if fn == nil {
		c.Missing(rule, "commands.trackCommand", "not found")
		return
	}
	n := 0
	for _, ci := range CallsIn(fn, "commands.getAttributeLineEnding") {
		g, ok := ci.(*ssa.Call)
		if !ok {
			continue
		}
		n++
		tested, merged := false, false
		for _, b := range fn.Blocks {
			for _, in := range b.Instrs {
				switch x := in.(type) {
				case *ssa.BinOp:
					if x.Op != token.EQL && x.Op != token.NEQ && x.Op != token.GTR && x.Op != token.LSS {
						continue
					}
					for _, o := range []ssa.Value{x.X, x.Y} {
						if o == ssa.Value(g) {
							if s, isC := ConstString(x.X); isC && s == "" {
								tested = true
							}
							if s, isC := ConstString(x.Y); isC && s == "" {
								tested = true
							}
						}
						if lc, ok := o.(*ssa.Call); ok {
							if bi, isB := lc.Call.Value.(*ssa.Builtin); isB && bi.Name() == "len" && lc.Call.Args[0] == ssa.Value(g) {
								tested = true
							}
						}
					}
				case *ssa.Phi:
					hasG, hasDefault := false, false
					for _, e := range x.Edges {
						if e == ssa.Value(g) {
							hasG = true
						}
						if cc, _, ok := CallResult(e); ok && CalleeName(cc.Common()) == "commands.gitLineEnding" {
							hasDefault = true
						}
					}
					if hasG && hasDefault {
						merged = true
					}
				}
			}
		}
		c.Check(tested && merged, rule, "track:empty-line-ending-falls-back", p.InstrPos(g), "an empty line ending reported for .gitattributes is replaced by Git's default ending",
			"trackCommand uses the line ending reported for the existing .gitattributes without falling back when it is empty (a file without a trailing newline): the new line is glued to the last existing one and Git ignores both patterns")
	}
	c.AtLeast(rule, "line-ending lookups in trackCommand", n, 1)
}

// hookUpgradeablesPerType (C20): which existing hook bodies count as "written by git-lfs, may be replaced or
// removed" is decided per hook type. The early, unguarded bodies were only ever written for pre-push; for
// post-checkout, post-commit and post-merge the list holds the three templated old bodies and nothing else.
func hookUpgradeablesPerType(c *Ctx, rule string) {
	p := c.P
	fn := p.Fn("lfs", "LoadHooks")
	if fn == nil {
		c.Missing(rule, "lfs.LoadHooks", "not found")
		return
	}
	n := 0
	for _, ci := range CallsIn(fn, "lfs.NewStandardHook") {
		a := CallArgs(ci.Common())
		n++
		typ, isC := ConstString(a[0])
		if !isC {
			c.Bad(rule, "hook-upgradeables:"+itoa(n), p.InstrPos(ci), "hooks of different types are built with one shared list of replaceable bodies: bodies git-lfs only ever wrote as pre-push hooks now make a user's post-checkout/post-commit/post-merge hook count as generated, and install overwrites (uninstall deletes) it")
			continue
		}
		if typ == "pre-push" {
			c.OK(rule, "hook-upgradeables:"+typ, p.InstrPos(ci), "pre-push: historical bodies listed")
			continue
		}
		vecs, ok := ArgVectors(a[2])
		good := ok && len(vecs) > 0
		for _, vec := range vecs {
			for _, e := range vec {
				u, isLoad := e.V.(*ssa.UnOp)
				if e.Spread || !isLoad {
					good = false
					continue
				}
				g, isG := u.X.(*ssa.Global)
				if !isG || !strings.HasPrefix(g.Name(), "hookOldContent") {
					good = false
				}
			}
		}
		c.Check(good, rule, "hook-upgradeables:"+typ, p.InstrPos(ci), "only the templated old bodies are replaceable for this hook type",
			"the list of replaceable bodies of the "+typ+" hook contains bodies git-lfs never wrote for that hook type: a user's hook with that content is overwritten without --force and deleted by uninstall")
	}
	c.AtLeast(rule, "standard hooks built in LoadHooks", n, 4)
}

// configSectionsRemovedOnlyByAttribute (C20): which scope of Git's configuration install and uninstall touch
// is decided in one place, lfs.Attribute (from the options the user gave). Nothing else removes a whole section
// of Git's configuration — in particular not the command functions, for a scope the user did not name.
func configSectionsRemovedOnlyByAttribute(c *Ctx, rule string) {
	p := c.P
	n := 0
	for _, fn := range p.RepoFuncs(productPkg) {
		for _, ci := range CallsIn(fn, "(*git.Configuration).UnsetLocalSection", "(*git.Configuration).UnsetGlobalSection", "(*git.Configuration).UnsetSystemSection",
			"(*git.Configuration).UnsetWorktreeSection", "(*git.Configuration).UnsetFileSection",
			"(*config.Configuration).UnsetGitLocalSection", "(*config.Configuration).UnsetGitGlobalSection", "(*config.Configuration).UnsetGitSystemSection", "(*config.Configuration).UnsetGitWorktreeSection") {
			n++
			name := FnName(fn)
			okSite := strings.HasPrefix(name, "(*lfs.Attribute).") || strings.HasPrefix(name, "(*config.Configuration).UnsetGit") || strings.HasPrefix(name, "(*git.Configuration).")
			c.Check(okSite, rule, "section-removal-site:"+name, p.InstrPos(ci), "sections are removed by lfs.Attribute (and the thin wrappers it goes through)",
				name+" removes a section of Git's configuration itself: uninstall (or install) then changes a scope the user did not ask for, e.g. the repository's own filter.lfs.* settings on a global uninstall")
		}
	}
	c.AtLeast(rule, "section removals", n, 5)
}

// unpushedIncludesHead (C05): "not yet pushed" is decided by `git log <local tips> --not --remotes[=<remote>]`.
// The local tips are all branches and tags — and HEAD: commits made on a detached HEAD are on no branch, and
// leaving HEAD out of the positive revisions lets prune delete the objects of commits that were never pushed.
func unpushedIncludesHead(c *Ctx, rule string) {
	p := c.P
	fn := p.Fn("lfs", "scanUnpushed")
	if fn == nil {
		c.Missing(rule, "lfs.scanUnpushed", "not found")
		return
	}
	n := 0
	for _, ci := range CallsIn(fn, "git.Log") {
		a := CallArgs(ci.Common())
		vecs, ok := ArgVectors(a[len(a)-1])
		if !ok || len(vecs) == 0 {
			c.Undecided(rule, "scanUnpushed:argv", p.InstrPos(ci), "the argument vector could not be enumerated")
			continue
		}
		n++
		// some vector (the one used when HEAD exists) names HEAD before --not; all name --branches and --tags there
		headSomewhere := false
		good := true
		for _, vec := range vecs {
			pos := map[string]bool{}
			for _, e := range vec {
				s, isC := ConstString(e.V)
				if !isC || e.Spread {
					continue
				}
				if s == "--not" {
					break
				}
				pos[s] = true
			}
			if !pos["--branches"] || !pos["--tags"] {
				good = false
			}
			if pos["HEAD"] {
				headSomewhere = true
			}
		}
		c.Check(good && headSomewhere, rule, "scanUnpushed:local-tips-include-HEAD", p.InstrPos(ci), "the unpushed scan starts from branches, tags and HEAD",
			"the scan for unpushed commits starts from branches and tags only: commits made on a detached HEAD are never found, and prune deletes the objects of commits that were never pushed")
	}
	c.AtLeast(rule, "git log invocations in scanUnpushed", n, 1)
}

// decodedEntriesNilChecked (C06): the batch response is decoded from whatever JSON the server sent; `null` where an
// object or an action is expected decodes to a nil pointer. In (*tqClient).Batch every element taken out of a
// decoded collection is dereferenced only behind a test that it is not nil, and the Objects slice handed to the
// queue is rebuilt from elements that passed that test — the queue's own loops dereference its elements freely.
func decodedEntriesNilChecked(c *Ctx, rule string) {
	p := c.P
	fn := p.Fn("tq", "(*tqClient).Batch")
	if fn == nil {
		c.Missing(rule, "(*tq.tqClient).Batch", "not found")
		return
	}
	isElem := func(v ssa.Value) bool {
		if _, isPtr := v.Type().Underlying().(*types.Pointer); !isPtr {
			return false
		}
		switch x := v.(type) {
		case *ssa.UnOp:
			_, ok := x.X.(*ssa.IndexAddr)
			return ok && x.Op == token.MUL
		case *ssa.Extract:
			_, ok := x.Tuple.(*ssa.Next)
			return ok
		}
		return false
	}
	nonNil := func(elem ssa.Value) []Edge {
		return PassEdges(fn, func(cond ssa.Value) (bool, bool) {
			op, x, y, ok := BinCmp(cond)
			if !ok || (op != token.EQL && op != token.NEQ) {
				return false, false
			}
			if IsNilConst(x) {
				x, y = y, x
			}
			if !IsNilConst(y) || x != elem {
				return false, false
			}
			return op == token.NEQ, true
		})
	}
	n := 0
	seen := map[ssa.Value]bool{}
	for _, b := range fn.Blocks {
		for _, in := range b.Instrs {
			var base ssa.Value
			switch x := in.(type) {
			case *ssa.FieldAddr:
				base = x.X
			case *ssa.Field:
				base = x.X
			}
			if base == nil || !isElem(base) {
				continue
			}
			// only collections that come out of the response (elements of the request are the client's own)
			fromResp := false
			for _, cn := range rootCallees(base, 0) {
				_ = cn
			}
			if t := base.Type().String(); strings.HasSuffix(t, "tq.Transfer") || strings.HasSuffix(t, "tq.Action") {
				fromResp = !strings.Contains(describeRoot(base), "batchRequest")
			}
			if !fromResp || seen[base] {
				continue
			}
			seen[base] = true
			n++
			pass := nonNil(base)
			g, where := Guarded(fn.Blocks[0], in, pass, nil)
			c.Check(g && nonVacuous(pass), rule, "batch-response:entry-nil-checked#"+itoa(n), p.InstrPos(in), "an entry of the decoded response is used only after a nil test",
				"an entry of the decoded batch response is dereferenced without a nil test ("+where+"): a response containing `null` in place of an object or action crashes the client")
		}
	}
	c.AtLeast(rule, "entries of the decoded batch response used in Batch", n, 2)
	// the slice handed on holds only entries that passed the test
	rebuilt := false
	for _, b := range fn.Blocks {
		for _, in := range b.Instrs {
			st, ok := in.(*ssa.Store)
			if !ok {
				continue
			}
			fa, ok := st.Addr.(*ssa.FieldAddr)
			if !ok {
				continue
			}
			if tn, f := fieldAddrName(fa); tn != "tq.BatchResponse" || f != "Objects" {
				continue
			}
			apps := appendsInto(st.Val)
			okAll := len(apps) > 0
			for _, ap := range apps {
				els := variadicOrdered(ap.Call.Args[1])
				if len(els) != 1 || els[0] == nil {
					okAll = false
					continue
				}
				pass := nonNil(els[0])
				if g, _ := Guarded(fn.Blocks[0], ap, pass, nil); !g || !nonVacuous(pass) {
					okAll = false
				}
			}
			if okAll {
				rebuilt = true
			}
		}
	}
	c.Check(rebuilt, rule, "batch-response:objects-without-nil-entries", p.Pos(fn.Pos()), "the Objects slice handed to the queue is rebuilt from entries that are not nil",
		"Batch hands the decoded Objects slice to the transfer queue as it is: a `null` entry reaches loops that dereference every element, and the process panics")
}

// describeRoot says where a collection element comes from (the type whose field holds the collection).
func describeRoot(v ssa.Value) string {
	for i := 0; i < 8 && v != nil; i++ {
		switch x := v.(type) {
		case *ssa.UnOp:
			v = x.X
		case *ssa.IndexAddr:
			v = x.X
		case *ssa.Extract:
			v = x.Tuple
		case *ssa.Next:
			v = x.Iter
		case *ssa.Range:
			v = x.X
		case *ssa.FieldAddr:
			tn, f := fieldAddrName(x)
			if strings.HasSuffix(tn, "batchRequest") || strings.HasSuffix(tn, "BatchResponse") {
				return tn + "." + f
			}
			v = x.X
		default:
			return v.String()
		}
	}
	return ""
}

// ---- round 6 ------------------------------------------------------------------------------------------------

// mergeResultOpenedAfterProgram (C01): the merge driver cleans the file the merge program produced. A program may
// produce it by replacing the file (write to a temporary, rename over it), so the handle that is cleaned must be
// opened after the program has run — a handle opened before still reads the old, empty file.
func mergeResultOpenedAfterProgram(c *Ctx, rule string) {
	p := c.P
	fn := p.Fn("commands", "processFiles")
	if fn == nil {
		c.Missing(rule, "commands.processFiles", "not found")
		return
	}
	// the driver's own helpers: functions of the package reached from processFiles, up to the clean wrapper
	helpers := samePkgReach(fn, 4, "commands.clean")
	var runs []ssa.Instruction
	for _, h := range helpers {
		for _, ci := range CallsIn(h, "(*subprocess.Cmd).Run", "(*subprocess.Cmd).Wait", "(*subprocess.Cmd).Output", "(*subprocess.Cmd).CombinedOutput") {
			runs = append(runs, ci)
		}
	}
	n := 0
	for _, h := range helpers {
		for _, ci := range CallsIn(h, "commands.clean") {
			a := CallArgs(ci.Common())
			if len(a) < 3 {
				continue
			}
			n++
			oc, _, ok := CallResult(a[2])
			good := false
			if ok && len(runs) > 0 && oc.Parent() == h && strings.HasPrefix(CalleeName(oc.Common()), "os.Open") {
				good = true
				for _, run := range runs {
					if !strictlyAfterIn(fn, run, oc, 4) {
						good = false
					}
				}
			}
			c.Check(good, rule, "merge-driver:result-opened-after-program", p.InstrPos(ci), "the file that is cleaned is opened after the merge program ran",
				"the merge driver cleans a handle that was not opened after the merge program ran: a program that replaces its output file leaves the handle on the old, empty file, and an empty pointer is written with exit status 0")
		}
	}
	c.AtLeast(rule, "clean calls in processFiles", n, 1)
}

// samePkgReach: root and the functions of root's package that root reaches through static calls within that
// package (at most depth levels), not descending into the named callees.
func samePkgReach(root *ssa.Function, depth int, stopAt ...string) []*ssa.Function {
	var out []*ssa.Function
	seen := map[*ssa.Function]bool{}
	var visit func(f *ssa.Function, d int)
	visit = func(f *ssa.Function, d int) {
		if f == nil || seen[f] || f.Blocks == nil || f.Pkg != root.Pkg || d > depth {
			return
		}
		seen[f] = true
		out = append(out, f)
		for _, b := range f.Blocks {
			for _, in := range b.Instrs {
				if sc := AsCall(in); sc != nil {
					if callee := sc.StaticCallee(); callee != nil && !nameIn(CalleeName(sc), stopAt) {
						visit(callee, d+1)
					}
				}
			}
		}
	}
	visit(root, 0)
	return out
}

// liftChains: the ways instruction in is reached from root through static calls inside root's package: each chain
// is the call instruction in root, the call in that callee, ..., and finally in itself.
func liftChains(root *ssa.Function, in ssa.Instruction, depth int) [][]ssa.Instruction {
	var out [][]ssa.Instruction
	var walk func(f *ssa.Function, prefix []ssa.Instruction, d int)
	walk = func(f *ssa.Function, prefix []ssa.Instruction, d int) {
		if f == in.Parent() {
			out = append(out, append(append([]ssa.Instruction{}, prefix...), in))
			return
		}
		if d >= depth {
			return
		}
		for _, b := range f.Blocks {
			for _, x := range b.Instrs {
				if sc := AsCall(x); sc != nil {
					if callee := sc.StaticCallee(); callee != nil && callee.Pkg == root.Pkg && callee.Blocks != nil && callee != f {
						walk(callee, append(prefix, x), d+1)
					}
				}
			}
		}
	}
	walk(root, nil, 0)
	return out
}

// strictlyAfterIn: on every way a and b are reached from root, b happens after a and never before it — decided
// at the first function in which the two chains differ.
func strictlyAfterIn(root *ssa.Function, a, b ssa.Instruction, depth int) bool {
	ca, cb := liftChains(root, a, depth), liftChains(root, b, depth)
	if len(ca) == 0 || len(cb) == 0 {
		return false
	}
	for _, x := range ca {
		for _, y := range cb {
			i := 0
			for i < len(x) && i < len(y) && x[i] == y[i] {
				i++
			}
			if i >= len(x) || i >= len(y) {
				return false
			}
			if !after(x[i], y[i]) || after(y[i], x[i]) {
				return false
			}
		}
	}
	return true
}

// smudgeCopiesWholeResult (C01): with a pointer extension the bytes smudge writes are the output of the
// extensions' smudge programs, whose length is the original file's — not the pointer's size, which describes the
// stored (transformed) object. The final copy in readLocalFile reads its source to the end: it is not wrapped in a
// length-limited reader.
func smudgeCopiesWholeResult(c *Ctx, rule string) {
	p := c.P
	fn := p.Fn("lfs", "(*GitFilter).readLocalFile")
	if fn == nil {
		c.Missing(rule, "(*lfs.GitFilter).readLocalFile", "not found")
		return
	}
	n := 0
	for _, ci := range CallsIn(fn, "tools.CopyWithCallback", "io.Copy", "io.CopyN") {
		a := CallArgs(ci.Common())
		n++
		limited := CalleeName(ci.Common()) == "io.CopyN"
		for _, l := range append(p.LeavesNoFields(a[1], func(v ssa.Value) FlowAct {
			if cc, _, ok := CallResult(v); ok && nameIn(CalleeName(cc.Common()), []string{"io.LimitReader", "io.NewSectionReader"}) {
				return Stop
			}
			return Descend
		}), a[1]) {
			if cc, _, ok := CallResult(l); ok && nameIn(CalleeName(cc.Common()), []string{"io.LimitReader", "io.NewSectionReader"}) {
				limited = true
			}
		}
		c.Check(!limited, rule, "smudge:copies-source-to-its-end#"+itoa(n), p.InstrPos(ci), "the smudged content is copied until the source ends",
			"readLocalFile copies at most a fixed number of bytes: with a pointer extension whose stored form is shorter than the original (e.g. compression) the smudged file is silently cut at the pointer's size")
	}
	c.AtLeast(rule, "copies in readLocalFile", n, 1)
}

// failureSurvivesCleanup (C02): when a download failed, DoTransfer tidies up (keeps the partial file for a later
// resume) and then returns the failure. Nothing on that path may assign the error variable again: the value
// returned on the failure path is the failure itself.
func failureSurvivesCleanup(c *Ctx, rule string) {
	p := c.P
	fn := p.Fn("tq", "(*basicDownloadAdapter).DoTransfer")
	if fn == nil {
		c.Missing(rule, "(*tq.basicDownloadAdapter).DoTransfer", "not found")
		return
	}
	n := 0
	for _, ci := range CallsIn(fn, "(*tq.basicDownloadAdapter).download") {
		dl, ok := ci.(*ssa.Call)
		if !ok {
			continue
		}
		n++
		// on the `download failed` edge every return hands on exactly that error
		fail := PassEdges(fn, func(cond ssa.Value) (bool, bool) {
			if e, trueMeansNil, ok := IsErrNilCheck(cond); ok && ResultOfCall(e, dl, 0) {
				return !trueMeansNil, true
			}
			return false, false
		})
		good, where := nonVacuous(fail), ""
		for _, e := range fail {
			for _, r := range ReturnsOf(fn) {
				if !InstrReachable(e.To(), r, nil, noReturnCommands) {
					continue
				}
				// explore from the failure edge: what does the return carry?
				ExploreX(e.To(), nil, nil, noReturnCommands, nil, nil, func(in ssa.Instruction, st PState) bool {
					if in != ssa.Instruction(r) {
						return true
					}
					v := Base(r.Results[len(r.Results)-1], st)
					if !ResultOfCall(v, dl, 0) {
						good, where = false, p.InstrPos(r)
					}
					return false
				})
			}
		}
		c.Check(good, rule, "DoTransfer:failure-returned-after-cleanup", p.InstrPos(dl), "after a failed download the function returns that failure",
			"after a failed download DoTransfer can return something other than the failure ("+where+"; e.g. the result of renaming the partial file away): a failed transfer is reported as success although nothing was placed at the final location")
	}
	c.AtLeast(rule, "download calls in DoTransfer", n, 1)
}

// workerErrorPerJob (C02, C06): a worker handles many jobs; the outcome it reports for a job is the outcome of
// that job's transfer. The error value handed to job.Done is defined inside the loop body on every path (never
// carried over from the previous iteration).
func workerErrorPerJob(c *Ctx, rule string) {
	p := c.P
	fn := p.Fn("tq", "(*adapterBase).worker")
	if fn == nil {
		c.Missing(rule, "(*tq.adapterBase).worker", "not found")
		return
	}
	loops := Loops(fn)
	n := 0
	for _, ci := range CallsIn(fn, "(*tq.job).Done") {
		a := CallArgs(ci.Common())
		l := LoopOf(loops, ci.Block())
		if l == nil || len(a) < 2 {
			continue
		}
		n++
		good := true
		seen := map[ssa.Value]bool{}
		var walk func(v ssa.Value)
		walk = func(v ssa.Value) {
			if seen[v] {
				return
			}
			seen[v] = true
			ph, ok := v.(*ssa.Phi)
			if !ok {
				if defs := ReachingDefs(v); len(defs) > 0 {
					for _, d := range defs {
						walk(d)
					}
				}
				return
			}
			if ph.Block() == l.Header {
				// a loop-carried value: what arrives over the back edge is last iteration's error
				for i, e := range ph.Edges {
					if l.Region[ph.Block().Preds[i]] && !IsNilConst(e) {
						good = false
					}
				}
				return
			}
			for _, e := range ph.Edges {
				walk(e)
			}
		}
		walk(a[1])
		c.Check(good, rule, "worker:error-belongs-to-this-job", p.InstrPos(ci), "the error reported for a job is computed in this iteration",
			"the error a worker reports for a job can be left over from an earlier job: after one failed transfer every later object on that worker is reported as failed although it was verified and moved into place")
	}
	c.AtLeast(rule, "job completions in the worker loop", n, 1)
}

// lockDecisionRecords (C03, C16): prepareUpload withholds a pointer whose path another user has locked. The push
// then has to fail, and it fails because the lookup that made the decision — lockVerifier.LockedByThem — also
// records the lock for ReportErrors. A side-effect-free lookup (Contains) withholds the object silently: the push
// exits 0 without it.
func lockDecisionRecords(c *Ctx, rule string) {
	p := c.P
	fn := p.Fn("commands", "(*uploadContext).prepareUpload")
	if fn == nil {
		c.Missing(rule, "(*commands.uploadContext).prepareUpload", "not found")
		return
	}
	n, recording := 0, 0
	for _, f := range WithAnon(fn) {
		for _, b := range f.Blocks {
			for _, in := range b.Instrs {
				cc := AsCall(in)
				if cc == nil || !strings.HasPrefix(CalleeName(cc), "(*commands.lockVerifier).") {
					continue
				}
				n++
				name := strings.TrimPrefix(CalleeName(cc), "(*commands.lockVerifier).")
				if name == "LockedByThem" {
					recording++
				}
				c.Check(nameIn(name, []string{"LockedByThem", "LockedByUs", "Enabled"}), rule, "prepareUpload:lock-lookup:"+name, p.InstrPos(in), "locks are consulted through the recording lookups",
					"prepareUpload consults the lock verifier through "+name+", which records nothing: a pointer withheld because of another user's lock is not reported, and the push exits 0 without the object on the server")
			}
		}
	}
	c.Check(recording > 0, rule, "prepareUpload:locked-by-them-recorded", p.Pos(fn.Pos()), "the lock decision is taken by LockedByThem", "prepareUpload never calls lockVerifier.LockedByThem: locks held by others are not recorded for the final report")
	c.AtLeast(rule, "lock verifier calls in prepareUpload", n, 2)
}

// objectIDPushNeedsLocalObject (C03): `git lfs push --object-id` builds its pointers from the files in the local
// store. An object that is not there cannot be uploaded, and a pointer of size 0 is silently dropped further down;
// the failure to stat the local object therefore ends the command (every error of that Stat, not-exist included).
func objectIDPushNeedsLocalObject(c *Ctx, rule string) {
	p := c.P
	fn := p.Fn("commands", "uploadsWithObjectIDs")
	if fn == nil {
		c.Missing(rule, "commands.uploadsWithObjectIDs", "not found")
		return
	}
	n := 0
	for _, ci := range CallsIn(fn, "os.Stat", "os.Lstat") {
		st, ok := ci.(*ssa.Call)
		if !ok {
			continue
		}
		n++
		// from the err != nil edge no pointer is built: every path ends in a no-return call
		fail := PassEdges(fn, func(cond ssa.Value) (bool, bool) {
			if e, trueMeansNil, ok := IsErrNilCheck(cond); ok && ResultOfCall(e, st, 1) {
				return !trueMeansNil, true
			}
			return false, false
		})
		good := nonVacuous(fail)
		for _, e := range fail {
			for _, b := range fn.Blocks {
				for _, in := range b.Instrs {
					if cc := AsCall(in); cc != nil && nameIn(CalleeName(cc), []string{"(*commands.uploadContext).UploadPointers", "commands.uploadPointers"}) {
						if InstrReachable(e.To(), in, nil, noReturnCommands) {
							good = false
						}
					}
				}
			}
		}
		c.Check(good, rule, "push-object-id:missing-local-object-is-fatal", p.InstrPos(st), "when the local object cannot be examined the command ends",
			"`git lfs push --object-id` goes on after it could not stat the local object: the pointer gets size 0, is dropped as empty, and the command exits 0 although the object is neither local nor on the server")
	}
	c.AtLeast(rule, "stat calls in uploadsWithObjectIDs", n, 1)
}

// lsTreePathIsRemainder (C04): `git ls-tree -z` prints "<mode> <type> <oid> <size>\t<path>" with the path verbatim,
// TABs included. The scanner takes everything after the FIRST tab as the path: the line is cut in two (SplitN with
// 2, or Cut), never split at every tab.
func lsTreePathIsRemainder(c *Ctx, rule string) {
	p := c.P
	root := p.Fn("git", "(*LsTreeScanner).Scan")
	if root == nil {
		c.Missing(rule, "(*git.LsTreeScanner).Scan", "not found")
		return
	}
	n := 0
	// the record is parsed in Scan or in one of the package's helpers it calls (next, today)
	var splits []ssa.CallInstruction
	for _, h := range samePkgReach(root, 3) {
		splits = append(splits, CallsIn(h, "strings.Split", "strings.SplitN", "strings.Fields", "strings.FieldsFunc", "strings.Cut", "strings.SplitAfterN", "strings.SplitAfter")...)
	}
	for _, ci := range splits {
		a := CallArgs(ci.Common())
		if len(a) < 2 {
			continue
		}
		sep, ok := ConstString(a[1])
		if !ok || sep != "\t" {
			continue
		}
		n++
		good := false
		switch CalleeName(ci.Common()) {
		case "strings.SplitN":
			if k, ok := ConstInt(a[2]); ok && k == 2 {
				good = true
			}
		case "strings.Cut":
			good = true
		}
		c.Check(good, rule, "ls-tree:path-is-everything-after-first-tab", p.InstrPos(ci), "the record is cut at the first tab only",
			"the ls-tree record is split at every tab: a path containing a TAB is truncated, pull/checkout write the object to a stray path and leave the real file a pointer")
	}
	c.AtLeast(rule, "tab splits in LsTreeScanner.next", n, 1)
}

// smudgeFailureLeavesPointer (C04, C08): when the content of a pointer cannot be produced (download failed and
// errors are being skipped), the non-delayed smudge writes the pointer text itself — on every path that returns
// after the failed Smudge, not only for one kind of error — so the file stays a valid pointer instead of
// becoming empty.
func smudgeFailureLeavesPointer(c *Ctx, rule string) {
	p := c.P
	fn := p.Fn("commands", "smudge")
	if fn == nil {
		c.Missing(rule, "commands.smudge", "not found")
		return
	}
	var out *ssa.Parameter
	for _, q := range fn.Params {
		if short(q.Type().String()) == "io.Writer" {
			out = q
		}
	}
	n := 0
	for _, ci := range CallsIn(fn, "(*lfs.GitFilter).Smudge") {
		sm, ok := ci.(*ssa.Call)
		if !ok || out == nil {
			continue
		}
		n++
		fail := PassEdges(fn, func(cond ssa.Value) (bool, bool) {
			if e, trueMeansNil, ok := IsErrNilCheck(cond); ok && ResultOfCall(e, sm, 1) {
				return !trueMeansNil, true
			}
			return false, false
		})
		good, where := nonVacuous(fail), ""
		for _, e := range fail {
			for _, ex := range RunCount(CountQuery{Fn: fn, Entry: e.To(), NoRet: noReturnCommands, Event: func(in ssa.Instruction) CSet {
				if sc := AsCall(in); sc != nil && CalleeName(sc) == "(*lfs.Pointer).Encode" {
					if a := CallArgs(sc); len(a) > 1 && SameVar(a[1], out) {
						return C1
					}
				}
				return 0
			}}) {
				if ex.Kind == "return" && ex.Set&C0 != 0 {
					good, where = false, ex.Desc(p)
				}
			}
		}
		c.Check(good, rule, "smudge:failed-content-leaves-pointer", p.InstrPos(sm), "after a failed Smudge the pointer text is written before returning",
			"smudge can return after a failed Smudge without writing the pointer text ("+where+"): with download errors skipped the filter reports success with empty output and the working-tree file becomes empty instead of staying a pointer")
	}
	c.AtLeast(rule, "Smudge calls in commands.smudge", n, 1)
}

// indexKeepsEveryPath (C05, C13): the same content can be staged under several paths; the index scan reports a
// pointer once per path, and path filters (lfs.fetchexclude) are applied per path. indexFileMap.Add therefore
// appends to the list kept for a blob SHA — it never replaces the list or keeps only the first path.
func indexKeepsEveryPath(c *Ctx, rule string) {
	p := c.P
	fn := p.Fn("lfs", "(*indexFileMap).Add")
	if fn == nil {
		c.Missing(rule, "(*lfs.indexFileMap).Add", "not found")
		return
	}
	n := 0
	for _, b := range fn.Blocks {
		for _, in := range b.Instrs {
			mu, ok := in.(*ssa.MapUpdate)
			if !ok || !strings.Contains(mu.Map.Type().String(), "indexFile") {
				continue
			}
			n++
			good := false
			if ac, ok := mu.Value.(*ssa.Call); ok {
				if bi, isB := ac.Call.Value.(*ssa.Builtin); isB && bi.Name() == "append" {
					if lk, ok := ac.Call.Args[0].(*ssa.Lookup); ok && SameValue(lk.Index, mu.Key) {
						good = true
					}
				}
			}
			c.Check(good, rule, "index-map:appends-per-sha", p.InstrPos(mu), "a further path of the same blob is appended to the list for its SHA",
				"indexFileMap.Add does not append to the list kept for a blob: content staged under two paths is reported under one of them only, and with lfs.fetchexclude matching that one prune deletes an object the index still needs")
		}
	}
	c.AtLeast(rule, "updates of the SHA map in indexFileMap.Add", n, 1)
}

// gitDateHasNumericZone (C05): the cut-off of the recent-commits window is handed to `git log --since=` as text.
// Zone abbreviations are ambiguous (Git reads CST as -0600 wherever the user is), so the layout used to print the
// date carries a numeric offset.
func gitDateHasNumericZone(c *Ctx, rule string) {
	p := c.P
	fn := p.Fn("git", "FormatGitDate")
	if fn == nil {
		c.Missing(rule, "git.FormatGitDate", "not found")
		return
	}
	n := 0
	for _, ci := range CallsIn(fn, "(time.Time).Format", "(time.Time).AppendFormat") {
		a := CallArgs(ci.Common())
		n++
		layout, ok := ConstString(a[len(a)-1])
		good := ok && (strings.Contains(layout, "-0700") || strings.Contains(layout, "-07:00") || strings.Contains(layout, "Z07")) && !strings.Contains(layout, "MST")
		c.Check(good, rule, "git-date:numeric-zone", p.InstrPos(ci), "dates are printed with a numeric UTC offset",
			"FormatGitDate prints the time zone as an abbreviation (or not at all): Git resolves abbreviations by its own table, the --since cut-off of the recent-commits scan moves by hours, and objects inside the retention window are pruned")
	}
	c.AtLeast(rule, "date formats in FormatGitDate", n, 1)
}

// deliveryInOneCriticalSection (C06): marking an OID completed and notifying the watchers of every Add of that OID
// happen under one hold of the transfers mutex. If the mutex is released in between, an Add that arrives in the gap
// is neither delivered (not in the snapshot) nor enqueued (not completed yet) — and the flag may land on a stale
// entry.
func deliveryInOneCriticalSection(c *Ctx, rule string) {
	p := c.P
	fn := p.Fn("tq", "(*TransferQueue).handleTransferResult")
	if fn == nil {
		c.Missing(rule, "(*tq.TransferQueue).handleTransferResult", "not found")
		return
	}
	var locks, unlocks []ssa.Instruction
	for _, b := range fn.Blocks {
		for _, in := range b.Instrs {
			if isFieldMethodCall(in, "tq.TransferQueue", "trMutex", "Lock") {
				locks = append(locks, in)
			}
			if isFieldMethodCall(in, "tq.TransferQueue", "trMutex", "Unlock") {
				unlocks = append(unlocks, in)
			}
		}
	}
	var marks, sends []ssa.Instruction
	for _, b := range fn.Blocks {
		for _, in := range b.Instrs {
			if st, ok := in.(*ssa.Store); ok {
				if fa, ok := st.Addr.(*ssa.FieldAddr); ok {
					if tn, f := fieldAddrName(fa); tn == "tq.objects" && f == "completed" {
						marks = append(marks, in)
					}
				}
			}
			if sd, ok := in.(*ssa.Send); ok && strings.Contains(sd.Chan.Type().String(), "tq.Transfer") {
				sends = append(sends, in)
			}
		}
	}
	good := len(marks) > 0 && len(sends) > 0
	for _, mk := range marks {
		// the lock that is held at the mark
		var held ssa.Instruction
		for _, l := range locks {
			if l.Block().Dominates(mk.Block()) && after(l, mk) {
				held = l
			}
		}
		if held == nil {
			good = false
			continue
		}
		for _, s := range sends {
			if !(after(held, s)) {
				good = false
			}
			for _, u := range unlocks {
				// released between the lock and the mark, or between the lock and a delivery
				if after(held, u) && (after(u, mk) || after(u, s)) {
					good = false
				}
			}
		}
	}
	c.Check(good, rule, "deliver:mark-and-notify-under-one-lock", p.Pos(fn.Pos()), "completed is set and the watchers are notified under one hold of trMutex",
		"handleTransferResult releases trMutex between marking an OID completed and notifying the watchers: a duplicate Add arriving in the gap is neither delivered nor transferred, and Wait() returns without it")
}

// copyHelperReadsToEnd (C08, C01): tools.CopyWithCallback copies its reader to the end. The size it is given is a
// hint for progress reporting (in clean it is the size of the file at the named path, not of the stream): the
// reader is not wrapped in a length-limited reader.
func copyHelperReadsToEnd(c *Ctx, rule string) {
	p := c.P
	fn := p.Fn("tools", "CopyWithCallback")
	if fn == nil {
		c.Missing(rule, "tools.CopyWithCallback", "not found")
		return
	}
	n := 0
	for _, f := range WithAnon(fn) {
		n++
		for _, ci := range CallsIn(f, "io.LimitReader", "io.CopyN", "io.NewSectionReader") {
			c.Bad(rule, "copy-with-callback:reads-to-the-end", p.InstrPos(ci), "tools.CopyWithCallback limits how much of its source it copies by the size hint: clean stores a stream only up to the length of the file at the named path and drops the rest")
		}
	}
	c.Check(n > 0, rule, "copy-with-callback:no-length-limit", p.Pos(fn.Pos()), "the source is copied until it ends", "tools.CopyWithCallback not analysed")
}

// responseMatchedByOid (C09, C06, C02): a batch response may list objects in any order. The local name and the
// destination path of the transfer built for a response entry are taken from the queue's record for THAT entry's
// OID (q.transfers[o.Oid]) — never from the request by position, which would store object X's verified bytes under
// object Y's name.
func responseMatchedByOid(c *Ctx, rule string) {
	p := c.P
	fn := p.Fn("tq", "(*TransferQueue).enqueueAndCollectRetriesFor")
	if fn == nil {
		c.Missing(rule, "(*tq.TransferQueue).enqueueAndCollectRetriesFor", "not found")
		return
	}
	n := 0
	for _, ci := range CallsIn(fn, "tq.newTransfer") {
		a := CallArgs(ci.Common())
		if len(a) < 3 {
			continue
		}
		n++
		good := true
		for _, arg := range a[1:3] {
			okArg := false
			if tn, _, base, ok := FieldOf(arg); ok && strings.HasSuffix(tn, "objectTuple") {
				if fc, _, ok := CallResult(base); ok && strings.HasSuffix(CalleeName(fc.Common()), ".First") {
					recv := Unwrap(fc.Call.Args[0])
					var lk *ssa.Lookup
					switch x := recv.(type) {
					case *ssa.Lookup:
						lk = x
					case *ssa.Extract:
						lk, _ = x.Tuple.(*ssa.Lookup)
					}
					if lk != nil {
						if _, f, b2, ok := FieldOf(lk.Index); ok && f == "Oid" && SameVar(b2, a[0]) {
							okArg = true
						}
					}
				}
			}
			if !okArg {
				good = false
			}
		}
		c.Check(good, rule, "batch-response:matched-by-oid", p.InstrPos(ci), "name and path of a transfer come from the queue's record for the response entry's own OID",
			"the transfer built for a batch response entry takes its local name or destination path from somewhere other than the queue's record for that entry's OID (e.g. the request by position): with a server that orders its response differently, verified bytes of one object are stored under another object's name")
	}
	c.AtLeast(rule, "transfers built from response entries", n, 1)
}

// verifyUsesOnlyVerifyAction (C10, C18): the verify request carries the headers of the verify action and nothing
// from any other action: an Authorization header issued for the upload href (a storage host) must not travel to
// the verify href.
func verifyUsesOnlyVerifyAction(c *Ctx, rule string) {
	p := c.P
	fn := p.Fn("tq", "verifyUpload")
	if fn == nil {
		c.Missing(rule, "tq.verifyUpload", "not found")
		return
	}
	n := 0
	for _, f := range WithAnon(fn) {
		for _, ci := range CallsIn(f, "(*tq.Transfer).Rel", "(tq.ActionSet).Get") {
			a := CallArgs(ci.Common())
			n++
			s, ok := ConstString(a[len(a)-1])
			c.Check(ok && s == "verify", rule, "verify:only-the-verify-action#"+itoa(n), p.InstrPos(ci), "verifyUpload looks up the verify action only",
				"verifyUpload consults an action other than `verify`: headers the server issued for the upload (storage) href, such as Authorization, are sent to the verify href on another host or port")
		}
	}
	c.AtLeast(rule, "action lookups in verifyUpload", n, 1)
}

// fetchPathsLastValueWins (C11): lfs.fetchinclude / lfs.fetchexclude are single-valued: the value from Git's own
// configuration replaces the one from .lfsconfig. They are read with Get (last value), not GetAll — merging all
// values keeps the repository's patterns in force beside the user's.
func fetchPathsLastValueWins(c *Ctx, rule string) {
	p := c.P
	n := 0
	for _, name := range []string{"(*Configuration).FetchIncludePaths", "(*Configuration).FetchExcludePaths"} {
		fn := p.Fn("config", name)
		if fn == nil {
			c.Missing(rule, "config."+name, "not found")
			continue
		}
		n++
		bad := false
		for f := range staticReach(p, fn) {
			if f.Pkg == nil || !strings.HasSuffix(f.Pkg.Pkg.Path(), "/config") {
				continue
			}
			if f != fn && !strings.Contains(strings.ToLower(f.Name()), "fetch") && f.Parent() != fn {
				continue
			}
			for range CallsIn(f, "(config.Environment).GetAll", "(*config.GitFetcher).GetAll", "(*config.environment).GetAll") {
				bad = true
			}
		}
		c.Check(!bad, rule, "fetch-paths:last-value-wins:"+strings.TrimPrefix(name, "(*Configuration)."), p.Pos(fn.Pos()), "the option is read as a single value (the last one wins)",
			name+" merges all values of the option: patterns from a repository's .lfsconfig stay in force although the user set the option in Git's own configuration")
	}
	c.AtLeast(rule, "fetch path options examined", n, 2)
}

// everythingIncludesTags (C12): `migrate --everything` rewrites the history behind every local branch, every
// remote-tracking branch and every tag. Commits reachable only through a tag are walked only if the tag's ref is in
// the include list: for a ref of each of these three kinds the loop in includeExcludeRefs reaches the append to
// `include`.
func everythingIncludesTags(c *Ctx, rule string) {
	p := c.P
	fn := p.Fn("commands", "includeExcludeRefs")
	if fn == nil {
		c.Missing(rule, "commands.includeExcludeRefs", "not found")
		return
	}
	loops := Loops(fn)
	// the append of ref.Refspec() inside the loop over all refs
	targets := map[ssa.Instruction]bool{}
	var target ssa.Instruction
	var loop *Loop
	for _, b := range fn.Blocks {
		for _, in := range b.Instrs {
			ac, ok := in.(*ssa.Call)
			if !ok {
				continue
			}
			bi, isB := ac.Call.Value.(*ssa.Builtin)
			if !isB || bi.Name() != "append" {
				continue
			}
			els := variadicOrdered(ac.Call.Args[1])
			if len(els) != 1 || els[0] == nil {
				continue
			}
			if rc, _, ok := CallResult(els[0]); ok && CalleeName(rc.Common()) == "(*git.Ref).Refspec" {
				if l := LoopOf(loops, b); l != nil {
					if ro := l.RangedOperand(); ro != nil {
						if cc, _, ok := CallResult(ro); ok && strings.Contains(CalleeName(cc.Common()), "AllRefs") {
							target, loop = in, l
							targets[in] = true
						}
					}
				}
			}
		}
	}
	if target == nil {
		c.Missing(rule, "includeExcludeRefs: include = append(include, ref.Refspec()) in the loop over all refs", "not found")
		return
	}
	for _, kind := range []string{"RefTypeLocalBranch", "RefTypeRemoteBranch", "RefTypeLocalTag"} {
		k, ok := constInt64(p, "git", kind)
		if !ok {
			c.Missing(rule, "git."+kind, "constant not found")
			continue
		}
		assume := func(v ssa.Value) (*ssa.Const, bool) {
			if IsLoadOfField(v, "git.Ref", "Type") {
				return ssa.NewConst(constant.MakeInt64(k), v.Type()), true
			}
			return nil, false
		}
		reached := false
		ExploreX(loop.Body, nil, nil, noReturnCommands, nil, assume, func(in ssa.Instruction, st PState) bool {
			if targets[in] {
				reached = true
				return false
			}
			return in.Block() != loop.Header
		})
		c.Check(reached, rule, "migrate-everything:includes:"+kind, p.InstrPos(target), "a ref of this kind is added to the refs to rewrite",
			"with --everything a ref of kind "+kind+" is not added to the refs whose history is rewritten: commits reachable only through such a ref keep their raw blobs, and the ref stays on the old history")
	}
}

// scannerCloseErrorReported (C13): `git rev-list` exiting with a failure (a missing tree or blob object) surfaces
// only as the error returned by the rev-list scanner's Close. revListShas sends that error to its error channel;
// a deferred or ignored Close turns a truncated object list into "fsck OK".
func scannerCloseErrorReported(c *Ctx, rule string) {
	p := c.P
	root := p.Fn("lfs", "revListShas")
	if root == nil {
		c.Missing(rule, "lfs.revListShas", "not found")
		return
	}
	n := 0
	for _, fn := range WithAnon(root) {
		for _, b := range fn.Blocks {
			for _, in := range b.Instrs {
				cc := AsCall(in)
				if cc == nil || CalleeName(cc) != "(*git.RevListScanner).Close" {
					continue
				}
				n++
				call, isCall := in.(*ssa.Call)
				sent := false
				if isCall {
					// the result is looked at (stored, compared or sent), not dropped
					for _, r := range Referrers(call) {
						if _, dbg := r.(*ssa.DebugRef); !dbg {
							sent = true
						}
					}
				}
				c.Check(sent, rule, "rev-list:close-error-reported#"+itoa(n), p.InstrPos(in), "the error of closing the rev-list scanner is sent to the error channel",
					"the error returned by closing the rev-list scanner (the only sign that `git rev-list` failed part-way) is discarded: the scan sees a shorter object list, reports no error, and fsck prints OK for a history it did not walk")
			}
		}
	}
	c.AtLeast(rule, "closes of the rev-list scanner in revListShas", n, 1)
}

// unlockForgetsLockFirst (C16): once the server has released a lock, the local list of own locks must lose it
// whatever happens afterwards. In UnlockFileById the cache removal comes before the local steps that can fail
// (resolving the path, changing the write bit) — a file that has left the working tree must not keep its lock in
// the cache.
func unlockForgetsLockFirst(c *Ctx, rule string) {
	p := c.P
	fn := p.Fn("locking", "(*Client).UnlockFileById")
	if fn == nil {
		c.Missing(rule, "(*locking.Client).UnlockFileById", "not found")
		return
	}
	var rm ssa.Instruction
	for _, b := range fn.Blocks {
		for _, in := range b.Instrs {
			if cc := AsCall(in); cc != nil && strings.HasSuffix(CalleeName(cc), ".RemoveById") {
				rm = in
			}
		}
	}
	if rm == nil {
		c.Bad(rule, "unlock:cache-updated", p.Pos(fn.Pos()), "UnlockFileById does not remove the lock from the cache of own locks")
		return
	}
	n := 0
	for _, ci := range CallsIn(fn, "tools.SetFileWriteFlag", "(*locking.Client).getAbsolutePath", "locking.getAbsolutePath") {
		n++
		c.Check(after(rm, ci) && !after(ci, rm), rule, "unlock:cache-updated-before-local-steps#"+itoa(n), p.InstrPos(ci), "the lock leaves the cache before the fallible local steps",
			"UnlockFileById performs a local step that can fail (path resolution, write bit) before it removes the lock from the cache of own locks: when the file is missing the server has released the lock but the cache keeps it, and the file stays writable when it reappears")
	}
	c.AtLeast(rule, "fallible local steps in UnlockFileById", n, 1)
}

// unlockGuardAsksServer (C16): `unlock --id` must know the lock's path to check for uncommitted changes. The local
// cache is asked first; when it has no entry (lock taken elsewhere) the server is asked — the fall-back is taken on
// "no locks found", not on an error of the local search (which never fails).
func unlockGuardAsksServer(c *Ctx, rule string) {
	p := c.P
	fn := p.Fn("commands", "unlockAbortIfFileModifiedById")
	if fn == nil {
		c.Missing(rule, "commands.unlockAbortIfFileModifiedById", "not found")
		return
	}
	var local, remote *ssa.Call
	for _, ci := range CallsIn(fn, "(*locking.Client).SearchLocks") {
		cc, ok := ci.(*ssa.Call)
		if !ok {
			continue
		}
		a := CallArgs(cc.Common())
		if bv, isC := ConstBool(a[3]); isC {
			if bv {
				local = cc
			} else {
				remote = cc
			}
		}
	}
	if local == nil || remote == nil {
		c.Bad(rule, "unlock-id:server-fallback", p.Pos(fn.Pos()), "unlockAbortIfFileModifiedById does not search the local cache and then the server")
		return
	}
	good := false
	for _, dc := range decidingConds(fn, remote.Block()) {
		_, x, y, ok := BinCmp(dc.Cond)
		if !ok {
			continue
		}
		for _, o := range []ssa.Value{x, y} {
			if lc, ok := o.(*ssa.Call); ok {
				if bi, isB := lc.Call.Value.(*ssa.Builtin); isB && bi.Name() == "len" && ResultOfCall(lc.Call.Args[0], local, 0) {
					good = true
				}
			}
		}
	}
	c.Check(good, rule, "unlock-id:server-asked-when-cache-is-empty", p.InstrPos(remote), "the server is searched when the local search found no lock",
		"the server is not asked for the lock when the local cache has no entry for the id: the path stays unknown, the uncommitted-changes check is skipped, and a lock taken from another clone is released although the file is modified")
}

// everyCredentialValueWritten (C17): apart from refusing values that would break the line protocol, the serialiser
// hands the helper exactly the pairs it was given: every iteration over the values either writes the value or
// leaves the function with an error — it never skips a value (an empty host= or username= is information).
func everyCredentialValueWritten(c *Ctx, rule string) {
	p := c.P
	fn := p.Fn("creds", "(Creds).buffer")
	if fn == nil {
		c.Missing(rule, "(creds.Creds).buffer", "not found")
		return
	}
	writes := bufferWrites(fn)
	loops := Loops(fn)
	var inner *Loop
	isWrite := map[ssa.Instruction]bool{}
	for _, w := range writes {
		isWrite[w.call.(ssa.Instruction)] = true
		if l := LoopOf(loops, w.call.Block()); l != nil {
			if inner == nil || len(l.Region) < len(inner.Region) {
				inner = l
			}
		}
	}
	if inner == nil {
		c.Missing(rule, "value loop of (creds.Creds).buffer", "not found")
		return
	}
	good, where := true, ""
	for _, ex := range RunCount(CountQuery{Fn: fn, Entry: inner.Body, Region: inner.Region, Header: inner.Header, Event: func(in ssa.Instruction) CSet {
		if isWrite[in] {
			return C1
		}
		return 0
	}}) {
		if (ex.Kind == "backedge" || ex.Kind == "leave") && ex.Set&C0 != 0 {
			good, where = false, ex.Desc(p)
		}
	}
	c.Check(good, rule, "buffer:no-value-skipped", p.Pos(fn.Pos()), "every value is written or refused with an error", "the serialiser can skip a value without an error ("+where+"): the helper does not receive the pairs that were supplied (e.g. the empty host= and username= of a certificate passphrase request)")
}

// usernameIsDecodedUserinfo (C17): the username attribute is the decoded user name of the URL. Userinfo.String()
// returns the percent-encoded form (plus the password): encoded control bytes would pass the line-protocol checks
// as harmless text and reach the helper un-decoded, and the helper would be asked about a different user.
func usernameIsDecodedUserinfo(c *Ctx, rule string) {
	p := c.P
	fn := p.Fn("creds", "(*CredentialHelperContext).GetCredentialHelper")
	if fn == nil {
		c.Missing(rule, "(*creds.CredentialHelperContext).GetCredentialHelper", "not found")
		return
	}
	n := 0
	for _, b := range fn.Blocks {
		for _, in := range b.Instrs {
			mu, ok := in.(*ssa.MapUpdate)
			if !ok {
				continue
			}
			if s, isC := ConstString(mu.Key); !isC || s != "username" {
				continue
			}
			n++
			good := false
			for _, e := range variadicOrdered(mu.Value) {
				if e == nil {
					continue
				}
				// the value, or every value a local variable holding it can have: Username(), or a constant
				// (the variable's initial "")
				some, all := false, true
				for _, l := range p.LeavesNoFields(e, func(v ssa.Value) FlowAct {
					if _, _, ok := CallResult(v); ok {
						return Stop
					}
					return Descend
				}) {
					if cc, _, ok := CallResult(l); ok && CalleeName(cc.Common()) == "(*net/url.Userinfo).Username" {
						some = true
					} else if _, isC := ConstString(l); !isC {
						all = false
					}
				}
				if some && all {
					good = true
				}
			}
			c.Check(good, rule, "username:decoded-userinfo", p.InstrPos(mu), "the username attribute is Userinfo.Username()",
				"the username handed to the credential helper is not the decoded user name of the URL (e.g. Userinfo.String(), which is percent-encoded and includes the password): encoded CR/LF/NUL bytes are not refused and the helper is asked about a different user")
		}
	}
	c.AtLeast(rule, "username attributes set in GetCredentialHelper", n, 1)
}

// newTransferCopiesServerFields (C18): newTransfer is the only way a batch response object becomes the Transfer an
// adapter works on. Everything the server said about how the object may be accessed has to be carried over: name
// and path from the queue, and oid, size, the authenticated flag and the actions from the response object.
func newTransferCopiesServerFields(c *Ctx, rule string) {
	p := c.P
	fn := p.Fn("tq", "newTransfer")
	if fn == nil || len(fn.Params) == 0 {
		c.Missing(rule, "tq.newTransfer", "not found")
		return
	}
	src := fn.Params[0]
	set := map[string]ssa.Value{}
	for _, b := range fn.Blocks {
		for _, in := range b.Instrs {
			if st, ok := in.(*ssa.Store); ok {
				if fa, ok := st.Addr.(*ssa.FieldAddr); ok {
					if tn, f := fieldAddrName(fa); tn == "tq.Transfer" {
						set[f] = st.Val
					}
				}
			}
		}
	}
	for _, f := range []string{"Oid", "Size", "Authenticated"} {
		v, ok := set[f]
		good := false
		if ok {
			if tn, ff, base, isF := FieldOf(v); isF && tn == "tq.Transfer" && ff == f && SameVar(base, src) {
				good = true
			}
		}
		c.Check(good, rule, "newTransfer:copies:"+f, p.Pos(fn.Pos()), "the field is copied from the response object",
			"newTransfer does not copy "+f+" from the batch response object: an object the server marked `authenticated` is requested with the user's own credentials added (and other per-object facts are lost)")
	}
	for _, f := range []string{"Name", "Path", "Actions"} {
		_, ok := set[f]
		c.Check(ok, rule, "newTransfer:sets:"+f, p.Pos(fn.Pos()), "the field is set", "newTransfer does not set "+f)
	}
}

// extraHeadersAreAdded (C18): configured http.<url>.extraHeader values are added to a request; they never replace
// a header the request already carries (an action's Authorization, the LFS media type). In ExtraHeadersFor every
// value taken from the configuration is appended to what the copy of the request's headers holds for that name.
func extraHeadersAreAdded(c *Ctx, rule string) {
	p := c.P
	fn := p.Fn("lfshttp", "(*Client).ExtraHeadersFor")
	if fn == nil {
		c.Missing(rule, "(*lfshttp.Client).ExtraHeadersFor", "not found")
		return
	}
	n := 0
	for _, b := range fn.Blocks {
		for _, in := range b.Instrs {
			mu, ok := in.(*ssa.MapUpdate)
			if !ok {
				continue
			}
			// does the value come from the configured extra headers?
			fromCfg := false
			for _, cn := range rootCallees(mu.Value, 0) {
				if strings.HasSuffix(cn, ".extraHeaders") {
					fromCfg = true
				}
			}
			if ac, ok := mu.Value.(*ssa.Call); ok {
				if bi, isB := ac.Call.Value.(*ssa.Builtin); isB && bi.Name() == "append" {
					for _, e := range variadicOrdered(ac.Call.Args[1]) {
						for _, cn := range rootCallees(e, 0) {
							if strings.HasSuffix(cn, ".extraHeaders") {
								fromCfg = true
							}
						}
					}
				}
			}
			if !fromCfg {
				continue
			}
			n++
			good := false
			if ac, ok := mu.Value.(*ssa.Call); ok {
				if bi, isB := ac.Call.Value.(*ssa.Builtin); isB && bi.Name() == "append" {
					if lk, ok := ac.Call.Args[0].(*ssa.Lookup); ok && SameValue(lk.Index, mu.Key) && lk.X == mu.Map {
						good = true
					}
				}
			}
			c.Check(good, rule, "extra-headers:appended#"+itoa(n), p.InstrPos(mu), "a configured extra header is appended to the values already present",
				"a configured extra header replaces the values the request already has under that name: the Authorization an action offered, or the mandatory LFS Accept/Content-Type, is dropped from the request")
		}
	}
	c.AtLeast(rule, "extra header values applied in ExtraHeadersFor", n, 1)
}

// noLoopCarriedFlagInTrack (C19): whether a pattern is "already supported" is decided for each argument of
// `git lfs track` on its own. No boolean survives from one argument to the next: the loop over the arguments has no
// loop-carried bool (a flag declared outside the loop and never reset makes every argument after the first
// already-tracked one count as supported, and it is never written).
func noLoopCarriedFlagInTrack(c *Ctx, rule string) {
	p := c.P
	fn := p.Fn("commands", "trackCommand")
	if fn == nil {
		c.Missing(rule, "commands.trackCommand", "not found")
		return
	}
	var args *ssa.Parameter
	for _, q := range fn.Params {
		if short(q.Type().String()) == "[]string" {
			args = q
		}
	}
	n := 0
	for _, l := range Loops(fn) {
		ro := l.RangedOperand()
		if ro == nil || args == nil || !SameVar(ro, args) {
			continue
		}
		n++
		good, which := true, ""
		for _, in := range l.Header.Instrs {
			ph, ok := in.(*ssa.Phi)
			if !ok {
				break
			}
			if b, isB := ph.Type().Underlying().(*types.Basic); !isB || b.Kind() != types.Bool {
				continue
			}
			// carried: some back edge brings a value other than the one it had on entry
			for i, e := range ph.Edges {
				if l.Region[l.Header.Preds[i]] {
					if _, isC := ConstBool(e); !isC {
						good, which = false, ph.Comment
					}
				}
			}
		}
		c.Check(good, rule, "track:per-argument-decisions", p.InstrPos(firstPositioned(l.Body)), "no boolean is carried from one argument to the next",
			"a boolean ("+which+") survives from one argument of `git lfs track` to the next: after one argument that is already tracked every later one is reported as already supported and never written")
	}
	c.AtLeast(rule, "loops over the arguments of track", n, 1)
}

// configFileNamedVerbatim (C20): --file <name> is read and written through `git config --file <name>`, run in one
// working directory for both. FindFile, SetFile and UnsetFileSection pass the name exactly as given: resolving it
// on one side only makes install compare against one file and write another.
func configFileNamedVerbatim(c *Ctx, rule string) {
	p := c.P
	n := 0
	for _, name := range []string{"(*Configuration).FindFile", "(*Configuration).SetFile", "(*Configuration).UnsetFileSection"} {
		fn := p.Fn("git", name)
		if fn == nil {
			c.Missing(rule, "git."+name, "not found")
			continue
		}
		var file *ssa.Parameter
		for _, q := range fn.Params {
			if q.Name() == "file" || (file == nil && short(q.Type().String()) == "string") {
				file = q
			}
		}
		for _, q := range fn.Params {
			if q.Name() == "file" {
				file = q
			}
		}
		for _, ci := range CallsIn(fn, "(*git.Configuration).gitConfig", "(*git.Configuration).gitConfigWrite") {
			a := CallArgs(ci.Common())
			vecs, ok := ArgVectors(a[len(a)-1])
			if !ok {
				c.Undecided(rule, "config-file:"+name, p.InstrPos(ci), "the argument vector could not be enumerated")
				continue
			}
			n++
			good := len(vecs) > 0
			for _, vec := range vecs {
				okVec := false
				for i, e := range vec {
					if s, isC := ConstString(e.V); isC && (s == "--file" || s == "-f") && i+1 < len(vec) {
						if file != nil && SameVar(vec[i+1].V, file) {
							okVec = true
						}
					}
				}
				if !okVec {
					good = false
				}
			}
			c.Check(good, rule, "config-file:name-passed-verbatim:"+strings.TrimPrefix(name, "(*Configuration)."), p.InstrPos(ci), "the file name follows --file exactly as given",
				name+" does not hand the --file name to git as it was given: the value is looked up in one file and written to another, so custom filter settings in the file actually written are replaced without --force")
		}
	}
	c.AtLeast(rule, "git config --file invocations", n, 3)
}

// alreadySupportedMeansTracked (C19): `track` leaves .gitattributes alone when the pattern is "already supported".
// A known line counts only if it actually assigns the LFS filter: the skip is taken only behind `known.Tracked`.
// A line that unsets the filter or sets another one (`*.ex -filter`, `filter=other`) must be replaced, or Git goes
// on reporting no LFS filter for the pattern after `git lfs track`.
func alreadySupportedMeansTracked(c *Ctx, rule string) {
	p := c.P
	fn := p.Fn("commands", "trackCommand")
	if fn == nil {
		c.Missing(rule, "commands.trackCommand", "not found")
		return
	}
	pass := PassEdges(fn, func(cond ssa.Value) (bool, bool) {
		if IsLoadOfField(cond, "git.AttributePath", "Tracked") {
			return true, true
		}
		return false, false
	})
	n := 0
	for _, ci := range CallsIn(fn, "commands.Print") {
		a := CallArgs(ci.Common())
		isMsg := false
		for _, l := range append(p.LeavesNoFields(a[0], nil), a[0]) {
			if s, ok := ConstString(l); ok && strings.Contains(s, "already supported") {
				isMsg = true
			}
		}
		if !isMsg {
			continue
		}
		n++
		g, where := Guarded(fn.Blocks[0], ci, pass, noReturnCommands)
		c.Check(g && nonVacuous(pass), rule, "track:already-supported-only-if-tracked#"+itoa(n), p.InstrPos(ci), "a pattern is reported as already supported only when a known line assigns it the LFS filter",
			"track can report a pattern as already supported although the known line does not assign the LFS filter ("+where+"): with an existing `pattern -filter` (or filter=other) line nothing is written and Git keeps reporting no LFS filter for the pattern")
	}
	c.AtLeast(rule, "`already supported` reports in trackCommand", n, 1)
}
