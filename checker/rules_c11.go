package main

import (
	"fmt"
	"go/ast"
	"go/constant"
	"go/token"
	"os"
	"path/filepath"
	"regexp"
	"sort"
	"strings"

	"golang.org/x/tools/go/ssa"
)

// C11 — a repository's .lfsconfig can only set the documented safe keys.

func init() {
	register(&PropDef{
		ID:    "C11",
		Level: "other",
		Explanation: "Decides on the current source: (R1) the allow-list in code equals the list documented in the LFSCONFIG section of the man page, literal keys and patterns alike; (R2) under the assumption that a source is restricted (OnlySafeKeys), the store of a line into the resulting configuration is reachable on a feasible path only through a justifying edge tied to the key of that very line — membership in the allow-list, or the last key component compared equal to an allowed pattern's suffix — explored with constant tracking so that a flag surviving from an earlier line is seen; " +
			"(R3) every source read from a file or blob is marked restricted, nothing else parses a repository-supplied config; (R4) the restricted source is ordered before Git's own configuration and lookups return the last value; (R5) no configuration key that can name a program to execute is in the allow-list; (R6) the allow-list comparison is exact on canonical lower-case keys. It does not decide what Git itself does with the file or with include directives.",
		Assumptions: []string{
			"`git config -l -f <file>` prints canonical lower-case section/variable names, one key=value per line",
			"keys not read anywhere by git-lfs have no effect even when stored",
		},
		Run:      runC11,
		Canaries: c11Canaries,
	})
}

// stringSliceGlobal returns the string elements of a package-level []string variable.
func stringSliceGlobal(p *Prog, pkg, name string) ([]string, token.Pos, bool) {
	pk := p.byPath[PkgPath(pkg)]
	if pk == nil {
		return nil, 0, false
	}
	for _, f := range pk.Syntax {
		for _, d := range f.Decls {
			gd, ok := d.(*ast.GenDecl)
			if !ok || gd.Tok != token.VAR {
				continue
			}
			for _, sp := range gd.Specs {
				vs := sp.(*ast.ValueSpec)
				for i, n := range vs.Names {
					if n.Name != name || i >= len(vs.Values) {
						continue
					}
					cl, ok := vs.Values[i].(*ast.CompositeLit)
					if !ok {
						return nil, n.Pos(), false
					}
					var out []string
					for _, e := range cl.Elts {
						if kv, isKV := e.(*ast.KeyValueExpr); isKV {
							// a set written as map[string]struct{}{...} / map[string]bool{...: true}
							if tv, ok := pk.TypesInfo.Types[kv.Value]; ok && tv.Value != nil && tv.Value.Kind() == constant.Bool && !constant.BoolVal(tv.Value) {
								continue // an entry mapped to false is not a member
							}
							e = kv.Key
						}
						tv, ok := pk.TypesInfo.Types[e]
						if !ok || tv.Value == nil || tv.Value.Kind() != constant.String {
							return nil, n.Pos(), false
						}
						out = append(out, constant.StringVal(tv.Value))
					}
					return out, n.Pos(), true
				}
			}
		}
	}
	return nil, 0, false
}

var adocBullet = regexp.MustCompile(`^\* (\S+)\s*$`)

// manPageAllowList reads the bullet list of the "== LFSCONFIG" section.
func manPageAllowList(repo string) (literals []string, patterns []string, err error) {
	b, err := os.ReadFile(filepath.Join(repo, "docs", "man", "git-lfs-config.adoc"))
	if err != nil {
		return nil, nil, err
	}
	in := false
	seenList := false
	for _, line := range strings.Split(string(b), "\n") {
		if strings.HasPrefix(line, "== ") {
			in = strings.TrimSpace(line) == "== LFSCONFIG"
			continue
		}
		if !in {
			continue
		}
		if m := adocBullet.FindStringSubmatch(line); m != nil {
			seenList = true
			k := strings.ReplaceAll(m[1], `\{`, "{")
			k = strings.Trim(k, "`")
			if strings.ContainsAny(k, "{*") {
				patterns = append(patterns, k)
			} else {
				literals = append(literals, k)
			}
		} else if seenList && strings.TrimSpace(line) != "" {
			break
		}
	}
	if !seenList {
		return nil, nil, fmt.Errorf("no bullet list under '== LFSCONFIG'")
	}
	return
}

func runC11(c *Ctx) {
	priorityZeroIsAValue(c, "R4")
	updateJudgesEffectiveValue(c, "R4")
	hostMatchNeedsEqualLabelCount(c, "R4")
	p := c.P
	shellQuoteRule(c, "R9")
	everyValueRecorded(c, "R2")
	extensionCommandsOnlyFromTrustedConfig(c, "R5")
	fetchPathsLastValueWins(c, "R2")
	rg := p.Fn("config", "readGitConfig")
	if rg == nil {
		c.Missing("R2", "config.readGitConfig", "function not found")
		return
	}
	// ---- R1 literals -----------------------------------------------------------------------
	safe, pos, ok := stringSliceGlobal(p, "config", "safeKeys")
	if !ok {
		c.Missing("R1", "config.safeKeys", "allow-list table not found as a []string literal of constants")
		return
	}
	lits, pats, err := manPageAllowList(p.Dir)
	if err != nil {
		c.Missing("R1", "man page LFSCONFIG list", err.Error())
		return
	}
	inDoc := map[string]bool{}
	for _, l := range lits {
		inDoc[l] = true
	}
	inCode := map[string]bool{}
	for _, s := range safe {
		inCode[s] = true
		c.Check(inDoc[s], "R1", fmt.Sprintf("safeKeys[%q]", s), p.Pos(pos), "allowed key is documented in the LFSCONFIG section", "key is honoured from .lfsconfig but is not in the documented allow-list")
		// R6 canonical
		c.Check(s == strings.ToLower(s) && !strings.ContainsAny(s, " \t="), "R6", fmt.Sprintf("safeKeys[%q]:canonical", s), p.Pos(pos), "lower-case canonical key", "allow-list entry is not in git's canonical lower-case form, so it can never match (or matches a differently-cased key)")
	}
	for _, l := range lits {
		c.Check(inCode[l], "R1", fmt.Sprintf("documented[%q]", l), "docs/man/git-lfs-config.adoc", "documented key is in the allow-list", "key is documented as allowed in .lfsconfig but is not in safeKeys")
	}
	c.AtLeast("R1", "allow-list entries", len(safe), 4)

	// ---- R2 ---------------------------------------------------------------------------------
	allowSuffixes := c11Stores(c, rg)

	// R1 patterns: suffixes used by allow sites vs. documented patterns
	docSuffix := map[string]string{}
	for _, pt := range pats {
		parts := strings.Split(pt, ".")
		docSuffix[parts[len(parts)-1]] = pt
	}
	var sfx []string
	for s := range allowSuffixes {
		sfx = append(sfx, s)
	}
	sort.Strings(sfx)
	for _, s := range sfx {
		_, ok := docSuffix[s]
		c.Check(ok, "R1", fmt.Sprintf("allow-site(*.%s)", s), allowSuffixes[s], "pattern allow site is documented ("+docSuffix[s]+")",
			fmt.Sprintf("keys ending in .%s are honoured from .lfsconfig by a dedicated allow site, but no pattern in the documented allow-list covers them", s))
	}
	for s, pt := range docSuffix {
		_, ok := allowSuffixes[s]
		c.Check(ok, "R1", fmt.Sprintf("documented-pattern(%s)", pt), "docs/man/git-lfs-config.adoc", "documented pattern has an allow site", "documented pattern has no allow site in the code")
	}

	c11Sources(c)
	c11Order(c, rg)
	c11KeyIsUnsafe(c)
	c11ExecKeys(c, safe, allowSuffixes)
	c11KeyEnumerations(c, allowSuffixes)
	c11SSHDestination(c)
}

// lastPartConst: cond compares the last dot-separated component of `key` with a constant.
// Returns the constant and the outcome on which they are equal.
func lastPartCompare(p *Prog, fn *ssa.Function, cond ssa.Value, at *ssa.BasicBlock) (s string, eqWhen bool, ok bool) {
	op, x, y, isCmp := BinCmp(cond)
	if !isCmp || (op != token.EQL && op != token.NEQ) {
		return "", false, false
	}
	cs, isC := ConstString(y)
	el := x
	if !isC {
		cs, isC = ConstString(x)
		el = y
	}
	if !isC {
		return "", false, false
	}
	// el = *(&parts[idx])
	u, isU := el.(*ssa.UnOp)
	if !isU || u.Op != token.MUL {
		return "", false, false
	}
	ia, isIA := u.X.(*ssa.IndexAddr)
	if !isIA {
		return "", false, false
	}
	call, _, isCall := CallResult(ia.X)
	if !isCall || CalleeName(call.Common()) != "strings.Split" {
		return "", false, false
	}
	if sep, ok := ConstString(call.Call.Args[1]); !ok || sep != "." {
		return "", false, false
	}
	// index is len(parts)-1, or a constant k under a dominating len(parts)==k+1 test
	isLast := false
	if bo, ok := ia.Index.(*ssa.BinOp); ok && bo.Op == token.SUB {
		if k, ok := ConstInt(bo.Y); ok && k == 1 {
			if lc, ok := bo.X.(*ssa.Call); ok {
				if b, ok := lc.Call.Value.(*ssa.Builtin); ok && b.Name() == "len" && lc.Call.Args[0] == ia.X {
					isLast = true
				}
			}
		}
	}
	if k, ok := ConstInt(ia.Index); ok {
		pass := PassEdges(fn, func(cd ssa.Value) (bool, bool) {
			o, a, b, ok := BinCmp(cd)
			if !ok || o != token.EQL {
				return false, false
			}
			if n, ok := ConstInt(b); ok && n == k+1 {
				if lc, ok := a.(*ssa.Call); ok {
					if bi, ok := lc.Call.Value.(*ssa.Builtin); ok && bi.Name() == "len" && lc.Call.Args[0] == ia.X {
						return true, true
					}
				}
			}
			return false, false
		})
		if nonVacuous(pass) {
			if g, _ := Guarded(fn.Blocks[0], lastInstr(at), pass, nil); g {
				isLast = true
			}
		}
	}
	if !isLast {
		return "", false, false
	}
	return cs, op == token.EQL, true
}

// c11Stores decides R2 and returns the suffixes used by pattern allow sites (suffix -> position).
func c11Stores(c *Ctx, rg *ssa.Function) map[string]string {
	p := c.P
	suffixes := map[string]string{}
	// the sink: MapUpdate on the map that becomes GitFetcher.vals
	var sinks []*ssa.MapUpdate
	for _, b := range rg.Blocks {
		for _, in := range b.Instrs {
			mu, ok := in.(*ssa.MapUpdate)
			if !ok {
				continue
			}
			// the map flows into a store to field vals of GitFetcher
			isVals := false
			for _, r := range Referrers(mu.Map) {
				if st, ok := r.(*ssa.Store); ok {
					if fa, ok := st.Addr.(*ssa.FieldAddr); ok {
						if t, f := fieldAddrName(fa); t == "config.GitFetcher" && f == "vals" {
							isVals = true
						}
					}
				}
			}
			if isVals {
				sinks = append(sinks, mu)
			}
		}
	}
	if !c.AtLeast("R2", "stores into the configuration map", len(sinks), 1) {
		return suffixes
	}
	loops := Loops(rg)
	for _, sink := range sinks {
		l := LoopOf(loops, sink.Block())
		if l == nil {
			c.Undecided("R2", "store-outside-line-loop", p.InstrPos(sink), "configuration value stored outside the per-line loop")
			continue
		}
		key := sink.Key
		// justifying edges
		just := map[Edge]bool{}
		var justDesc []string
		for b := range l.Region {
			ifi, ok := lastInstr(b).(*ssa.If)
			if !ok {
				continue
			}
			for oi, outcome := range []bool{true, false} {
				for _, ic := range ImpliedConds(ifi.Cond, outcome) {
					cond := ic.Cond
					// (a) allow-list membership of this line's key: keyIsUnsafe(key) is false
					if call, ok := cond.(*ssa.Call); ok && CalleeName(&call.Call) == "config.keyIsUnsafe" {
						if SameValue(call.Call.Args[0], key) {
							if !ic.Val {
								just[Edge{b, oi}] = true
								justDesc = append(justDesc, "allow-list membership")
							}
						} else if oi == 0 {
							c.Bad("R2", "allow-list-tests-other-key", p.InstrPos(ifi), "the allow-list is consulted for a different value than the key being stored")
						}
						continue
					}
					// (b..d) last component equals an allowed suffix
					if s, eqWhen, ok := lastPartCompare(p, rg, cond, b); ok {
						// the split must be of this line's key
						u := cond.(*ssa.BinOp)
						var el ssa.Value = u.X
						if _, isC := ConstString(u.X); isC {
							el = u.Y
						}
						ia := el.(*ssa.UnOp).X.(*ssa.IndexAddr)
						call, _, _ := CallResult(ia.X)
						if !SameValue(call.Call.Args[0], key) {
							continue
						}
						if eqWhen == ic.Val {
							just[Edge{b, oi}] = true
							if _, seen := suffixes[s]; !seen {
								suffixes[s] = p.InstrPos(ifi)
							}
							justDesc = append(justDesc, "last component == "+s)
						}
					}
				}
			}
		}
		// only those suffix tests that matter are kept: a suffix test is an allow site when cutting it alone
		// (with all others open) changes reachability; computed below per suffix for R1.
		assume := func(v ssa.Value) (*ssa.Const, bool) {
			if IsLoadOfField(v, "git.ConfigurationSource", "OnlySafeKeys") {
				return ssa.NewConst(constant.MakeBool(true), v.Type()), true
			}
			return nil, false
		}
		reached := false
		// a test folded into a flag (`ignore := !allowed && keyIsUnsafe(key); if ignore`) is a φ at the branch; on
		// a given path it stands for one of its operands, against which the same justifications are matched
		oldHook := dynCutHook
		dynCutHook = func(b *ssa.BasicBlock, idx int, st PState) bool {
			ifi, ok := lastInstr(b).(*ssa.If)
			if !ok {
				return false
			}
			rc := ResolveCond(ifi.Cond, st, 0)
			if rc == ifi.Cond {
				return false
			}
			cond, flip := stripNot(rc)
			if call, ok := cond.(*ssa.Call); ok && CalleeName(&call.Call) == "config.keyIsUnsafe" && SameValue(call.Call.Args[0], key) {
				passWhen := false != flip // passes when keyIsUnsafe(key) is false
				return (idx == 0) == passWhen
			}
			return false
		}
		defer func() { dynCutHook = oldHook }()
		ExploreX(l.Body, nil, nil, nil, just, assume, func(in ssa.Instruction, st PState) bool {
			if in == ssa.Instruction(sink) {
				reached = true
				return false
			}
			// stay within one line: stop at the loop header
			if in.Block() == l.Header {
				return false
			}
			return true
		})
		sort.Strings(justDesc)
		c.Check(!reached, "R2", "restricted-line-store", p.InstrPos(sink),
			"with a restricted source a line is stored only through: "+strings.Join(justDesc, "; "),
			"with a restricted (.lfsconfig) source a line can be stored without its key having passed the allow-list or an allowed-suffix test on the same key (e.g. a flag set by an earlier line, or a branch that skips the suffix test): an undocumented key takes effect; recognised tests: "+strings.Join(justDesc, "; "))
		// which suffix tests are genuine allow sites: re-open one at a time
		for s := range suffixes {
			open := map[Edge]bool{}
			for e := range just {
				open[e] = true
			}
			// remove edges of suffix s from the cut set
			for b := range l.Region {
				ifi, ok := lastInstr(b).(*ssa.If)
				if !ok {
					continue
				}
				for _, outcome := range []bool{true, false} {
					for _, ic := range ImpliedConds(ifi.Cond, outcome) {
						if s2, _, ok := lastPartCompare(p, rg, ic.Cond, b); ok && s2 == s {
							delete(open, Edge{b, 0})
							delete(open, Edge{b, 1})
						}
					}
				}
			}
			r2 := false
			ExploreX(l.Body, nil, nil, nil, open, assume, func(in ssa.Instruction, st PState) bool {
				if in == ssa.Instruction(sink) {
					r2 = true
					return false
				}
				return in.Block() != l.Header
			})
			if !r2 {
				delete(suffixes, s) // comparing the suffix does not by itself allow the key
			}
		}
	}
	return suffixes
}

// c11Sources (R3): every ParseConfigLines call passes a constant; file/blob sources pass true.
func c11Sources(c *Ctx) {
	p := c.P
	n := 0
	for _, fn := range p.RepoFuncs(productPkg) {
		for _, ci := range CallsIn(fn, "git.ParseConfigLines") {
			n++
			a := ci.Common().Args
			// contexts: the call as written, or — when flag and arguments are parameters of a private helper
			// that is only called directly — one per call site of that helper
			type srcCtx struct {
				flag  ssa.Value
				subst map[*ssa.Parameter]ssa.Value
				at    string
			}
			ctxs := []srcCtx{{a[1], nil, ""}}
			if prm, ok := Unwrap(a[1]).(*ssa.Parameter); ok {
				if flags := p.callerArgs(prm); len(flags) > 0 {
					ctxs = nil
					for i, fv := range flags {
						sub := map[*ssa.Parameter]ssa.Value{}
						for _, q := range fn.Params {
							if qa := p.callerArgs(q); len(qa) == len(flags) {
								sub[q] = qa[i]
							}
						}
						at := ""
						if in, ok := fv.(ssa.Instruction); ok {
							at = "@" + FnName(in.Parent())
						} else if i < len(p.callSites[fn]) {
							at = fmt.Sprintf("@caller#%d", i)
						}
						ctxs = append(ctxs, srcCtx{fv, sub, at})
					}
				}
			}
			for ci2, cx := range ctxs {
				restricted, isConst := ConstBool(cx.flag)
				// where do the lines come from?
				fromFile := false
				plain := false
				for _, l := range p.LeavesNoFields(a[0], func(v ssa.Value) FlowAct {
					if call, _, ok := CallResult(v); ok && CalleeName(call.Common()) == "(*git.Configuration).gitConfig" {
						return Stop
					}
					return Descend
				}) {
					if call, _, ok := CallResult(l); ok && CalleeName(call.Common()) == "(*git.Configuration).gitConfig" {
						vecs, okv := ArgVectors(call.Call.Args[1])
						isFile := !okv || len(vecs) == 0
						for _, vec := range vecs {
							var flat []argSym
							for _, e := range vec {
								if q, isPrm := Unwrap(e.V).(*ssa.Parameter); isPrm && e.Spread && cx.subst != nil && cx.subst[q] != nil {
									sv, oks := ArgVectors(cx.subst[q])
									if !oks || len(sv) != 1 {
										isFile = true
										continue
									}
									flat = append(flat, sv[0]...)
									continue
								}
								flat = append(flat, e)
							}
							if len(flat) == 0 {
								isFile = true // argument list not visible here: assume it can name a file
							}
							for _, e := range flat {
								s, ok := ConstString(e.V)
								if e.Spread || !ok || s == "-f" || s == "--file" || s == "--blob" {
									isFile = true // a file/blob source, or an argument we cannot see
								}
							}
						}
						if isFile {
							fromFile = true
						} else {
							plain = true
						}
					} else {
						fromFile = true // unknown provenance: treat as repository supplied
					}
				}
				key := "ParseConfigLines@" + FnName(fn)
				if len(ctxs) > 1 {
					key += fmt.Sprintf("#%d", ci2)
				}
				switch {
				case !isConst:
					c.Undecided("R3", key, p.InstrPos(ci), "the restricted flag is not a constant")
				case fromFile && !restricted:
					c.Bad("R3", key, p.InstrPos(ci), "a configuration read from a file or blob (repository-supplied) is parsed as unrestricted: every key in .lfsconfig would take effect")
				case plain && !fromFile && !restricted:
					c.OK("R3", key, p.InstrPos(ci), "git's own configuration is the only unrestricted source")
				default:
					c.OK("R3", key, p.InstrPos(ci), "file/blob source is marked restricted")
				}
			}
		}
		// no other writer of the OnlySafeKeys field
		for _, b := range fn.Blocks {
			for _, in := range b.Instrs {
				if st, ok := in.(*ssa.Store); ok {
					if fa, ok := st.Addr.(*ssa.FieldAddr); ok {
						if t, f := fieldAddrName(fa); t == "git.ConfigurationSource" && f == "OnlySafeKeys" {
							c.Check(FnName(fn) == "git.ParseConfigLines", "R3", "OnlySafeKeys-writer:"+FnName(fn), p.InstrPos(in), "the restricted flag is set only by ParseConfigLines", "the restricted flag of a configuration source is written outside ParseConfigLines")
						}
					}
				}
			}
		}
	}
	c.AtLeast("R3", "ParseConfigLines call sites", n, 1)
	// the constant ".lfsconfig" reaches only (*git.Configuration).Sources
	nl := 0
	for _, fn := range p.RepoFuncs(productPkg) {
		for _, b := range fn.Blocks {
			for _, in := range b.Instrs {
				cc := AsCall(in)
				if cc == nil {
					continue
				}
				for _, a := range cc.Args {
					if s, ok := ConstString(a); ok && s == ".lfsconfig" {
						nl++
						c.Check(CalleeName(cc) == "(*git.Configuration).Sources", "R3", "lfsconfig-reader:"+FnName(fn), p.InstrPos(in), ".lfsconfig is read through Sources (restricted)", ".lfsconfig is handed to "+CalleeName(cc)+" instead of the restricted Sources reader")
					}
				}
			}
		}
	}
	c.AtLeast("R3", "readers of .lfsconfig", nl, 1)
}

// c11Order (R4): restricted sources come first, lookups return the last value, values appended in order.
func c11Order(c *Ctx, rg *ssa.Function) {
	p := c.P
	src := p.Fn("git", "(*Configuration).Sources")
	if src == nil {
		c.Missing("R4", "(*git.Configuration).Sources", "not found")
		return
	}
	for _, r := range ReturnsOf(src) {
		if IsNilConst(r.Results[0]) {
			continue
		}
		call, ok := r.Results[0].(*ssa.Call)
		good := false
		if ok {
			if b, isB := call.Call.Value.(*ssa.Builtin); isB && b.Name() == "append" {
				els := variadicElems(call.Call.Args[1])
				if len(els) == 1 {
					if cc, _, isRes := CallResult(els[0]); isRes && CalleeName(cc.Common()) == "(*git.Configuration).Source" {
						good = true
					}
				}
				// the prefix must not contain the unrestricted source
				for _, l := range p.LeavesNoFields(call.Call.Args[0], nil) {
					if cc, _, isRes := CallResult(l); isRes && CalleeName(cc.Common()) == "(*git.Configuration).Source" {
						good = false
					}
				}
			}
		}
		c.Check(good, "R4", "Sources:git-config-last", p.InstrPos(r), "git's own configuration is appended after the repository-supplied source", "Sources does not return git's own configuration as the last element: a .lfsconfig value could override git config")
	}
	get := p.Fn("config", "(*GitFetcher).Get")
	if get == nil {
		c.Missing("R4", "(*GitFetcher).Get", "not found")
	} else {
		good := false
		for _, r := range ReturnsOf(get) {
			if bv, ok := ConstBool(r.Results[1]); ok && !bv {
				continue
			}
			// all[len(all)-1]
			if u, ok := r.Results[0].(*ssa.UnOp); ok && u.Op == token.MUL {
				if ia, ok := u.X.(*ssa.IndexAddr); ok {
					if bo, ok := ia.Index.(*ssa.BinOp); ok && bo.Op == token.SUB {
						if k, ok := ConstInt(bo.Y); ok && k == 1 {
							if lc, ok := bo.X.(*ssa.Call); ok {
								if b, ok := lc.Call.Value.(*ssa.Builtin); ok && b.Name() == "len" && lc.Call.Args[0] == ia.X {
									good = true
								}
							}
						}
					}
				}
			}
		}
		c.Check(good, "R4", "Get:last-value-wins", p.Pos(get.Pos()), "lookup returns the last value recorded", "GitFetcher.Get does not return the last recorded value (git config would no longer win over .lfsconfig)")
	}
	// values are appended behind earlier ones: vals[key] = append(vals[key], val)
	for _, b := range rg.Blocks {
		for _, in := range b.Instrs {
			mu, ok := in.(*ssa.MapUpdate)
			if !ok {
				continue
			}
			call, ok := mu.Value.(*ssa.Call)
			if !ok {
				continue
			}
			if bi, ok := call.Call.Value.(*ssa.Builtin); !ok || bi.Name() != "append" {
				continue
			}
			lk, ok := call.Call.Args[0].(*ssa.Lookup)
			good := ok && lk.X == mu.Map && SameValue(lk.Index, mu.Key)
			if _, isStr := mu.Value.Type().Underlying().(interface{ Elem() interface{} }); isStr {
				_ = isStr
			}
			if short(mu.Value.Type().String()) == "[]string" {
				c.Check(good, "R4", "append-in-source-order", p.InstrPos(in), "values are appended behind those of earlier sources", "configuration values are not appended behind the existing ones for the same key")
			}
		}
	}
	// the sources are handed to readGitConfig in the order returned
	cfgFn := p.Fn("config", "(*Configuration).readGitConfig")
	if cfgFn != nil {
		for _, ci := range CallsIn(cfgFn, "config.readGitConfig") {
			arg := ci.Common().Args[0]
			_, isParam := Unwrap(arg).(*ssa.Parameter)
			c.Check(isParam, "R4", "readGitConfig-arg-order", p.InstrPos(ci), "sources passed on unchanged", "the source list is rebuilt before it is read")
		}
	}
}

// c11KeyIsUnsafe: the helper returns false exactly for members of safeKeys, compared with ==.
func c11KeyIsUnsafe(c *Ctx) {
	p := c.P
	fn := p.Fn("config", "keyIsUnsafe")
	if fn == nil {
		c.Missing("R6", "config.keyIsUnsafe", "not found")
		return
	}
	// every `return false` is dominated by the true edge of (elem == key) where elem ranges over safeKeys and key is the parameter
	for _, r := range ReturnsOf(fn) {
		bv, ok := ConstBool(r.Results[0])
		if !ok {
			// set form: `_, safe := safeKeys[key]; return !safe` — an exact lookup of the parameter in the table
			if un, isNot := r.Results[0].(*ssa.UnOp); isNot && un.Op == token.NOT {
				if ex, isEx := un.X.(*ssa.Extract); isEx && ex.Index == 1 {
					if lk, isLk := ex.Tuple.(*ssa.Lookup); isLk && lk.CommaOk {
						_, isPrm := Unwrap(lk.Index).(*ssa.Parameter)
						isTab := false
						if ld, isLd := lk.X.(*ssa.UnOp); isLd {
							if g, isG := ld.X.(*ssa.Global); isG && g.Name() == "safeKeys" {
								isTab = true
							}
						}
						c.Check(isPrm && isTab, "R6", "keyIsUnsafe:safe-only-by-exact-match", p.InstrPos(r), "a key is safe only when it is a member of the allow-list set", "keyIsUnsafe looks up something other than the key in something other than safeKeys")
						continue
					}
				}
			}
			// a computed verdict (`found := false; for … { if e == key { found = true; break } }; return !found`):
			// on every path that avoids the exact-match edge the result must evaluate to true (unsafe)
			pass := PassEdges(fn, c11ExactMatch(p))
			good, decided := true, true
			ExploreX(fn.Blocks[0], nil, nil, nil, EdgeSet(pass), nil, func(in ssa.Instruction, st PState) bool {
				if in != ssa.Instruction(r) {
					return true
				}
				if k, ok := EvalConst(r.Results[0], st); ok {
					if bv, isB := ConstBool(k); isB && !bv {
						good = false
					}
				} else {
					decided = false
				}
				return true
			})
			if !decided {
				c.Undecided("R6", "keyIsUnsafe:return", p.InstrPos(r), "non-constant result")
				continue
			}
			c.Check(good && nonVacuous(pass), "R6", "keyIsUnsafe:safe-only-by-exact-match", p.InstrPos(r), "a key is safe only when it equals an allow-list entry exactly", "keyIsUnsafe can report a key as safe without an exact match against safeKeys")
			continue
		}
		if bv {
			continue
		}
		pass := PassEdges(fn, c11ExactMatch(p))
		ok2, path := Guarded(fn.Blocks[0], r, pass, nil)
		c.Check(ok2 && nonVacuous(pass), "R6", "keyIsUnsafe:safe-only-by-exact-match", p.InstrPos(r), "a key is safe only when it equals an allow-list entry exactly", "keyIsUnsafe can report a key as safe without an exact match against safeKeys: "+path)
	}
	for _, ci := range CallsIn(fn, "strings.ToLower", "strings.EqualFold", "strings.HasPrefix", "strings.Contains", "strings.HasSuffix") {
		c.Bad("R6", "keyIsUnsafe:inexact-compare", p.InstrPos(ci), "the allow-list comparison uses "+CalleeName(ci.Common())+" instead of exact equality")
	}
}

var execCallees = []string{"subprocess.ExecCommand", "os/exec.Command", "subprocess.SimpleExec", "subprocess.BufferedExec", "subprocess.StdoutBufferedExec", "os/exec.CommandContext", "os/exec.LookPath", "subprocess.Output", "subprocess.Trace"}

// c11ExecKeys (R5): configuration keys whose value can become the *program* of an exec.
func c11ExecKeys(c *Ctx, safe []string, suffixes map[string]string) {
	p := c.P
	keys := map[string]string{}
	sites := 0
	for _, fn := range p.RepoFuncs(productPkg) {
		for _, ci := range CallsIn(fn, execCallees...) {
			a := ci.Common().Args
			if len(a) == 0 {
				continue
			}
			sites++
			prog := a[0]
			if _, isC := ConstString(prog); isC {
				continue
			}
			for _, l := range p.Leaves(prog, func(v ssa.Value) FlowAct {
				if cc, _, ok := CallResult(v); ok && isConfigGetter(CalleeName(cc.Common())) {
					return Stop
				}
				return Descend
			}) {
				cc, _, ok := CallResult(l)
				if !ok || !isConfigGetter(CalleeName(cc.Common())) {
					continue
				}
				var parts []string
				for _, x := range CallArgs(cc.Common())[1:] {
					if s, ok := ConstString(x); ok {
						parts = append(parts, s)
					} else if bt := short(x.Type().String()); bt == "string" {
						parts = append(parts, "*")
					}
				}
				k := strings.ToLower(strings.Join(parts, "."))
				if _, seen := keys[k]; !seen {
					keys[k] = p.InstrPos(ci)
				}
			}
		}
	}
	c.Stat("exec-sites", sites)
	var ks []string
	for k := range keys {
		ks = append(ks, k)
	}
	sort.Strings(ks)
	c.Note("configuration keys whose value can become the program of an exec: %s", strings.Join(ks, ", "))
	safeSet := map[string]bool{}
	for _, s := range safe {
		safeSet[s] = true
	}
	for _, k := range ks {
		bad := safeSet[k]
		last := k[strings.LastIndex(k, ".")+1:]
		if _, isSfx := suffixes[last]; isSfx && strings.Contains(k, "*") {
			bad = true
		}
		c.Check(!bad, "R5", "exec-key("+k+")", keys[k], "key that can name a program is outside the .lfsconfig allow-list", "a key whose value is executed as a program is honoured from .lfsconfig")
	}
	// frozen deny table: keys the property names explicitly
	for _, k := range []string{"core.sshcommand", "core.askpass", "credential.helper", "http.proxy", "https.proxy", "lfs.standalonetransferagent", "lfs.customtransfer", "url", "filter.lfs.clean", "filter.lfs.smudge", "filter.lfs.process", "lfs.ssh.automultiplex", "http.sslcert", "http.sslkey", "http.cookiefile", "lfs.tustransfers", "lfs.basictransfersonly", "remote.origin.url", "remote.origin.pushurl", "lfs.pruneremotetocheck"} {
		hit := false
		for _, s := range safe {
			if s == k || strings.HasPrefix(s, k+".") {
				hit = true
			}
		}
		c.Check(!hit, "R5", "deny("+k+")", "-", "not in the allow-list", "a key that the property forbids from .lfsconfig is in safeKeys")
	}
	c.AtLeast("R5", "exec sites inspected", sites, 10)
}

func isConfigGetter(n string) bool {
	switch n {
	case "(config.Environment).Get", "(config.Environment).GetAll", "(config.Environment).Bool", "(config.Environment).Int",
		"(*config.URLConfig).Get", "(*config.URLConfig).GetAll", "(*config.URLConfig).Bool", "(*config.environment).Get", "(*config.environment).GetAll",
		"(config.Fetcher).Get", "(config.Fetcher).GetAll", "(*config.GitFetcher).Get", "(*config.GitFetcher).GetAll", "(*config.OsFetcher).Get":
		return true
	}
	return false
}

var c11Canaries = []Canary{
	{Name: "r7-update-judges-lfsconfig-value", ExpectKey: "C11.R4#update:judges-effective-access-value", Edits: []Edit{{File: "commands/command_update.go", Find: "\tsetupRepository()\n\n\tlfsAccessRE := regexp.MustCompile(`\\Alfs\\.(.*)\\.access\\z`)\n\tfor key, _ := range cfg.Git.All() {\n\t\tmatches := lfsAccessRE.FindStringSubmatch(key)\n\t\tif len(matches) < 2 {\n\t\t\tcontinue\n\t\t}\n\n\t\tvalue, _ := cfg.Git.Get(key)\n\n\t\tswitch value {\n\t\tcase \"basic\":\n", Repl: "\tsetupRepository()\n\n\tlfsAccessRE := regexp.MustCompile(`\\Alfs\\.(.*)\\.access\\z`)\n\tfor key, values := range cfg.Git.All() {\n\t\tmatches := lfsAccessRE.FindStringSubmatch(key)\n\t\tif len(matches) < 2 || len(values) == 0 {\n\t\t\tcontinue\n\t\t}\n\n\t\tvalue := values[0]\n\n\t\tswitch value {\n\t\tcase \"basic\":\n"}}},
	{Name: "r7-priority-zero-dropped", ExpectKey: "C11.R4#extension-priority:zero-is-stored", Edits: []Edit{{File: "config/git_fetcher.go", Find: "import (\n\t\"fmt\"\n\t\"os\"\n\t\"strconv\"\n\t\"strings\"\n\t\"sync\"\n\n", Repl: "import (\n\t\"fmt\"\n\t\"os\"\n\t\"strings\"\n\t\"sync\"\n\n"}, {File: "config/git_fetcher.go", Find: "\t\t\t\t\text.Smudge = val\n\t\t\t\tcase \"priority\":\n\t\t\t\t\tallowed = true\n\t\t\t\t\tp, err := strconv.Atoi(val)\n\t\t\t\t\tif err == nil && p >= 0 {\n\t\t\t\t\t\text.Priority = p\n\t\t\t\t\t}\n\t\t\t\t}\n", Repl: "\t\t\t\t\text.Smudge = val\n\t\t\t\tcase \"priority\":\n\t\t\t\t\tallowed = true\n\t\t\t\t\t// Invalid values fall back to the default priority.\n\t\t\t\t\tif p := Int(val, 0); p > 0 {\n\t\t\t\t\t\text.Priority = p\n\t\t\t\t\t}\n\t\t\t\t}\n"}}},
	{Name: "r6-fetch-paths-first-value", ExpectKey: "C11.R2#fetch-paths:last-value-wins", Edits: []Edit{{File: "config/config.go", Find: "}\n\nfunc (c *Configuration) FetchIncludePaths() []string {\n\tpatterns, _ := c.Git.Get(\"lfs.fetchinclude\")\n\treturn tools.CleanPaths(patterns, \",\")\n}\n\nfunc (c *Configuration) FetchExcludePaths() []string {\n\tpatterns, _ := c.Git.Get(\"lfs.fetchexclude\")\n\treturn tools.CleanPaths(patterns, \",\")\n}\n\nfunc (c *Configuration) CurrentRef() *git.Ref {\n", Repl: "}\n\nfunc (c *Configuration) FetchIncludePaths() []string {\n\treturn c.fetchPaths(\"lfs.fetchinclude\")\n}\n\nfunc (c *Configuration) FetchExcludePaths() []string {\n\treturn c.fetchPaths(\"lfs.fetchexclude\")\n}\n\n// fetchPaths returns the cleaned path patterns of a comma-separated option,\n// which may be given more than once.\nfunc (c *Configuration) fetchPaths(key string) []string {\n\tvar paths []string\n\tfor _, patterns := range c.Git.GetAll(key) {\n\t\tpaths = append(paths, tools.CleanPaths(patterns, \",\")...)\n\t}\n\treturn paths\n}\n\nfunc (c *Configuration) CurrentRef() *git.Ref {\n"}}},
	{Name: "r5-extension-command-unrestricted", ExpectKey: "C11.R5#extension-command", Edits: []Edit{{File: "config/git_fetcher.go", Find: "\t\t\t\tcase \"clean\":\n\t\t\t\t\tif gc.OnlySafeKeys {\n\t\t\t\t\t\tignored = append(ignored, key)\n\t\t\t\t\t\tcontinue\n\t\t\t\t\t}\n\t\t\t\t\text.Clean = val", Repl: "\t\t\t\tcase \"clean\":\n\t\t\t\t\text.Clean = val"}}},
	{Name: "r4-duplicate-values-dropped", ExpectKey: "C11.R2#readGitConfig:every", Edits: []Edit{{File: "config/git_fetcher.go", Find: "\t\t\tvals[key] = append(vals[key], val)", Repl: "\t\t\tif len(vals[key]) > 0 && vals[key][len(vals[key])-1] == val {\n\t\t\t\tcontinue\n\t\t\t}\n\t\t\tvals[key] = append(vals[key], val)"}}},
	{Name: "add-unsafe-safe-key", ExpectKey: "C11.R1#safeKeys[\"lfs.standalonetransferagent\"]", Edits: []Edit{{File: "config/git_fetcher.go", Find: "	\"lfs.url\",\n}", Repl: "	\"lfs.url\",\n	\"lfs.standalonetransferagent\",\n}"}}},
	{Name: "revision-source-unrestricted", ExpectKey: "C11.R3", Edits: []Edit{{File: "git/config.go", Find: "	out, err := c.gitConfig(\"-l\", \"--blob\", revision)\n	if err != nil {\n		return nil, err\n	}\n	return ParseConfigLines(out, true), nil", Repl: "	out, err := c.gitConfig(\"-l\", \"--blob\", revision)\n	if err != nil {\n		return nil, err\n	}\n	return ParseConfigLines(out, false), nil"}}},
	{Name: "gitconfig-first", ExpectKey: "C11.R4", Edits: []Edit{{File: "git/config.go", Find: "	return append(configs, gitconfig), nil", Repl: "	return append([]*ConfigurationSource{gitconfig}, configs...), nil"}}},
	{Name: "get-first-value", ExpectKey: "C11.R4", Edits: []Edit{{File: "config/git_fetcher.go", Find: "	return all[len(all)-1], true", Repl: "	return all[0], true"}}},
	{Name: "allow-http-section", ExpectKey: "C11.R2", Edits: []Edit{{File: "config/git_fetcher.go", Find: "			} else if len(parts) > 2 && parts[len(parts)-1] == \"access\" {\n				allowed = true\n			}", Repl: "			} else if len(parts) > 2 && parts[len(parts)-1] == \"access\" {\n				allowed = true\n			} else if parts[0] == \"http\" {\n				allowed = true\n			}"}}},
	{Name: "sticky-allowed", ExpectKey: "C11.R2", Edits: []Edit{{File: "config/git_fetcher.go", Find: "		uniqKeys := make(map[string]string)\n\n		for _, line := range gc.Lines {", Repl: "		uniqKeys := make(map[string]string)\n		allowed := !gc.OnlySafeKeys\n\n		for _, line := range gc.Lines {"}, {File: "config/git_fetcher.go", Find: "			allowed := !gc.OnlySafeKeys\n\n			// We don't need", Repl: "			// We don't need"}}},
	{Name: "dotted-remote-bypass", ExpectKey: "C11.R2", Edits: []Edit{{File: "config/git_fetcher.go", Find: "				if gc.OnlySafeKeys && parts[len(parts)-1] != \"lfsurl\" {", Repl: "				if gc.OnlySafeKeys && (len(parts) == 3 && parts[2] != \"lfsurl\") {"}}},
	{Name: "case-insensitive-allow", ExpectKey: "C11.R6", Edits: []Edit{{File: "config/git_fetcher.go", Find: "		if safe == key {", Repl: "		if strings.HasPrefix(key, safe) {"}}},
	{Name: "customtransfer-key-unanchored", ExpectKey: "C11.R7#key-pattern-anchored:tq.configureCustomAdapters", Edits: []Edit{{File: "tq/custom.go", Find: "regexp.MustCompile(`\\Alfs\\.customtransfer\\.([^.]+)\\.path\\z`)", Repl: "regexp.MustCompile(`lfs\\.customtransfer\\.([^.]+)\\.path`)"}}},
	{Name: "alias-keys-by-prefix-only", ExpectKey: "C11.R7#key-pattern-anchored:lfsapi.initAliases", Edits: []Edit{{File: "lfsapi/endpoint_finder.go", Find: "		if strings.HasSuffix(gitkey, suffix) {\n			storeAlias(e.aliases, gitkey, gitval, suffix)\n		} else if strings.HasSuffix(gitkey, pushSuffix) {", Repl: "		if strings.Contains(gitkey, suffix) {\n			storeAlias(e.aliases, gitkey, gitval, suffix)\n		} else if strings.HasSuffix(gitkey, pushSuffix) {"}}},
	{Name: "undocumented-suffix", ExpectKey: "C11.R1", Edits: []Edit{{File: "config/git_fetcher.go", Find: "			} else if len(parts) > 2 && parts[len(parts)-1] == \"access\" {\n				allowed = true\n			}", Repl: "			} else if len(parts) > 2 && parts[len(parts)-1] == \"access\" {\n				allowed = true\n			} else if len(parts) > 2 && parts[len(parts)-1] == \"path\" {\n				allowed = true\n			}"}}},
}

// c11KeyEnumerations (R7): the allow sites admit whole families of keys by their last component
// (`*.access`, `remote.*.lfsurl`, ...). A consumer that walks over all configuration keys and recognises
// "its" keys by a pattern must therefore match the whole key: a pattern that is not anchored at its end
// also accepts `<its key>.access`, which a .lfsconfig may set — and the value is then used as if it were
// the value of the unsafe key (e.g. the program of a custom transfer agent).
func c11KeyEnumerations(c *Ctx, suffixes map[string]string) {
	p := c.P
	isAll := func(n string) bool { return strings.HasSuffix(n, ".All") }
	nSites := 0
	for _, fn := range p.RepoFuncs(productPkg) {
		if strings.HasPrefix(FnName(fn), "(*config.") && strings.HasSuffix(FnName(fn), ".All") || strings.HasPrefix(FnName(fn), "(config.") {
			continue // forwarding wrappers
		}
		for _, b := range fn.Blocks {
			for _, in := range b.Instrs {
				nx, ok := in.(*ssa.Next)
				if !ok || nx.IsString {
					continue
				}
				rg, ok := nx.Iter.(*ssa.Range)
				if !ok {
					continue
				}
				if short(rg.X.Type().String()) != "map[string][]string" {
					continue
				}
				fromAll := false
				for _, l := range p.LeavesNoFields(rg.X, func(v ssa.Value) FlowAct {
					if cc, _, ok := CallResult(v); ok && isAll(CalleeName(cc.Common())) {
						return Stop
					}
					return Descend
				}) {
					if cc, _, ok := CallResult(l); ok && isAll(CalleeName(cc.Common())) {
						fromAll = true
					}
				}
				if !fromAll {
					continue
				}
				// the key of this iteration
				var key ssa.Value
				for _, r := range Referrers(nx) {
					if ex, ok := r.(*ssa.Extract); ok && ex.Index == 1 {
						key = ex
					}
				}
				if key == nil {
					continue
				}
				nSites++
				name := FnName(fn)
				var prefixes, sufs []string
				nPat := 0
				for _, r := range Referrers(key) {
					cc := AsCall(r)
					if cc == nil {
						continue
					}
					cn := CalleeName(cc)
					args := CallArgs(cc)
					switch {
					case strings.HasPrefix(cn, "(*regexp.Regexp)."):
						if len(args) < 2 || Unwrap(args[1]) != key {
							continue
						}
						nPat++
						pats := c11PatternsOf(p, args[0])
						if len(pats) == 0 {
							c.Undecided("R7", "key-pattern:"+name, p.InstrPos(r), "cannot find the constant pattern the keys are matched against")
						}
						for _, pat := range pats {
							begin := strings.HasPrefix(pat, `\A`) || strings.HasPrefix(pat, "^")
							end := strings.HasSuffix(pat, `\z`) || strings.HasSuffix(pat, "$")
							c.Check(begin && end, "R7", "key-pattern-anchored:"+name, p.InstrPos(r), "configuration keys are matched as a whole (pattern anchored at both ends)",
								fmt.Sprintf("configuration keys are recognised with the unanchored pattern %q: it also accepts `<key>.%s`, which .lfsconfig may set (pattern allow site), and the value is then used as the value of the unsafe key itself", pat, firstKey(suffixes)))
						}
					case cn == "strings.HasPrefix" && len(args) == 2 && Unwrap(args[0]) == key:
						if s, ok := ConstString(args[1]); ok {
							prefixes = append(prefixes, s)
						} else {
							prefixes = append(prefixes, "?")
						}
					case cn == "strings.HasSuffix" && len(args) == 2 && Unwrap(args[0]) == key:
						if s, ok := ConstString(args[1]); ok {
							sufs = append(sufs, s)
						} else {
							sufs = append(sufs, "?")
						}
					case cn == "strings.Contains" && len(args) == 2 && Unwrap(args[0]) == key, cn == "strings.Index" && len(args) == 2 && Unwrap(args[0]) == key:
						nPat++
						c.Bad("R7", "key-pattern-anchored:"+name, p.InstrPos(r), "configuration keys are recognised by a substring test: `<key>."+firstKey(suffixes)+"` from .lfsconfig is accepted as well")
					}
				}
				if len(prefixes) > 0 {
					nPat++
					bad := ""
					for _, s := range sufs {
						t := strings.TrimPrefix(s, ".")
						if _, isSfx := suffixes[t]; isSfx {
							bad = s
						}
					}
					c.Check(len(sufs) > 0 && bad == "", "R7", "key-pattern-anchored:"+name, p.Pos(fn.Pos()), "keys selected by prefix are also tested for their ending",
						fmt.Sprintf("configuration keys are recognised by prefix %v only (suffix tests: %v): `<key>.%s` from .lfsconfig is accepted as well", prefixes, sufs, firstKey(suffixes)))
				}
				if nPat == 0 {
					c.Info("R7", "key-enumeration:"+name, p.InstrPos(in), "walks over all keys without pattern matching")
				}
			}
		}
	}
	c.AtLeast("R7", "functions walking over all configuration keys", nSites, 3)
}

func firstKey(m map[string]string) string {
	var ks []string
	for k := range m {
		ks = append(ks, k)
	}
	sort.Strings(ks)
	if len(ks) == 0 {
		return "access"
	}
	return ks[0]
}

// c11PatternsOf returns the constant pattern(s) a *regexp.Regexp value was compiled from; for a
// fmt.Sprintf-built pattern the format string (anchors are literal text of the format).
func c11PatternsOf(p *Prog, re ssa.Value) []string {
	var out []string
	for _, l := range p.Leaves(re, func(v ssa.Value) FlowAct {
		if cc, _, ok := CallResult(v); ok && strings.HasPrefix(CalleeName(cc.Common()), "regexp.") {
			return Stop
		}
		return Descend
	}) {
		cc, _, ok := CallResult(l)
		if !ok {
			if call, isCall := l.(*ssa.Call); isCall {
				cc = call
			} else {
				continue
			}
		}
		n := CalleeName(cc.Common())
		if n != "regexp.MustCompile" && n != "regexp.Compile" {
			continue
		}
		arg := cc.Common().Args[0]
		if s, ok := ConstString(arg); ok {
			out = append(out, s)
			continue
		}
		if sc, _, ok := CallResult(arg); ok && CalleeName(sc.Common()) == "fmt.Sprintf" {
			if s, ok := ConstString(sc.Common().Args[0]); ok {
				out = append(out, s)
			}
		} else if sc, ok := arg.(*ssa.Call); ok && CalleeName(&sc.Call) == "fmt.Sprintf" {
			if s, ok := ConstString(sc.Call.Args[0]); ok {
				out = append(out, s)
			}
		}
	}
	return out
}

// c11SSHDestination (R8): lfs.url may come from .lfsconfig, and for an ssh:// URL its user@host part becomes an
// argument of the ssh command. It must never be read by ssh as an option (`-oProxyCommand=…` executes a program):
// the destination is appended as it is only when the option-prefix test on the WHOLE user@host string is
// negative; otherwise `--` goes in front of it (OpenSSH) or the dashes are stripped (plink/tortoise). A test on a
// part of the string (the host behind the last '@') lets a user-info starting with '-' through.
func c11SSHDestination(c *Ctx) {
	p := c.P
	fn := p.Fn("ssh", "GetExeAndArgs")
	if fn == nil {
		c.Missing("R8", "ssh.GetExeAndArgs", "not found")
		return
	}
	isDest := func(v ssa.Value) bool {
		_, f, _, ok := FieldOf(v)
		return ok && f == "UserAndHost"
	}
	pass := PassEdges(fn, func(cond ssa.Value) (bool, bool) {
		cc, ok := cond.(*ssa.Call)
		if !ok || CalleeName(&cc.Call) != "(*regexp.Regexp).MatchString" {
			return false, false
		}
		args := CallArgs(&cc.Call)
		if len(args) == 2 && isDest(args[1]) {
			return false, true
		}
		return false, false
	})
	n := 0
	for _, b := range fn.Blocks {
		for _, in := range b.Instrs {
			call, ok := in.(*ssa.Call)
			if !ok {
				continue
			}
			bi, ok := call.Call.Value.(*ssa.Builtin)
			if !ok || bi.Name() != "append" || len(call.Call.Args) < 2 {
				continue
			}
			els := variadicOrdered(call.Call.Args[1])
			for i, e := range els {
				if e == nil || !isDest(e) {
					continue
				}
				n++
				sep := false
				for _, prev := range els[:i] {
					if s, isC := ConstString(prev); isC && s == "--" {
						sep = true
					}
				}
				if sep {
					c.OK("R8", fmt.Sprintf("ssh-destination#%d:after-separator", n), p.InstrPos(in), "`--` precedes the destination")
					continue
				}
				g, path := Guarded(fn.Blocks[0], in, pass, nil)
				c.Check(g && nonVacuous(pass), "R8", fmt.Sprintf("ssh-destination#%d:not-an-option", n), p.InstrPos(in), "the bare destination is passed only when the whole user@host string does not start with '-'",
					"the ssh destination (user@host from the LFS URL, which .lfsconfig may set) can reach the ssh command line without `--` although it starts with '-': `ssh://-oProxyCommand=…@host/` makes ssh execute a program: "+path)
			}
		}
	}
	c.AtLeast("R8", "places where the ssh destination is put on the command line", n, 2)
	if pats := globalRegexpPatterns(p, "ssh", "sshOptPrefixRE"); len(pats) == 1 {
		c.Check(pats[0] == `\A\-+` || pats[0] == `^-+` || pats[0] == `\A-+`, "R8", "ssh-option-prefix-pattern", "ssh/ssh.go", "the option prefix is one or more leading dashes", "the option-prefix pattern is "+pats[0]+", not `\\A\\-+`")
	} else {
		c.Missing("R8", "ssh.sshOptPrefixRE", "pattern not found as a constant")
	}
}

// globalRegexpPatterns returns the constant pattern(s) a package-level *regexp.Regexp variable is compiled from.
func globalRegexpPatterns(p *Prog, pkg, name string) []string {
	sp := p.Pkg(pkg)
	if sp == nil {
		return nil
	}
	g, ok := sp.Members[name].(*ssa.Global)
	if !ok {
		return nil
	}
	var out []string
	if init := sp.Func("init"); init != nil {
		for _, b := range init.Blocks {
			for _, in := range b.Instrs {
				if st, ok := in.(*ssa.Store); ok && st.Addr == ssa.Value(g) {
					if cc, _, isRes := CallResult(st.Val); isRes && strings.HasPrefix(CalleeName(cc.Common()), "regexp.") {
						if s, ok := ConstString(cc.Call.Args[0]); ok {
							out = append(out, s)
						}
					}
				}
			}
		}
	}
	return out
}

// c11ExactMatch matches `elem == key` with elem ranging over safeKeys and key a parameter.
func c11ExactMatch(p *Prog) CondMatch {
	return func(cond ssa.Value) (bool, bool) {
		op, x, y, ok := BinCmp(cond)
		if !ok || (op != token.EQL && op != token.NEQ) {
			return false, false
		}
		isKey := func(v ssa.Value) bool { _, ok := Unwrap(v).(*ssa.Parameter); return ok }
		isElem := func(v ssa.Value) bool {
			for _, l := range p.LeavesNoFields(v, nil) {
				if g, ok := l.(*ssa.Global); ok && g.Name() == "safeKeys" {
					return true
				}
			}
			return false
		}
		if isKey(x) && isElem(y) || isKey(y) && isElem(x) {
			return op == token.EQL, true
		}
		return false, false
	}
}
