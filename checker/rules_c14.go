package main

import (
	"fmt"
	"go/constant"
	"go/token"
	"go/types"
	"regexp"
	"sort"
	"strings"

	"golang.org/x/tools/go/ssa"
)

// C14 — filter-process speaks valid protocol, equals one-shot filters, delays complete.

func init() {
	register(&PropDef{
		ID:    "C14",
		Level: "other",
		Explanation: "Decides structural necessary conditions on the current source of `git lfs filter-process`: (R1) on every feasible path of one request (explored per command arm with constant tracking of the delayed flag) the filter emits exactly status · content · flush · status for clean and non-delayed smudge, exactly one status and no flush for a delayed smudge, and list · flush · status for list_available_blobs; delayedSmudge writes its status before any content and none when it delays; (R2) the final status is computed from the arm's error or the flush error; " +
			"(R3) the arms call the same clean/smudge implementation with the same arguments as the one-shot commands, and delayedSmudge mirrors smudge (pass-through of non-pointers, pointer back on skipped/excluded paths); (R4) a path is remembered only when delayed and forgotten only after a successful retrieval; (R5) each transfer queue gets a fresh once-guard, is waited for only through it, and the availability buffer closes its channel exactly once on every exit. Equality of outputs, liveness of the availability list and Git's client grammar are not decided; the handshake is pinned by the suite's scanner tests.",
		Assumptions: []string{
			"Git sends requests obeying its client grammar; a malformed packet stream is outside the property",
			"pkt-line writer/reader semantics of github.com/git-lfs/pktline",
		},
		Run:      runC14,
		Canaries: c14Canaries,
	})
}

var seqKey = ssa.NewConst(constant.MakeString("#seq"), types.Typ[types.String])

func seqOf(st PState) string {
	if c, ok := st[seqKey].(*ssa.Const); ok {
		return constant.StringVal(c.Value)
	}
	return ""
}

func seqAdd(st PState, s string) {
	st[seqKey] = ssa.NewConst(constant.MakeString(seqOf(st)+s), types.Typ[types.String])
}

func runC14(c *Ctx) {
	p := c.P
	// the available-blob list is fed by the transfer queue's watcher notifications: which path each notification
	// names is decided in package tq (C06.R8), shared here
	saved := c.RulePrefix
	c.RulePrefix = saved + "C06/"
	if m := newTQModel(c); m != nil {
		m.deliveries()
	}
	// a delayed blob whose download is retried later is announced only if the batch collector keeps running
	collectorLeavesOnlyWhenNothingIsOwed(c, "R2")
	c.RulePrefix = saved
	transferRecvChecked(c, "R3")
	requestHeaderVerbatim(c, "R1")
	filterStatusReportsCommandError(c, "R2")
	delayedPointersSurviveRounds(c, "R4")
	incomingPayloadWhole(c, "R1")
	notAPointerIsNotAnError(c, "R1")
	delayedPointerRememberedAsDecoded(c, "R4")
	fc := p.Fn("commands", "filterCommand")
	ds := p.Fn("commands", "delayedSmudge")
	if fc == nil || ds == nil {
		c.Missing("R1", "commands.filterCommand / commands.delayedSmudge", "not found")
		return
	}
	// ---- delayedSmudge summary -----------------------------------------------------------------
	var toPrm *ssa.Parameter
	for _, prm := range ds.Params {
		if short(prm.Type().String()) == "io.Writer" {
			toPrm = prm
		}
	}
	writesTo := func(in ssa.Instruction) bool {
		cc := AsCall(in)
		if cc == nil {
			return false
		}
		switch CalleeName(cc) {
		case "tools.Spool", "(*lfs.GitFilter).Smudge", "(*lfs.Pointer).Encode", "io.Copy", "(io.Writer).Write", "lfs.EncodePointer":
			for _, a := range cc.Args {
				if toPrm != nil && SameVar(a, toPrm) {
					return true
				}
			}
		}
		return false
	}
	type retSeq struct {
		r   *ssa.Return
		seq string
		st  PState
	}
	var rets []retSeq
	Explore(ds.Blocks[0], nil, nil, noReturnCommands, func(in ssa.Instruction, st PState) bool {
		if cc := AsCall(in); cc != nil && CalleeName(cc) == "(*git.FilterProcessScanner).WriteStatus" {
			seqAdd(st, "S")
		}
		if writesTo(in) {
			seqAdd(st, "W")
		}
		if r, ok := in.(*ssa.Return); ok {
			rets = append(rets, retSeq{r, seqOf(st), st.clone()})
			return false
		}
		return true
	})
	sort.Slice(rets, func(i, j int) bool { return rets[i].r.Pos() < rets[j].r.Pos() })
	nDelay, nNo := 0, 0
	for _, rs := range rets {
		comps := ResultComponents(rs.r) // a small result struct reads like separate results
		if len(comps) < 4 {
			c.Undecided("R1", "delayedSmudge:delayed-flag", p.InstrPos(rs.r), "unexpected result shape")
			continue
		}
		dv, ok := EvalConst(comps[1], rs.st)
		if !ok || dv.Value == nil || dv.Value.Kind() != constant.Bool {
			c.Undecided("R1", "delayedSmudge:delayed-flag", p.InstrPos(rs.r), "the delayed result is not a constant on this path")
			continue
		}
		delayed := constant.BoolVal(dv.Value)
		key := fmt.Sprintf("delayedSmudge:return(delayed=%v,seq=%q)", delayed, rs.seq)
		if delayed {
			nDelay++
			c.Check(rs.seq == "", "R1", key, p.InstrPos(rs.r), "a delayed smudge writes neither status nor content", "delayedSmudge reports delayed=true after having written a status or content: Git would see a malformed exchange")
			continue
		}
		nNo++
		if rs.seq == "" {
			// exception row: the object path could not be created (environment fault)
			errv := comps[3]
			isObjPath := false
			for _, l := range p.LeavesNoFields(errv, func(v ssa.Value) FlowAct {
				if cc, _, ok := CallResult(v); ok && CalleeName(cc.Common()) == "(*fs.Filesystem).ObjectPath" {
					return Stop
				}
				return Descend
			}) {
				if cc, _, ok := CallResult(l); ok && CalleeName(cc.Common()) == "(*fs.Filesystem).ObjectPath" {
					isObjPath = true
				}
			}
			if isObjPath {
				c.Info("R1", key+":exception", p.InstrPos(rs.r), "exception: directory creation for the object path failed (environment fault outside the property's quantifier)")
				continue
			}
			// a failed status write returns without content: fine (the stream is broken anyway)
			isStatusErr := false
			for _, l := range p.LeavesNoFields(errv, nil) {
				if cc, _, ok := CallResult(l); ok && CalleeName(cc.Common()) == "(*git.FilterProcessScanner).WriteStatus" {
					isStatusErr = true
				}
			}
			if isStatusErr {
				continue
			}
		}
		c.Check(regexp.MustCompile(`^SW?$`).MatchString(rs.seq), "R1", key, p.InstrPos(rs.r), "exactly one status, written before any content", "a non-delayed return of delayedSmudge has written "+fmt.Sprintf("%q", rs.seq)+" (S=status, W=content) instead of one status followed by content")
	}
	c.AtLeast("R1", "delayed returns of delayedSmudge", nDelay, 1)
	c.AtLeast("R1", "non-delayed returns of delayedSmudge", nNo, 3)

	// ---- filterCommand arms -------------------------------------------------------------------------
	loops := Loops(fc)
	var main *Loop
	for i := range loops {
		for _, in := range loops[i].Header.Instrs {
			if cc := AsCall(in); cc != nil && CalleeName(cc) == "(*git.FilterProcessScanner).Scan" {
				main = &loops[i]
			}
		}
		for _, pb := range loops[i].Header.Preds {
			_ = pb
		}
	}
	if main == nil {
		// `for s.Scan()` : the call is in the for.loop block
		for i := range loops {
			if loops[i].Kind == "for" {
				for _, in := range loops[i].Header.Instrs {
					if cc := AsCall(in); cc != nil && strings.HasSuffix(CalleeName(cc), ".Scan") {
						main = &loops[i]
					}
				}
			}
		}
	}
	if main == nil {
		c.Missing("R1", "request loop of filterCommand", "for s.Scan() loop not found")
		return
	}
	var dsCall *ssa.Call
	for _, ci := range CallsIn(fc, "commands.delayedSmudge") {
		dsCall, _ = ci.(*ssa.Call)
	}
	headerLookup := func(v ssa.Value, key string) bool {
		lk, ok := Unwrap(v).(*ssa.Lookup)
		if !ok {
			return false
		}
		k, isK := ConstString(lk.Index)
		return isK && k == key
	}
	type arm struct {
		name    string
		command string
		canDel  string // "1", "0", ""
		delayed string // "true","false",""
		want    *regexp.Regexp
	}
	arms := []arm{
		{"clean", "clean", "", "", regexp.MustCompile(`^SCFS$`)},
		{"smudge", "smudge", "0", "", regexp.MustCompile(`^SC?FS$`)},
		{"smudge-can-delay:delayed", "smudge", "1", "true", regexp.MustCompile(`^S$`)},
		{"smudge-can-delay:immediate", "smudge", "1", "false", regexp.MustCompile(`^SWFS$`)},
		{"list_available_blobs", "list_available_blobs", "", "", regexp.MustCompile(`^LFS$`)},
	}
	for _, a := range arms {
		assume := func(v ssa.Value) (*ssa.Const, bool) {
			if op, x, y, ok := BinCmp(v); ok && (op == token.EQL || op == token.NEQ) {
				if s, isC := ConstString(y); isC {
					if headerLookup(x, "command") {
						return boolConst((s == a.command) == (op == token.EQL), v.Type()), true
					}
					if headerLookup(x, "can-delay") && a.canDel != "" {
						return boolConst((s == a.canDel) == (op == token.EQL), v.Type()), true
					}
				}
			}
			if cc, idx, ok := CallResultFlat(v); ok && dsCall != nil && cc == dsCall && idx == 1 && a.delayed != "" && short(v.Type().String()) == "bool" {
				return boolConst(a.delayed == "true", v.Type()), true
			}
			return nil, false
		}
		seqs := map[string]string{}
		ExploreX(main.Body, nil, nil, noReturnCommands, nil, assume, func(in ssa.Instruction, st PState) bool {
			if in.Block() == main.Header {
				seqs[seqOf(st)] = p.InstrPos(in)
				return false
			}
			if _, ok := in.(*ssa.Return); ok {
				return false
			}
			cc := AsCall(in)
			if cc == nil {
				return true
			}
			switch CalleeName(cc) {
			case "(*git.FilterProcessScanner).WriteStatus":
				seqAdd(st, "S")
			case "(*github.com/git-lfs/pktline.PktlineWriter).Flush":
				seqAdd(st, "F")
			case "(*git.FilterProcessScanner).WriteList":
				seqAdd(st, "L")
			case "commands.clean", "commands.smudge":
				seqAdd(st, "C")
			case "commands.delayedSmudge":
				if a.delayed == "false" {
					seqAdd(st, "SW")
				}
			}
			return true
		})
		if len(seqs) == 0 {
			c.Bad("R1", "exchange:"+a.name, p.InstrPos(firstPositioned(main.Body)), "no feasible path handles this request kind")
			continue
		}
		var bad []string
		for s := range seqs {
			if !a.want.MatchString(s) {
				bad = append(bad, fmt.Sprintf("%q", s))
			}
		}
		sort.Strings(bad)
		c.Check(len(bad) == 0, "R1", "exchange:"+a.name, p.InstrPos(firstPositioned(main.Body)), "every path answers with "+a.want.String()+" (S=status, C/W=content, F=flush, L=list)",
			"for a "+a.name+" request some path emits "+strings.Join(bad, ", ")+" instead of "+a.want.String()+" (S=status, C/W=content, F=flush, L=list): Git would see a malformed status/content/status exchange")
	}

	// ---- R2 status derives from the arm's error / flush error -----------------------------------------
	// The statuses written after an arm ran ("final" statuses: those whose value is not the constant success) are
	// computed by statusFromErr / delayedStatusFromErr from an error that is the arm's error or the flush error,
	// and both of those errors reach some final status.
	{
		var finals []ssa.CallInstruction
		usesArm, usesFlush, good := false, false, true
		why := ""
		for _, ci := range CallsIn(fc, "(*git.FilterProcessScanner).WriteStatus") {
			arg := ci.Common().Args[len(ci.Common().Args)-1]
			constSuccess := false
			if cc, _, ok := CallResult(arg); ok && CalleeName(cc.Common()) == "commands.statusFromErr" && IsNilConst(cc.Call.Args[0]) {
				constSuccess = true // the initial status=success before the content
			}
			if constSuccess {
				continue
			}
			finals = append(finals, ci)
			for _, l := range p.LeavesNoFields(arg, func(v ssa.Value) FlowAct {
				if cc, _, ok := CallResult(v); ok && nameIn(CalleeName(cc.Common()), []string{"commands.statusFromErr", "commands.delayedStatusFromErr"}) {
					return Stop
				}
				return Descend
			}) {
				cc, _, ok := CallResult(l)
				if !ok || !nameIn(CalleeName(cc.Common()), []string{"commands.statusFromErr", "commands.delayedStatusFromErr"}) {
					good = false
					why = "a final status is " + describeValue(p, l) + ", not computed by statusFromErr/delayedStatusFromErr"
					continue
				}
				if IsNilConst(cc.Call.Args[0]) {
					good = false
					why = "one way of computing the final status ignores every error (status from a literal nil)"
				}
				for _, el := range p.LeavesNoFields(cc.Call.Args[0], func(v ssa.Value) FlowAct {
					if ec, _, ok := CallResult(v); ok && strings.HasPrefix(CalleeName(ec.Common()), "commands.") || ok && strings.HasSuffix(CalleeName(ec.Common()), ".Flush") {
						return Stop
					}
					return Descend
				}) {
					if IsNilConst(el) {
						// nil is what `err` holds before an arm assigns it; a status from a literal nil alone is checked below
						continue
					}
					if ec, _, ok := CallResult(el); ok {
						n := CalleeName(ec.Common())
						if strings.HasSuffix(n, ".Flush") {
							usesFlush = true
						} else if n == "commands.clean" || n == "commands.smudge" || n == "commands.delayedSmudge" || strings.HasSuffix(n, ".WriteList") || strings.HasPrefix(n, "commands.") {
							usesArm = true
						}
					}
				}
			}
		}
		if len(finals) == 0 {
			c.Bad("R2", "final-status", p.Pos(fc.Pos()), "cannot find the final WriteStatus whose argument depends on the outcome")
		} else {
			if good && !usesArm {
				good, why = false, "no final status is computed from the error of the clean/smudge/list arm"
			}
			if good && !usesFlush {
				good, why = false, "no final status is computed from the error of flushing the content"
			}
			c.Check(good, "R2", "final-status", p.InstrPos(finals[len(finals)-1]), "status computed from the delayed error, the flush error or the arm's error", "the final status is not computed from the arm's error / the flush error on every path (a failed request could be answered with status=success): "+why)
		}
	}

	// ---- R3 shared implementation ------------------------------------------------------------------------
	cleanCmd := p.Fn("commands", "cleanCommand")
	smudgeCmd := p.Fn("commands", "smudgeCommand")
	sizeArg := func(fn *ssa.Function) (int64, bool) {
		for _, ci := range CallsIn(fn, "commands.clean") {
			a := ci.Common().Args
			return ConstIntOK(a[len(a)-1])
		}
		return 0, false
	}
	if cleanCmd != nil {
		k1, ok1 := sizeArg(cleanCmd)
		k2, ok2 := sizeArg(fc)
		c.Check(ok1 && ok2 && k1 == k2 && k1 < 0, "R3", "clean:same-call-as-one-shot", p.Pos(fc.Pos()), "both call commands.clean with an unknown size (-1)", "filter-process and the one-shot clean filter call commands.clean with different size hints")
	} else {
		c.Missing("R3", "commands.cleanCommand", "not found")
	}
	if smudgeCmd != nil {
		c.Check(len(CallsIn(smudgeCmd, "commands.smudge")) >= 1 && len(CallsIn(fc, "commands.smudge")) >= 1, "R3", "smudge:same-implementation", p.Pos(fc.Pos()), "both call commands.smudge", "filter-process or the one-shot smudge filter no longer call commands.smudge")
		// skip flag: GIT_LFS_SKIP_SMUDGE consulted in both
		envIn := func(fn *ssa.Function) bool {
			for _, f := range WithAnon(fn) {
				for _, b := range f.Blocks {
					for _, in := range b.Instrs {
						if cc := AsCall(in); cc != nil {
							for _, a := range cc.Args {
								if s, ok := ConstString(a); ok && s == "GIT_LFS_SKIP_SMUDGE" {
									return true
								}
							}
						}
					}
				}
			}
			return false
		}
		c.Check(envIn(smudgeCmd) && envIn(fc), "R3", "smudge:skip-flag-source", p.Pos(fc.Pos()), "both honour GIT_LFS_SKIP_SMUDGE", "GIT_LFS_SKIP_SMUDGE is consulted by only one of filter-process and the one-shot smudge filter")
		// filter construction: both from FetchIncludePaths / FetchExcludePaths
		filterArgs := func(fn *ssa.Function) string {
			for _, ci := range CallsIn(fn, "filepathfilter.New") {
				var s []string
				for _, a := range ci.Common().Args[:2] {
					if cc, _, ok := CallResult(a); ok {
						s = append(s, CalleeName(cc.Common()))
					} else {
						s = append(s, "?")
					}
				}
				return strings.Join(s, ",")
			}
			return "none"
		}
		c.Check(filterArgs(smudgeCmd) == filterArgs(fc) && filterArgs(fc) != "none", "R3", "smudge:same-path-filter", p.Pos(fc.Pos()), "both build the include/exclude filter from the same configuration", "filter-process builds its include/exclude filter from "+filterArgs(fc)+" but the one-shot smudge from "+filterArgs(smudgeCmd))
	} else {
		c.Missing("R3", "commands.smudgeCommand", "not found")
	}
	// sibling cross-check smudge <-> delayedSmudge
	sm := p.Fn("commands", "smudge")
	if sm != nil {
		for _, callee := range []string{"lfs.DecodeFrom", "tools.Spool", "lfs.LinkOrCopyFromReference", "(*filepathfilter.Filter).Allows", "(*lfs.Pointer).Encode", "(*lfs.GitFilter).Smudge"} {
			a, b := len(CallsIn(sm, callee)) > 0, len(CallsIn(ds, callee)) > 0
			c.Check(a && b, "R3", "sibling:smudge~delayedSmudge:"+callee, p.Pos(ds.Pos()), "both variants use "+callee, "smudge and delayedSmudge disagree: only one of them calls "+callee+", so the same input is answered differently depending on can-delay")
		}
		// the pointer written on the excluded edge is encoded (canonical form) in both
		for _, fn := range []*ssa.Function{sm, ds} {
			for _, r := range ReturnsOf(fn) {
				_ = r
			}
		}
	}

	// ---- R4 delayed bookkeeping ---------------------------------------------------------------------------
	for _, b := range fc.Blocks {
		for _, in := range b.Instrs {
			if mu, ok := in.(*ssa.MapUpdate); ok && strings.Contains(short(mu.Map.Type().String()), "lfs.Pointer") {
				pass := PassEdges(fc, func(cond ssa.Value) (bool, bool) {
					if dsCall != nil {
						if cc, idx, ok := CallResultFlat(cond); ok && cc == dsCall && idx == 1 && short(cond.Type().String()) == "bool" {
							return true, true
						}
						if ResultOfCall(cond, dsCall, 1) {
							return true, true
						}
					}
					return false, false
				})
				g, path := Guarded(main.Body, in, pass, noReturnCommands)
				c.Check(g && nonVacuous(pass), "R4", "remember-only-when-delayed", p.InstrPos(in), "a path is remembered only when its smudge was delayed", "a path can be remembered as delayed although its smudge was answered immediately: "+path)
			}
			if cc := AsCall(in); cc != nil {
				if bi, ok := cc.Value.(*ssa.Builtin); ok && bi.Name() == "delete" && strings.Contains(short(cc.Args[0].Type().String()), "lfs.Pointer") {
					var smCall *ssa.Call
					for _, ci := range CallsIn(fc, "commands.smudge") {
						smCall, _ = ci.(*ssa.Call)
					}
					pass := PassEdges(fc, func(cond ssa.Value) (bool, bool) {
						e, trueMeansNil, ok := IsErrNilCheck(cond)
						if ok && smCall != nil && ResultOfCall(e, smCall, 1) {
							return trueMeansNil, true
						}
						return false, false
					})
					g, path := Guarded(main.Body, in, pass, noReturnCommands)
					c.Check(g && nonVacuous(pass), "R4", "forget-only-after-success", p.InstrPos(in), "a delayed path is forgotten only after its content was delivered without error", "a delayed path can be forgotten although delivering its content failed (it would never be announced again): "+path)
				}
			}
		}
	}

	// ---- R5 queue hand-off -----------------------------------------------------------------------------------
	nNew := 0
	for _, ci := range CallsIn(fc, "tq.NewTransferQueue") {
		nNew++
		// a fresh sync.Once is created in a block that dominates (or is) the creation block, after the q == nil test
		fresh := false
		for _, b := range fc.Blocks {
			for _, in := range b.Instrs {
				if al, ok := in.(*ssa.Alloc); ok && al.Heap && typeName(al.Type()) == "sync.Once" {
					if b == ci.Block() || b.Dominates(ci.Block()) && main.Region[b] {
						fresh = true
					}
				}
			}
		}
		c.Check(fresh, "R5", "fresh-once-per-queue", p.InstrPos(ci), "every new transfer queue gets a fresh once-guard for its Wait()", "a new transfer queue is created without a fresh sync.Once: after the first round the guard has already fired, so the new queue is never waited for — its batch is never flushed and list_available_blobs blocks for ever")
	}
	c.AtLeast("R5", "transfer queue creations in filterCommand", nNew, 1)
	for _, f := range WithAnon(fc) {
		for _, b := range f.Blocks {
			for _, in := range b.Instrs {
				if cc := AsCall(in); cc != nil && CalleeName(cc) == "(*tq.TransferQueue).Wait" {
					// inside a closure passed to (*sync.Once).Do
					okOnce := false
					if f.Parent() != nil {
						for _, pb := range f.Parent().Blocks {
							for _, pin := range pb.Instrs {
								if pc := AsCall(pin); pc != nil && CalleeName(pc) == "(*sync.Once).Do" {
									if mc, ok := pc.Args[1].(*ssa.MakeClosure); ok && mc.Fn == f {
										okOnce = true
									}
								}
							}
						}
					}
					c.Check(okOnce, "R5", "wait-only-through-once", p.InstrPos(in), "q.Wait() runs at most once per queue", "the transfer queue's Wait() is called outside the once-guard: a second list_available_blobs would close its channels twice (panic)")
				}
			}
		}
	}
	if itb := p.Fn("commands", "infiniteTransferBuffer"); itb != nil {
		good := true
		n := 0
		for _, e := range RunCount(CountQuery{Fn: itb, NoRet: noReturnCommands, Event: func(in ssa.Instruction) CSet {
			if cc := AsCall(in); cc != nil {
				if bi, ok := cc.Value.(*ssa.Builtin); ok && bi.Name() == "close" {
					return C1
				}
			}
			return C0
		}}) {
			if e.Kind != "return" {
				continue
			}
			n++
			// loops may make the static count 1 or more along back edges: the close is always followed by return
			if e.Set&C0 != 0 {
				good = false
			}
		}
		// every close is immediately followed by a return
		for _, b := range itb.Blocks {
			for i, in := range b.Instrs {
				if cc := AsCall(in); cc != nil {
					if bi, ok := cc.Value.(*ssa.Builtin); ok && bi.Name() == "close" {
						if _, isRet := b.Instrs[len(b.Instrs)-1].(*ssa.Return); !isRet || i > len(b.Instrs)-1 {
							good = false
						}
					}
				}
			}
		}
		c.Check(good && n > 0, "R5", "availability-channel-closed-once", p.Pos(itb.Pos()), "the availability channel is closed exactly once on every exit", "infiniteTransferBuffer can return without closing the availability channel (list_available_blobs would block), or keeps running after closing it")
	} else {
		c.Missing("R5", "commands.infiniteTransferBuffer", "not found")
	}
}

func ConstIntOK(v ssa.Value) (int64, bool) { return ConstInt(v) }

var c14Canaries = []Canary{
	{Name: "r7-delayed-pointer-copy", ExpectKey: "C14.R4#delayed:pointer-remembered-as-decoded", Edits: []Edit{{File: "commands/command_filter_process.go", Find: "\t\t\t\tn, delayed, ptr, err = delayedSmudge(gitfilter, s, w, req.Payload, q, req.Header[\"pathname\"], skip, filter)\n\n\t\t\t\tif delayed {\n\t\t\t\t\tptrs[req.Header[\"pathname\"]] = ptr\n\t\t\t\t}\n\t\t\t} else {\n\t\t\t\ts.WriteStatus(statusFromErr(nil))\n", Repl: "\t\t\t\tn, delayed, ptr, err = delayedSmudge(gitfilter, s, w, req.Payload, q, req.Header[\"pathname\"], skip, filter)\n\n\t\t\t\tif delayed {\n\t\t\t\t\t// Keep a private copy: the pointer handed to the\n\t\t\t\t\t// smudge code is modified while an object is read\n\t\t\t\t\t// back (its size is filled in), and all that is\n\t\t\t\t\t// needed to re-encode it later is the OID and size.\n\t\t\t\t\tptrs[req.Header[\"pathname\"]] = lfs.NewPointer(ptr.Oid, ptr.Size, nil)\n\t\t\t\t}\n\t\t\t} else {\n\t\t\t\ts.WriteStatus(statusFromErr(nil))\n"}}},
	{Name: "r6-availability-channel-closed-twice", ExpectKey: "C14.R5#availability-channel-closed-once", Edits: []Edit{{File: "commands/command_filter_process.go", Find: "\n\twatch := q.Watch()\n\n\t// pending is used to keep track of an ordered list of available\n\t// `*tq.Transfer`'s that cannot be written to \"available\" without\n\t// blocking.\n", Repl: "\n\twatch := q.Watch()\n\n\t// However we leave, \"available\" must be closed so that the reader in\n\t// list_available_blobs learns that the queue is done.\n\tdefer close(available)\n\n\t// pending is used to keep track of an ordered list of available\n\t// `*tq.Transfer`'s that cannot be written to \"available\" without\n\t// blocking.\n"}, {File: "commands/command_filter_process.go", Find: "\t\t\t\t// If watch is closed, the \"tq\" is done, and\n\t\t\t\t// there are no items on the buffer.  Return\n\t\t\t\t// immediately.\n\t\t\t\tclose(available)\n\t\t\t\treturn\n\t\t\t}\n\n", Repl: "\t\t\t\t// If watch is closed, the \"tq\" is done, and\n\t\t\t\t// there are no items on the buffer.  Return\n\t\t\t\t// immediately.\n\t\t\t\treturn\n\t\t\t}\n\n"}}},
	{Name: "r5-full-buffer-is-eof", ExpectKey: "C14.R1#incomingOrCached", Edits: []Edit{{File: "commands/command_filter_process.go", Find: "\tif err == io.EOF {\n\t\treturn bytes.NewReader(buf), nil\n\t}\n\treturn io.MultiReader(bytes.NewReader(buf), r), err", Repl: "\tif n < cap(buf) {\n\t\treturn bytes.NewReader(buf), nil\n\t}\n\treturn io.MultiReader(bytes.NewReader(buf), r), err"}}},
	{Name: "r4-header-trimmed", ExpectKey: "C14.R1#request-header", Edits: []Edit{{File: "git/filter_process_scanner.go", Find: "req.Header[v[0]] = v[1]", Repl: "req.Header[v[0]] = strings.TrimSpace(v[1])"}}},
	{Name: "clean-no-first-status", ExpectKey: "C14.R1#exchange:clean", Edits: []Edit{{File: "commands/command_filter_process.go", Find: "		case \"clean\":\n			s.WriteStatus(statusFromErr(nil))\n", Repl: "		case \"clean\":\n"}}},
	{Name: "status-after-content", ExpectKey: "C14.R1#delayedSmudge", Edits: []Edit{{File: "commands/command_smudge.go", Find: "		if err := s.WriteStatus(statusFromErr(nil)); err != nil {\n			return 0, false, nil, err\n		}\n\n		n, err := tools.Spool(to, pbuf, cfg.TempDir())\n		if err != nil {\n			return n, false, nil, errors.Wrap(err, perr.Error())\n		}", Repl: "		n, err := tools.Spool(to, pbuf, cfg.TempDir())\n		if err != nil {\n			return n, false, nil, errors.Wrap(err, perr.Error())\n		}\n		if err := s.WriteStatus(statusFromErr(nil)); err != nil {\n			return 0, false, nil, err\n		}"}}},
	{Name: "flush-twice", ExpectKey: "C14.R1#exchange", Edits: []Edit{{File: "commands/command_filter_process.go", Find: "			status = statusFromErr(err)\n		}\n\n		s.WriteStatus(status)", Repl: "			status = statusFromErr(err)\n			w.Flush()\n		}\n\n		s.WriteStatus(status)"}}},
	{Name: "delayed-writes-status", ExpectKey: "C14.R1#delayedSmudge", Edits: []Edit{{File: "commands/command_smudge.go", Find: "			q.Add(filename, path, ptr.Oid, ptr.Size, false, nil)\n			return 0, true, ptr, nil", Repl: "			q.Add(filename, path, ptr.Oid, ptr.Size, false, nil)\n			s.WriteStatus(statusFromErr(nil))\n			return 0, true, ptr, nil"}}},
	{Name: "delete-on-error", ExpectKey: "C14.R4#forget-only-after-success", Edits: []Edit{{File: "commands/command_filter_process.go", Find: "				if err == nil {\n					delete(ptrs, req.Header[\"pathname\"])\n				}", Repl: "				delete(ptrs, req.Header[\"pathname\"])"}}},
	{Name: "wait-without-once", ExpectKey: "C14.R5#wait-only-through-once", Edits: []Edit{{File: "commands/command_filter_process.go", Find: "			closeOnce.Do(func() {", Repl: "			go q.Wait()\n			closeOnce.Do(func() {"}}},
	{Name: "once-not-renewed", ExpectKey: "C14.R5#fresh-once-per-queue", Edits: []Edit{{File: "commands/command_filter_process.go", Find: "	var closeOnce *sync.Once\n", Repl: "	closeOnce := new(sync.Once)\n"}, {File: "commands/command_filter_process.go", Find: "				closeOnce = new(sync.Once)\n", Repl: ""}}},
	{Name: "delayed-skip-echoes-input", ExpectKey: "C14.R3#sibling", Edits: []Edit{{File: "commands/command_smudge.go", Find: "	if err := s.WriteStatus(statusFromErr(nil)); err != nil {\n		return 0, false, nil, err\n	}\n\n	n, err := ptr.Encode(to)\n	return int64(n), false, ptr, err", Repl: "	if err := s.WriteStatus(statusFromErr(nil)); err != nil {\n		return 0, false, nil, err\n	}\n\n	n, err := io.Copy(to, pbuf)\n	return n, false, ptr, err"}}},
	{Name: "status-ignores-error", ExpectKey: "C14.R2#final-status", Edits: []Edit{{File: "commands/command_filter_process.go", Find: "			status = statusFromErr(err)\n		}\n\n		s.WriteStatus(status)", Repl: "			status = statusFromErr(nil)\n		}\n\n		s.WriteStatus(status)"}}},
	{Name: "remember-always", ExpectKey: "C14.R4#remember-only-when-delayed", Edits: []Edit{{File: "commands/command_filter_process.go", Find: "				if delayed {\n					ptrs[req.Header[\"pathname\"]] = ptr\n				}", Repl: "				if delayed || ptr != nil {\n					ptrs[req.Header[\"pathname\"]] = ptr\n				}"}}},
}
