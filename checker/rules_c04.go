package main

import (
	"go/constant"
	"go/token"
	"go/types"
	"strings"

	"golang.org/x/tools/go/ssa"
)

// C04 — fetch, pull and checkout materialise exact content and never clobber edits.

func init() {
	register(&PropDef{
		ID:    "C04",
		Level: "other",
		Explanation: "Decides structural necessary conditions on the current source of fetch/pull/checkout/smudge: (R1) the working-tree write of pull/checkout is reachable only when the file at that very path decoded as a pointer with the same oid as the recorded one, or does not exist (and is not deleted in the index) — explored under assumed outcomes of the decode; the path that is inspected is the path that is written; (R2) only the checkout helper writes LFS content into the working tree; " +
			"(R3) the smudge filters download/materialise only when smudging is not skipped and the include/exclude filter allows the path, and emit the pointer otherwise; fetch/pull install the path filter before scanning; (R4) an object is left out of a fetch only when observed already, empty, or present locally with the recorded size (size-checked existence), and the existence test is size-exact; (R5) transfer errors make fetch/pull exit non-zero. Hash validity of downloaded objects is C02; pattern semantics and Git's own checkout are not decided.",
		Assumptions: []string{
			"lfs.DecodePointerFromFile returns an error for non-pointer content (decoder rules: C07)",
			"filepathfilter.Allows implements the documented include/exclude semantics",
		},
		Run:      runC04,
		Canaries: c04Canaries,
	})
}

func boolConst(b bool, t types.Type) *ssa.Const { return ssa.NewConst(constant.MakeBool(b), t) }

func runC04(c *Ctx) {
	p := c.P
	// shared rule: an object counts as present only together with its size (rules_c09.go)
	objectPresenceRule(c, "R6", getStoreFlow(p))
	// shared rule: history/tree scanners stop only at the end of their input (rules_c05.go)
	scannerVerdictRule(c, "R7")
	c04WaitingPaths(c)
	c04IncludeExclude(c)
	// shared rule: a skipped file gets its pointer text back (rules_round4.go)
	smudgeToFileRule(c, "R9")
	pathspecSeparatorRule(c, "R10")
	delayedPointersSurviveRounds(c, "R8")
	treeListingsCoverWholeTree(c, "R7")
	lsTreePathIsRemainder(c, "R7")
	smudgeFailureLeavesPointer(c, "R9")
	smudgeReadsLocalObjectOnlyAtPointerSize(c, "R6")
	pathListElementsTrimmed(c, "R3")
	checkoutScansTheResolvedCommit(c, "R7")
	run := p.Fn("commands", "(*singleCheckout).Run")
	if run == nil {
		c.Missing("R1", "(*singleCheckout).Run", "not found")
		return
	}
	// ---- R1 ------------------------------------------------------------------------------------
	var dec *ssa.Call
	for _, ci := range CallsIn(run, "lfs.DecodePointerFromFile") {
		dec, _ = ci.(*ssa.Call)
	}
	writes := CallsIn(run, "(*commands.singleCheckout).RunToPath")
	if dec == nil || len(writes) == 0 {
		c.Missing("R1", "DecodePointerFromFile / RunToPath in singleCheckout.Run", "not found")
	} else {
		w := writes[0]
		// same path inspected and written
		c.Check(SameValue(dec.Call.Args[0], w.Common().Args[2]), "R1", "checkout:inspects-the-path-it-writes", p.InstrPos(dec), "the file examined is the file that will be overwritten",
			"the pre-overwrite check examines a different path than the one that is written (e.g. the repository-relative name instead of the path relative to the current directory): from a sub-directory a locally edited file is overwritten")
		var ptrPrm *ssa.Parameter
		for _, prm := range run.Params {
			if short(prm.Type().String()) == "*lfs.WrappedPointer" {
				ptrPrm = prm
			}
		}
		isDecErr := func(v ssa.Value) bool { return ResultOfCall(v, dec, 1) }
		isDecPtr := func(v ssa.Value) bool { return ResultOfCall(v, dec, 0) }
		scenario := func(name string, decodeFails, notExist, oidDiffers bool, desc string) {
			assume := func(v ssa.Value) (*ssa.Const, bool) {
				if e, trueMeansNil, ok := IsErrNilCheck(v); ok {
					if isDecErr(e) {
						return boolConst(trueMeansNil != decodeFails, v.Type()), true
					}
					if isDecPtr(e) {
						// filepointer != nil  <=> decode succeeded
						return boolConst(trueMeansNil == decodeFails, v.Type()), true
					}
				}
				if cc, ok := v.(*ssa.Call); ok && CalleeName(&cc.Call) == "os.IsNotExist" && isDecErr(cc.Call.Args[0]) {
					return boolConst(notExist, v.Type()), true
				}
				if op, x, y, ok := BinCmp(v); ok && (op == token.NEQ || op == token.EQL) {
					_, f1, b1, ok1 := FieldOf(x)
					_, f2, b2, ok2 := FieldOf(y)
					if ok1 && ok2 && f1 == "Oid" && f2 == "Oid" {
						a, b := isDecPtr(b1), isDecPtr(b2)
						if a != b {
							// comparison of the file's pointer with the recorded pointer
							other := b2
							if b {
								other = b1
							}
							_ = other
							return boolConst((op == token.NEQ) == oidDiffers, v.Type()), true
						}
					}
				}
				return nil, false
			}
			reached := false
			ExploreX(dec.Block(), dec, nil, noReturnCommands, nil, assume, func(in ssa.Instruction, st PState) bool {
				if in == ssa.Instruction(w) {
					reached = true
					return false
				}
				return true
			})
			c.Check(!reached, "R1", "checkout:no-write-when:"+name, p.InstrPos(w), "the working-tree file is left alone when "+desc, "pull/checkout can overwrite the working-tree file although "+desc)
		}
		scenario("not-a-pointer", true, false, false, "its content does not decode as a pointer (user content)")
		scenario("other-pointer", false, false, true, "it is a pointer to a different object than the one recorded")
		_ = ptrPrm
		// the comparison really is on Oid of the decoded pointer vs the recorded one
		cmpOK := false
		for _, b := range run.Blocks {
			if ifi, ok := lastInstr(b).(*ssa.If); ok {
				cond, _ := stripNot(ifi.Cond)
				if op, x, y, ok := BinCmp(cond); ok && (op == token.NEQ || op == token.EQL) {
					_, f1, b1, ok1 := FieldOf(x)
					_, f2, b2, ok2 := FieldOf(y)
					if ok1 && ok2 && f1 == "Oid" && f2 == "Oid" && (isDecPtr(b1) != isDecPtr(b2)) {
						cmpOK = true
					}
				}
			}
		}
		c.Check(cmpOK, "R1", "checkout:compares-oid", p.Pos(run.Pos()), "the file's pointer is compared with the recorded pointer by oid", "singleCheckout.Run does not compare the oid of the pointer in the working tree with the recorded oid")
	}

	// ---- R2 who writes the working tree ----------------------------------------------------------
	for _, tgt := range []struct {
		callee  string
		allowed []string
	}{
		{"(*lfs.GitFilter).SmudgeToFile", []string{"(*commands.singleCheckout).RunToPath"}},
		{"(*commands.singleCheckout).RunToPath", []string{"(*commands.singleCheckout).Run", "commands.checkoutConflict"}},
	} {
		n := 0
		for _, fn := range p.RepoFuncs(productPkg) {
			for _, ci := range CallsIn(fn, tgt.callee) {
				n++
				root := fn
				for root.Parent() != nil {
					root = root.Parent()
				}
				c.Check(nameIn(FnName(root), tgt.allowed), "R2", "caller-of:"+tgt.callee+":"+FnName(root), p.InstrPos(ci), "known caller", tgt.callee+" is called from a function that does not perform the pre-overwrite check")
			}
		}
		// interface dispatch (abstractCheckout.RunToPath)
		for _, fn := range p.RepoFuncs(productPkg) {
			for _, ci := range CallsIn(fn, "(commands.abstractCheckout).RunToPath") {
				root := fn
				for root.Parent() != nil {
					root = root.Parent()
				}
				c.Check(nameIn(FnName(root), []string{"commands.checkoutConflict"}), "R2", "iface-caller-of:RunToPath:"+FnName(root), p.InstrPos(ci), "explicit `checkout --to <path>`", "RunToPath is invoked through the interface from an unexpected function")
			}
		}
		c.AtLeast("R2", "callers of "+tgt.callee, n, 1)
	}

	c04Filter(c)
	c04Skip(c)
	c04Errors(c)
	// shared with C02: fetch/pull leave a hash-valid object only if the download adapters do
	c.RulePrefix = "C02/"
	runC02(c)
	c.RulePrefix = ""
}

// c04Filter (R3)
func c04Filter(c *Ctx) {
	p := c.P
	for _, name := range []string{"smudge", "delayedSmudge"} {
		fn := p.Fn("commands", name)
		if fn == nil {
			c.Missing("R3", "commands."+name, "not found")
			continue
		}
		var skip, filter *ssa.Parameter
		for _, prm := range fn.Params {
			switch {
			case prm.Name() == "skip":
				skip = prm
			case short(prm.Type().String()) == "*filepathfilter.Filter":
				filter = prm
			}
		}
		passSkip := PassEdges(fn, func(cond ssa.Value) (bool, bool) {
			if skip != nil && cond == ssa.Value(skip) {
				return false, true
			}
			return false, false
		})
		passAllow := PassEdges(fn, func(cond ssa.Value) (bool, bool) {
			if cc, ok := cond.(*ssa.Call); ok && CalleeName(&cc.Call) == "(*filepathfilter.Filter).Allows" && filter != nil && cc.Call.Args[0] == ssa.Value(filter) {
				return true, true
			}
			return false, false
		})
		n := 0
		for _, ci := range CallsIn(fn, "(*lfs.GitFilter).Smudge", "(*tq.TransferQueue).Add") {
			n++
			g1, p1 := Guarded(fn.Blocks[0], ci, passSkip, noReturnCommands)
			g2, p2 := Guarded(fn.Blocks[0], ci, passAllow, noReturnCommands)
			c.Check(g1 && nonVacuous(passSkip), "R3", name+":"+CalleeName(ci.Common())+":not-skipped", p.InstrPos(ci), "content is materialised only when smudging is not skipped", "content can be downloaded/materialised although smudging is skipped: "+p1)
			c.Check(g2 && nonVacuous(passAllow), "R3", name+":"+CalleeName(ci.Common())+":filter-allows", p.InstrPos(ci), "content is materialised only for paths the include/exclude filter allows", "content can be downloaded/materialised for a path the include/exclude filter excludes: "+p2)
		}
		c.AtLeast("R3", "materialising calls in "+name, n, 1)
		// the other edge writes the decoded pointer
		enc := CallsIn(fn, "(*lfs.Pointer).Encode")
		c.Check(len(enc) >= 1, "R3", name+":excluded-keeps-pointer", p.Pos(fn.Pos()), "a skipped/excluded path gets its pointer back", name+" has no branch that writes the pointer for a skipped or excluded path")
		for _, e := range enc {
			var dcall *ssa.Call
			for _, ci := range CallsIn(fn, "lfs.DecodeFrom") {
				dcall, _ = ci.(*ssa.Call)
			}
			if dcall != nil {
				c.Check(ResultOfCall(e.Common().Args[0], dcall, 0), "R3", name+":pointer-is-the-decoded-one", p.InstrPos(e), "the pointer written is the one decoded from the input", "the pointer written back is not the one decoded from the input")
			}
		}
	}
	// fetch / pull install the filter before scanning
	type fs struct{ pkg, fn, scan string }
	for _, x := range []fs{{"commands", "pull", "(*lfs.GitScanner).ScanLFSFiles"}, {"commands", "pointersToFetchForRef", "(*lfs.GitScanner).ScanTree"}} {
		fn := p.Fn(x.pkg, x.fn)
		if fn == nil {
			c.Missing("R3", x.fn, "not found")
			continue
		}
		var filter *ssa.Parameter
		for _, prm := range fn.Params {
			if short(prm.Type().String()) == "*filepathfilter.Filter" {
				filter = prm
			}
		}
		var store *ssa.Store
		for _, b := range fn.Blocks {
			for _, in := range b.Instrs {
				if st, ok := in.(*ssa.Store); ok {
					if fa, ok := st.Addr.(*ssa.FieldAddr); ok {
						if t, f := fieldAddrName(fa); t == "lfs.GitScanner" && f == "Filter" && filter != nil && SameVar(st.Val, filter) {
							store = st
						}
					}
				}
			}
		}
		scans := CallsIn(fn, x.scan)
		good := store != nil && len(scans) > 0
		for _, s := range scans {
			if store == nil || !(store.Block().Dominates(s.Block()) && (store.Block() != s.Block() || InstrIndex(store) < InstrIndex(s))) {
				good = false
			}
		}
		c.Check(good, "R3", x.fn+":filter-before-scan", p.Pos(fn.Pos()), "the include/exclude filter is installed on the scanner before the scan", "the scan runs without (or before) the include/exclude filter being installed: excluded paths would be fetched / checked out")
	}
}

// c04Skip (R4)
func c04Skip(c *Ctx) {
	p := c.P
	fn := p.Fn("commands", "pointersToFetch")
	if fn == nil {
		c.Missing("R4", "commands.pointersToFetch", "not found")
		return
	}
	n := 0
	for _, b := range fn.Blocks {
		for _, in := range b.Instrs {
			if !isAppendOf(in, "lfs.WrappedPointer") {
				continue
			}
			n++
			for _, dc := range decidingConds(fn, b) {
				desc := describeCond(dc.Cond)
				allowed := false
				switch x := dc.Cond.(type) {
				case *ssa.Call:
					switch CalleeName(&x.Call) {
					case "(*commands.fetchWatcher).hasObserved":
						allowed = true
					case "(*config.Configuration).LFSObjectExists":
						_, f1, b1, ok1 := FieldOf(x.Call.Args[1])
						_, f2, b2, ok2 := FieldOf(x.Call.Args[2])
						allowed = ok1 && ok2 && f1 == "Oid" && f2 == "Size" && SamePath(b1, b2)
						if !allowed {
							desc += " (not called with p.Oid, p.Size of the same pointer)"
						}
					}
				case *ssa.BinOp:
					if _, f, _, ok := FieldOf(x.X); ok && f == "Size" {
						if k, isK := ConstInt(x.Y); isK && k == 0 {
							allowed = true
						}
					}
					if _, _, ok := IsErrNilCheck(x); ok {
						if _, isPrm := Unwrap(x.X).(*ssa.Parameter); isPrm { // watcher != nil
							allowed = true
						}
					}
				case *ssa.UnOp:
					if g, ok := x.X.(*ssa.Global); ok && g.Name() == "fetchRefetchArg" {
						allowed = true
					}
				}
				c.Check(allowed, "R4", "pointersToFetch:skip-condition:"+desc, p.InstrPos(dc.If), "documented reason not to fetch", "an object can be left out of a fetch for a reason other than: already observed, empty, or present locally with the recorded size ("+desc+")")
			}
		}
	}
	c.AtLeast("R4", "appends in pointersToFetch", n, 1)
	// existence test is size-exact
	if oe := p.Fn("fs", "(*Filesystem).ObjectExists"); oe != nil {
		good := false
		for _, r := range ReturnsOf(oe) {
			if cc, _, ok := CallResult(r.Results[0]); ok && CalleeName(cc.Common()) == "tools.FileExistsOfSize" {
				if SameVar(cc.Call.Args[1], oe.Params[2]) {
					if pc, _, ok := CallResult(cc.Call.Args[0]); ok && CalleeName(pc.Common()) == "(*fs.Filesystem).ObjectPathname" && SameVar(pc.Call.Args[1], oe.Params[1]) {
						good = true
					}
				}
			}
		}
		c.Check(good, "R4", "ObjectExists:size-checked", p.Pos(oe.Pos()), "an object exists when a file of exactly the recorded size is at its path", "ObjectExists does not check the file at the object's path against the recorded size")
	} else {
		c.Missing("R4", "(*fs.Filesystem).ObjectExists", "not found")
	}
	if fe := p.Fn("tools", "FileExistsOfSize"); fe != nil {
		good := false
		for _, b := range fe.Blocks {
			for _, in := range b.Instrs {
				if bo, ok := in.(*ssa.BinOp); ok && bo.Op == token.EQL {
					isSz := func(v ssa.Value) bool {
						cc, _, ok := CallResult(v)
						return ok && strings.HasSuffix(CalleeName(cc.Common()), "FileInfo).Size")
					}
					isPrm := func(v ssa.Value) bool { _, ok := Unwrap(v).(*ssa.Parameter); return ok }
					if isSz(bo.X) && isPrm(bo.Y) || isSz(bo.Y) && isPrm(bo.X) {
						good = true
					}
				}
			}
		}
		c.Check(good, "R4", "FileExistsOfSize:exact", p.Pos(fe.Pos()), "size compared for equality", "FileExistsOfSize does not compare the file size for equality with the expected size")
	}
	// pull: checkout-without-download only when the object exists with the right size
	pull := p.Fn("commands", "pull")
	if pull != nil {
		for _, af := range pull.AnonFuncs {
			for _, ci := range CallsIn(af, "(commands.abstractCheckout).Run", "(*commands.singleCheckout).Run") {
				conds := decidingConds(af, ci.Block())
				has := false
				for _, dc := range conds {
					if cc, ok := dc.Cond.(*ssa.Call); ok && CalleeName(&cc.Call) == "(*config.Configuration).LFSObjectExists" && dc.Want {
						_, f1, b1, ok1 := FieldOf(cc.Call.Args[1])
						_, f2, b2, ok2 := FieldOf(cc.Call.Args[2])
						if ok1 && ok2 && f1 == "Oid" && f2 == "Size" && SamePath(b1, b2) {
							has = true
						}
					}
				}
				if LoopOf(Loops(af), ci.Block()) != nil {
					continue // the post-download checkout loop
				}
				c.Check(has, "R4", "pull:checkout-without-download", p.InstrPos(ci), "a file is checked out without downloading only when its object exists locally with the recorded size", "pull checks a file out without download although the object's presence/size was not established")
			}
		}
	}
}

// c04Errors (R5)
func c04Errors(c *Ctx) {
	p := c.P
	fetch := p.Fn("commands", "fetch")
	if fetch == nil {
		c.Missing("R5", "commands.fetch", "not found")
	} else {
		// the bool returned is false once the loop over q.Errors() ran
		good := false
		for _, r := range ReturnsOf(fetch) {
			for _, v := range ReturnValues(r, 0) {
				if okPhiFalseInErrorsLoop(p, fetch, v) {
					good = true
				}
			}
		}
		c.Check(good, "R5", "fetch:false-on-queue-errors", p.Pos(fetch.Pos()), "fetch reports failure when the queue reported errors", "fetch's result is not forced to false when the transfer queue reports errors")
	}
	for _, name := range []string{"fetchCommand", "pull"} {
		fn := p.Fn("commands", name)
		if fn == nil {
			c.Missing("R5", "commands."+name, "not found")
			continue
		}
		// an Exit call guarded by the false edge of a success flag
		good := false
		for _, ex := range CallsIn(fn, "commands.Exit", "os.Exit") {
			for _, dc := range decidingConds(fn, ex.Block()) {
				if ph, ok := dc.Cond.(*ssa.Phi); ok && !dc.Want {
					if name == "pull" {
						// whatever the flag is called: it is false once the loop over q.Errors() ran
						if okPhiFalseInErrorsLoop(p, fn, ph) {
							good = true
						}
					} else if ph.Comment == "success" || ph.Comment == "ok" {
						good = true
					}
				}
				// or the test is on the error list itself: len(q.Errors()) > 0
				if op, x, y, ok := BinCmp(dc.Cond); ok && name == "pull" {
					if lc, isCall := x.(*ssa.Call); isCall {
						if bi, isB := lc.Call.Value.(*ssa.Builtin); isB && bi.Name() == "len" && ResultOfCallNamed(lc.Call.Args[0], "(*tq.TransferQueue).Errors") {
							if k, isK := ConstInt(y); isK && k == 0 && ((op == token.GTR || op == token.NEQ) == dc.Want) && (op == token.GTR || op == token.NEQ || op == token.EQL || op == token.LEQ) {
								good = true
							}
						}
					}
				}
				if al, ok := dc.Cond.(*ssa.UnOp); ok && !dc.Want {
					if a, ok := al.X.(*ssa.Alloc); ok && a.Comment == "success" {
						good = true
					}
				}
			}
		}
		c.Check(good, "R5", name+":exit-on-failure", p.Pos(fn.Pos()), "the command exits non-zero when a transfer failed", name+" does not exit non-zero when the success flag is false")
	}
	// every result of fetch*/ is folded into the success flag in fetchCommand
	if fc := p.Fn("commands", "fetchCommand"); fc != nil {
		for _, ci := range CallsIn(fc, "commands.fetchRef", "commands.fetchRefs", "commands.fetchAll", "commands.fetchRecent") {
			call := ci.(*ssa.Call)
			used := len(Referrers(call)) > 0
			c.Check(used, "R5", "fetchCommand:uses-result-of:"+CalleeName(call.Common()), p.InstrPos(ci), "result folded into the success flag", "the result of "+CalleeName(call.Common())+" is discarded")
			// a failure is sticky: once this call has answered false, every feasible way to the end of the command
			// leaves through the failure exit — whatever later calls (including later iterations of this one) answer
			escaped := ""
			init := PState{call: boolConst(false, call.Type())}
			ExploreX(nil, call, init, noReturnCommands, nil, nil, func(in ssa.Instruction, st PState) bool {
				if r, ok := in.(*ssa.Return); ok && r.Block().Comment != "recover" {
					escaped = p.InstrPos(r)
					return false
				}
				return escaped == ""
			})
			c.Check(escaped == "", "R5", "fetchCommand:failure-is-sticky:"+CalleeName(call.Common()), p.InstrPos(ci), "after a failed fetch the command always ends in the failure exit",
				"after "+CalleeName(call.Common())+" reported a failure the command can still end normally ("+escaped+"): the result overwrites the success flag instead of being and-ed into it, so a later success hides the failure and the command exits 0 with objects missing")
		}
	}
}

// okPhiFalseInErrorsLoop: v is a φ (or chain) that receives the constant false from inside a loop
// ranging over (*TransferQueue).Errors().
func okPhiFalseInErrorsLoop(p *Prog, fn *ssa.Function, v ssa.Value) bool {
	seen := map[ssa.Value]bool{}
	var walk func(v ssa.Value) bool
	walk = func(v ssa.Value) bool {
		if seen[v] {
			return false
		}
		seen[v] = true
		ph, ok := v.(*ssa.Phi)
		if !ok {
			return false
		}
		for i, e := range ph.Edges {
			if bv, isC := ConstBool(e); isC && !bv {
				pred := ph.Block().Preds[i]
				for _, l := range Loops(fn) {
					if l.Region[pred] || pred == l.Body {
						if ro := l.RangedOperand(); ro != nil && ResultOfCallNamed(ro, "(*tq.TransferQueue).Errors") {
							return true
						}
					}
				}
			}
			if walk(e) {
				return true
			}
		}
		return false
	}
	return walk(v)
}

var c04Canaries = []Canary{
	{Name: "r7-scan-by-ref-name", ExpectKey: "C04.R7#scan-lfs-files:by-object-id", Edits: []Edit{{File: "commands/command_checkout.go", Find: "\n\tchgitscanner.Filter = filepathfilter.New(rootedPaths(args), nil, filepathfilter.GitIgnore)\n\n\tif err := chgitscanner.ScanLFSFiles(ref.Sha, nil); err != nil {\n\t\tExitWithError(err)\n\t}\n\n", Repl: "\n\tchgitscanner.Filter = filepathfilter.New(rootedPaths(args), nil, filepathfilter.GitIgnore)\n\n\tif err := chgitscanner.ScanLFSFiles(ref.Name, nil); err != nil {\n\t\tExitWithError(err)\n\t}\n\n"}, {File: "commands/command_pull.go", Find: "\t}()\n\n\tprocessQueue := time.Now()\n\tif err := gitscanner.ScanLFSFiles(ref.Sha, nil); err != nil {\n\t\tsingleCheckout.Close()\n\t\tExitWithError(err)\n\t}\n", Repl: "\t}()\n\n\tprocessQueue := time.Now()\n\ttracerx.Printf(\"pull: scanning %s for LFS files\", ref.Name)\n\tif err := gitscanner.ScanLFSFiles(ref.Name, nil); err != nil {\n\t\tsingleCheckout.Close()\n\t\tExitWithError(err)\n\t}\n"}}},
	{Name: "r7-path-list-not-trimmed", ExpectKey: "C04.R3#CleanPaths:each-element-trimmed", Edits: []Edit{{File: "tools/filetools.go", Find: "\t\treturn\n\t}\n\n\tfor _, part := range strings.Split(paths, delim) {\n\t\tpart = strings.TrimSpace(part)\n\n\t\t// Remove trailing `/` or `\\`, but only the first one.\n\t\tfor _, sep := range []string{`/`, `\\`} {\n\t\t\tif strings.HasSuffix(part, sep) {\n", Repl: "\t\treturn\n\t}\n\n\t// (paths has been trimmed above, so the parts need no trimming of their\n\t// own.)\n\tfor _, part := range strings.Split(paths, delim) {\n\t\t// Remove trailing `/` or `\\`, but only the first one.\n\t\tfor _, sep := range []string{`/`, `\\`} {\n\t\t\tif strings.HasSuffix(part, sep) {\n"}}},
	{Name: "r6-ls-tree-split-at-every-tab", ExpectKey: "C04.R7#ls-tree:path-is-everything-after-first-tab", Edits: []Edit{{File: "git/ls_tree_scanner.go", Find: "func (s *LsTreeScanner) next() (*TreeBlob, bool) {\n\thasNext := s.s.Scan()\n\tline := s.s.Text()\n\tparts := strings.SplitN(line, \"\\t\", 2)\n\tif len(parts) < 2 {\n\t\treturn nil, hasNext\n\t}\n\n\tattrs := strings.SplitN(parts[0], \" \", 4)\n\tif len(attrs) < 4 {\n\t\treturn nil, hasNext\n\t}\n\n\tmode, err := strconv.ParseInt(strings.TrimSpace(attrs[0]), 8, 32)\n\tif err != nil {\n\t\treturn nil, hasNext\n\t}\n", Repl: "func (s *LsTreeScanner) next() (*TreeBlob, bool) {\n\thasNext := s.s.Scan()\n\tline := s.s.Text()\n\t// <mode> SP <type> SP <object> SP <padded size> TAB <file>\n\tparts := strings.Split(line, \"\\t\")\n\tif len(parts) < 2 {\n\t\treturn nil, hasNext\n\t}\n\n\tattrs := strings.Fields(parts[0])\n\tif len(attrs) < 4 {\n\t\treturn nil, hasNext\n\t}\n\n\tmode, err := strconv.ParseInt(attrs[0], 8, 32)\n\tif err != nil {\n\t\treturn nil, hasNext\n\t}\n"}, {File: "git/ls_tree_scanner.go", Find: "\t\treturn nil, hasNext\n\t}\n\n\tsz, err := strconv.ParseInt(strings.TrimSpace(attrs[3]), 10, 64)\n\tif err != nil {\n\t\treturn nil, hasNext\n\t}\n", Repl: "\t\treturn nil, hasNext\n\t}\n\n\tsz, err := strconv.ParseInt(attrs[3], 10, 64)\n\tif err != nil {\n\t\treturn nil, hasNext\n\t}\n"}}},
	{Name: "r5-delayed-pointers-reset", ExpectKey: "C04.R8", Edits: []Edit{{File: "commands/command_filter_process.go", Find: "\t\t\t\tq = nil\n", Repl: "\t\t\t\tq = nil\n\t\t\t\tptrs = make(map[string]*lfs.Pointer)\n"}}},
	{Name: "r4-no-pathspec-separator", ExpectKey: "C04.R10", Edits: []Edit{{File: "git/git.go", Find: "\targs = append(args, \"--\")\n\targs = append(args, paths...)", Repl: "\targs = append(args, paths...)"}}},
	{Name: "r4-declined-leaves-empty-file", ExpectKey: "C04.R9", Edits: []Edit{{File: "lfs/gitfilter_smudge.go", Find: "\t\t\tfile.Seek(0, io.SeekStart)\n\t\t\tptr.Encode(file)\n\t\t\treturn err", Repl: "\t\t\treturn err"}}},
	{Name: "inspect-wrong-path", ExpectKey: "C04.R1#checkout:inspects-the-path-it-writes", Edits: []Edit{{File: "commands/pull.go", Find: "	filepointer, err := lfs.DecodePointerFromFile(cwdfilepath)", Repl: "	filepointer, err := lfs.DecodePointerFromFile(p.Name)"}}},
	{Name: "overwrite-non-pointer", ExpectKey: "C04.R1#checkout:no-write-when:not-a-pointer", Edits: []Edit{{File: "commands/pull.go", Find: "			if errors.IsNotAPointerError(err) || errors.IsBadPointerKeyError(err) {\n				// File has non-pointer content, leave it alone\n				return\n			}\n\n			LoggedError(err, tr.Tr.Get(\"Checkout error: %s\", err))\n			return", Repl: "			if errors.IsBadPointerKeyError(err) {\n				// File has non-pointer content, leave it alone\n				return\n			}\n\n			if !errors.IsNotAPointerError(err) {\n				LoggedError(err, tr.Tr.Get(\"Checkout error: %s\", err))\n				return\n			}"}}},
	{Name: "compare-size-not-oid", ExpectKey: "C04.R1", Edits: []Edit{{File: "commands/pull.go", Find: "	if filepointer != nil && filepointer.Oid != p.Oid {", Repl: "	if filepointer != nil && filepointer.Size != p.Size {"}}},
	{Name: "smudge-before-filter", ExpectKey: "C04.R3#smudge", Edits: []Edit{{File: "commands/command_smudge.go", Find: "	if skip || !filter.Allows(filename) {\n		n, err := ptr.Encode(to)\n		return int64(n), err\n	}", Repl: "	if skip {\n		n, err := ptr.Encode(to)\n		return int64(n), err\n	}"}}},
	{Name: "delayed-ignores-skip", ExpectKey: "C04.R3#delayedSmudge", Edits: []Edit{{File: "commands/command_smudge.go", Find: "	if !skip && filter.Allows(filename) {", Repl: "	if filter.Allows(filename) {"}}},
	{Name: "exists-ignores-size", ExpectKey: "C04.R4#ObjectExists", Edits: []Edit{{File: "fs/fs.go", Find: "	return tools.FileExistsOfSize(f.ObjectPathname(oid), size)", Repl: "	return tools.FileExists(f.ObjectPathname(oid))"}}},
	{Name: "fetch-skips-small", ExpectKey: "C04.R4#pointersToFetch:skip-condition", Edits: []Edit{{File: "commands/command_fetch.go", Find: "		if p.Size == 0 {\n			continue\n		}\n\n		// no need to download objects that exist locally already, unless", Repl: "		if p.Size == 0 || len(p.Name) == 0 {\n			continue\n		}\n\n		// no need to download objects that exist locally already, unless"}}},
	{Name: "fetch-ok-despite-errors", ExpectKey: "C04.R5#fetch:false-on-queue-errors", Edits: []Edit{{File: "commands/command_fetch.go", Find: "	ok := true\n	for _, err := range q.Errors() {\n		ok = false\n		FullError(err)\n	}", Repl: "	ok := true\n	for _, err := range q.Errors() {\n		FullError(err)\n	}"}}},
	{Name: "pull-no-filter", ExpectKey: "C04.R3#pull:filter-before-scan", Edits: []Edit{{File: "commands/command_pull.go", Find: "	gitscanner.Filter = filter\n", Repl: "	_ = filter\n"}}},
	{Name: "new-worktree-writer", ExpectKey: "C04.R2", Edits: []Edit{{File: "commands/command_pull.go", Find: "		if pointers.Seen(p) {\n			return\n		}", Repl: "		if pointers.Seen(p) {\n			lfs.NewGitFilter(cfg).SmudgeToFile(p.Name, p.Pointer, false, nil, nil)\n			return\n		}"}}},
}

// c04WaitingPaths (R8): `git lfs pull` checks a path out at once when its object is local, queues the download
// for the first path of a missing object, and parks further paths with the same OID behind it (pointerMap.Seen
// answers true only while an entry for the OID exists). When the download finishes the watcher takes all parked
// paths (pointerMap.All) and checks them out. All must therefore remove the entry: otherwise every later path
// with that OID is parked behind a download that is already over and is never materialised, although pull exits 0.
func c04WaitingPaths(c *Ctx) {
	p := c.P
	all := p.Fn("commands", "(*pointerMap).All")
	seen := p.Fn("commands", "(*pointerMap).Seen")
	if all == nil || seen == nil {
		c.Missing("R8", "(*commands.pointerMap).All / Seen", "not found")
		return
	}
	var oid *ssa.Parameter
	for _, prm := range all.Params {
		if short(prm.Type().String()) == "string" {
			oid = prm
		}
	}
	isDelete := func(in ssa.Instruction) bool {
		cc := AsCall(in)
		if cc == nil {
			return false
		}
		bi, ok := cc.Value.(*ssa.Builtin)
		if !ok || bi.Name() != "delete" || len(cc.Args) != 2 {
			return false
		}
		if _, f, _, ok := FieldOf(cc.Args[0]); !ok || f != "pointers" {
			return false
		}
		return oid != nil && Unwrap(cc.Args[1]) == ssa.Value(oid)
	}
	good := true
	for _, ex := range RunCount(CountQuery{Fn: all, Event: func(in ssa.Instruction) CSet {
		if isDelete(in) {
			return C1
		}
		return 0
	}}) {
		if ex.Kind == "return" && ex.Instr.Block().Comment != "recover" && ex.Set&C0 != 0 {
			good = false
		}
	}
	c.Check(good, "R8", "All-removes-the-entry", p.Pos(all.Pos()), "taking the parked paths of an OID removes its entry",
		"pointerMap.All hands out the paths waiting for an OID without removing the entry: Seen keeps answering `download in flight` for that OID, so a later path with the same content is parked for ever and never checked out (pull still exits 0)")
	// Seen answers true only when an entry exists (and parks the path there)
	pass := PassEdges(seen, func(cond ssa.Value) (bool, bool) {
		if ex, ok := cond.(*ssa.Extract); ok && ex.Index == 1 {
			if lk, ok := ex.Tuple.(*ssa.Lookup); ok && lk.CommaOk {
				if _, f, _, isF := FieldOf(lk.X); isF && f == "pointers" {
					return true, true
				}
			}
		}
		return false, false
	})
	for _, r := range ReturnsOf(seen) {
		for _, v := range ReturnValues(r, 0) {
			if bv, isC := ConstBool(v); isC && bv {
				g, path := Guarded(seen.Blocks[0], r, pass, nil)
				c.Check(g && nonVacuous(pass), "R8", "Seen-true-only-for-entry", p.InstrPos(r), "a path is parked only behind an existing entry", "pointerMap.Seen can report a download in flight without an entry for the OID: the path is neither queued nor checked out: "+path)
			}
		}
	}
}

// c04IncludeExclude (R3, option/config merge): -I replaces lfs.fetchinclude and -X replaces lfs.fetchexclude,
// each on its own: giving only one of the flags must leave the other side's configured list in force. Decided on
// the merge function: the configured include list is consulted under a condition on the include argument only
// (and the use-config switch), likewise for exclude.
func c04IncludeExclude(c *Ctx) {
	p := c.P
	fn := p.Fn("commands", "determineIncludeExcludePaths")
	if fn == nil {
		c.Missing("R3", "commands.determineIncludeExcludePaths", "not found")
		return
	}
	var incArg, excArg *ssa.Parameter
	for _, prm := range fn.Params {
		switch prm.Name() {
		case "includeArg":
			incArg = prm
		case "excludeArg":
			excArg = prm
		}
	}
	for _, side := range []struct {
		getter string
		own    *ssa.Parameter
		other  *ssa.Parameter
		name   string
	}{
		{"(*config.Configuration).FetchIncludePaths", incArg, excArg, "include"},
		{"(*config.Configuration).FetchExcludePaths", excArg, incArg, "exclude"},
	} {
		calls := CallsIn(fn, side.getter)
		if len(calls) == 0 || side.own == nil || side.other == nil {
			c.Bad("R3", "configured-"+side.name+"-consulted", p.Pos(fn.Pos()), "the configured "+side.name+" paths are never consulted (or the flag parameters were not found)")
			continue
		}
		for _, ci := range calls {
			bad := ""
			ownTested := false
			for _, dc := range decidingConds(fn, ci.Block()) {
				for _, l := range p.LeavesNoFields(dc.Cond, nil) {
					if l == ssa.Value(side.other) {
						bad = describeCond(dc.Cond)
					}
					if l == ssa.Value(side.own) {
						ownTested = true
					}
				}
			}
			c.Check(bad == "" && ownTested, "R3", "configured-"+side.name+"-independent-of-other-flag", p.InstrPos(ci), "lfs.fetch"+side.name+" applies whenever its own flag is absent",
				"whether the configured "+side.name+" paths apply depends on the OTHER flag ("+bad+"): giving only -I (or only -X) silently drops the configured list of the other side, so excluded paths are downloaded and materialised")
		}
	}
}
