package main

import _ "embed"

// inventoryJSON is the frozen name inventory used by norm.go (regenerate: lfscheck -mk-inventory > inventory.json).
//
//go:embed inventory.json
var inventoryJSON []byte
