package main

import (
	"fmt"
	"go/token"
	"sort"
	"strings"

	"golang.org/x/tools/go/ssa"
)

// C09 — killing git-lfs at any instant never leaves a bad object in local storage.

func init() {
	register(&PropDef{
		ID:    "C09",
		Level: "other",
		Explanation: "Static analysis cannot enumerate crash points; it decides the structural reason the property can hold, program-wide over every file-system-mutating call site of the product packages (classified by the provenance of the target argument, with object-store provenance propagated through parameters to a fix-point): (R1) no in-place writer (Create, OpenFile for writing, WriteFile, Truncate, clone-into) ever targets a final object path — a file appears there only through rename/link at the enumerated publish sites; " +
			"(R2) before each such publish the content copy's error was checked and the temp file closed; (R3) temp files are never created inside the object store (their directory derives from the temp/incomplete areas); (R4) fsck moves corrupt objects aside by rename into <storage>/bad and tolerates an already-moved object on re-run; deletions of object paths happen only in prune and in smudge's wrong-size removal; (R5) stale-temp cleanup removes only paths below the temp dir. Rename atomicity on the host file system, power loss and idempotence in general are not decided.",
		Assumptions: []string{
			"os.Rename / os.Link are atomic with respect to process kill on the host file system",
			"a SIGKILL between a completed write+close and the rename leaves only the temp file behind",
		},
		Run:           runC09,
		CrossPlatform: runC09,
		Canaries:      c09Canaries,
	})
}

var storePathCallees = []string{"(*fs.Filesystem).ObjectPath", "(*fs.Filesystem).ObjectPathname", "(*lfs.GitFilter).ObjectPath", "(*fs.Filesystem).localObjectDir", "(*fs.Filesystem).LFSObjectDir", "(*config.Configuration).LFSObjectDir"}
var storePathFields = []string{"tq.Transfer.Path", "tq.objectTuple.Path", "fs.Object.Path"}
var tempCreators = []string{"tools.TempFile", "os.CreateTemp", "lfs.TempFile", "os.MkdirTemp"}

type storeFlow struct {
	p      *Prog
	params map[*ssa.Parameter]bool
	depth  int
}

// isStore: v may denote a path inside the object store.
func (s *storeFlow) isStore(v ssa.Value) bool {
	found := false
	s.p.LeavesNoFields(v, func(x ssa.Value) FlowAct {
		if cc, _, ok := CallResult(x); ok && nameIn(CalleeName(cc.Common()), storePathCallees) {
			found = true
			return Stop
		}
		if t, f, _, ok := FieldOf(x); ok && nameIn(t+"."+f, storePathFields) {
			found = true
			return Stop
		}
		if prm, ok := x.(*ssa.Parameter); ok && s.params[prm] {
			found = true
			return Stop
		}
		// do not follow into temp-file names: a temp file's name is not a store path even if its pattern mentions an oid
		if cc, _, ok := CallResult(x); ok && nameIn(CalleeName(cc.Common()), tempCreators) {
			return Stop
		}
		return Descend
	})
	return found
}

// isTempName: v derives from the name of a file created by a temp creator (or a path the agent reported).
func (s *storeFlow) isTempName(v ssa.Value) bool {
	found := false
	s.p.LeavesNoFields(v, func(x ssa.Value) FlowAct {
		if cc, _, ok := CallResult(x); ok && nameIn(CalleeName(cc.Common()), tempCreators) {
			found = true
			return Stop
		}
		if cc, _, ok := CallResult(x); ok && (strings.HasSuffix(CalleeName(cc.Common()), ").tempDir") || CalleeName(cc.Common()) == "(*tq.basicDownloadAdapter).downloadFilename") {
			found = true
			return Stop
		}
		if t, f, _, ok := FieldOf(x); ok && (t+"."+f == "lfs.cleanedAsset.Filename" || t+"."+f == "tq.customAdapterResponseMessage.Path") {
			found = true
			return Stop
		}
		if prm, ok := x.(*ssa.Parameter); ok && short(prm.Type().String()) == "*os.File" && s.depth < 2 {
			// a file handed in by the caller: every caller must pass a temp file
			fn := prm.Parent()
			idx := -1
			for i, q := range fn.Params {
				if q == prm {
					idx = i
				}
			}
			n, all := 0, true
			s.depth++
			for _, caller := range s.p.RepoFuncs(productPkg) {
				for _, b := range caller.Blocks {
					for _, in := range b.Instrs {
						if cc := AsCall(in); cc != nil && cc.StaticCallee() == fn && idx < len(cc.Args) {
							if caller == fn && Unwrap(cc.Args[idx]) == ssa.Value(prm) {
								continue // recursion passing the same file on
							}
							n++
							if !s.isTempName(cc.Args[idx]) {
								all = false
							}
						}
					}
				}
			}
			s.depth--
			if n > 0 && all {
				found = true
			}
			return Stop
		}
		return Descend
	})
	return found
}

func (s *storeFlow) propagate() {
	s.params = map[*ssa.Parameter]bool{}
	for iter := 0; iter < 6; iter++ {
		changed := false
		for _, fn := range s.p.RepoFuncs(productPkg) {
			for _, b := range fn.Blocks {
				for _, in := range b.Instrs {
					cc := AsCall(in)
					if cc == nil {
						continue
					}
					callee := cc.StaticCallee()
					if callee == nil || callee.Blocks == nil || callee.Pkg == nil || !productPkg(callee.Pkg.Pkg.Path()) {
						continue
					}
					if nameIn(FnName(callee), storePathCallees) {
						continue
					}
					for i, a := range cc.Args {
						if i >= len(callee.Params) {
							break
						}
						if short(a.Type().String()) != "string" {
							continue
						}
						if !s.params[callee.Params[i]] && s.isStore(a) {
							s.params[callee.Params[i]] = true
							changed = true
						}
					}
				}
			}
		}
		if !changed {
			break
		}
	}
}

func runC09(c *Ctx) {
	p := c.P
	cleanNamesObjectAfterStoredBytes(c, "R1")
	sf := getStoreFlow(p)
	var pn []string
	for prm := range sf.params {
		pn = append(pn, FnName(prm.Parent())+"("+prm.Name()+")")
	}
	sort.Strings(pn)
	c.Note("parameters that may carry an object-store path: %s", strings.Join(pn, ", "))

	publishAllowed := map[string]string{
		"commands.clean":                      "temp file teed with the hash, renamed to the object path (C01.R1/R4)",
		"(*tq.basicDownloadAdapter).download": "hash-verified temp file (C02.R1)",
		"(*tq.SSHAdapter).doDownload":         "hash-verified temp file (C02.R1)",
		"(*tq.customAdapter).DoTransfer":      "agent file verified with VerifyFileHash (C02.R1)",
		"lfs.CopyFileContents":                "fully copied and closed temp file renamed into place",
		"lfs.LinkOrCopy":                      "hard link (atomic) from a reference object",
		"tools.RenameFileCopyPermissions":     "primitive: classified at its callers",
		"tools.RobustRename":                  "primitive: classified at its callers",
		"tools.renameOrCopy":                  "primitive: classified at its callers",
	}
	removeAllowed := map[string]string{
		"commands.pruneDeleteFiles": "prune deletes whole objects (C05.R1)",
		"(*lfs.GitFilter).Smudge":   "wrong-size object removed before re-download (C01.R6)",
	}
	nSites, nPub, nTemp := 0, 0, 0
	for _, fn := range p.RepoFuncs(productPkg) {
		root := fn
		for root.Parent() != nil {
			root = root.Parent()
		}
		for _, b := range fn.Blocks {
			for _, in := range b.Instrs {
				cc := AsCall(in)
				if cc == nil {
					continue
				}
				n := CalleeName(cc)
				a := cc.Args
				switch n {
				case "os.Create", "os.WriteFile", "tools.CloneFileByPath":
					nSites++
					if sf.isStore(a[0]) {
						c.Bad("R1", "inplace:"+n+"@"+FnName(root), p.InstrPos(in), "a final object path is written in place by "+n+": a kill during the write leaves a partial object under its final name")
					}
				case "os.OpenFile":
					nSites++
					fl, ok := ConstInt(a[1])
					if ok && fl&(0x1|0x2|0x40|0x200|0x400) == 0 {
						continue
					}
					if sf.isStore(a[0]) {
						c.Bad("R1", "inplace:os.OpenFile@"+FnName(root), p.InstrPos(in), "a final object path is opened for writing: a kill during the write leaves a partial object under its final name")
					}
				case "(*os.File).Truncate", "(*os.File).Write", "(*os.File).WriteString", "(*os.File).WriteAt":
					// the file handle must not have been opened from a store path
					if sf.isStore(a[0]) {
						c.Bad("R1", "inplace:"+n+"@"+FnName(root), p.InstrPos(in), "a file opened from a final object path is modified in place")
					}
				case "tools.TempFile", "os.CreateTemp", "os.MkdirTemp":
					nSites++
					nTemp++
					if sf.isStore(a[0]) {
						c.Bad("R3", "temp-in-store:"+FnName(root), p.InstrPos(in), "a temporary file is created inside the object store: a kill before the rename leaves a file there whose content does not hash to its name, and nothing cleans it up")
					} else {
						c.OK("R3", "temp-dir:"+FnName(root)+fmt.Sprintf("#%d", nTemp), p.InstrPos(in), "temp file created outside the object store")
					}
				case "os.Rename", "tools.RobustRename", "tools.RenameFileCopyPermissions", "os.Link", "os.Symlink":
					nSites++
					if len(a) < 2 {
						continue
					}
					dstStore := sf.isStore(a[1])
					srcStore := sf.isStore(a[0])
					switch {
					case dstStore:
						nPub++
						why, ok := publishAllowed[FnName(root)]
						c.Check(ok, "R1", "publish:"+n+"@"+FnName(root), p.InstrPos(in), "known publish site: "+why, "a file is moved/linked onto a final object path at a site the rules do not know: completeness and hash of the source are unchecked")
						if ok && n != "os.Link" && !strings.HasPrefix(FnName(root), "tools.") {
							// source must be a temp file (or, for the custom adapter, the agent's file)
							srcOK := sf.isTempName(a[0])
							if prm, isP := Unwrap(a[0]).(*ssa.Parameter); isP && !sf.params[prm] {
								srcOK = true
							}
							c.Check(srcOK && !srcStore, "R2", "publish-source:"+FnName(root), p.InstrPos(in), "the file moved into the store is a temp file written elsewhere", "the file moved onto the final object path is not a temp file from the temp/incomplete area")
						}
					case srcStore && !dstStore:
						// moving an object away: fsck only
						okSite := FnName(root) == "commands.fsckCommand" || strings.HasPrefix(FnName(root), "tools.")
						c.Check(okSite, "R4", "move-object-away:"+FnName(root), p.InstrPos(in), "corrupt objects are moved aside by fsck", "an object is renamed away from its final path outside fsck")
					}
				case "os.Remove", "os.RemoveAll":
					nSites++
					if sf.isStore(a[0]) {
						why, ok := removeAllowed[FnName(root)]
						c.Check(ok, "R4", "remove-object:"+FnName(root), p.InstrPos(in), "known whole-file removal: "+why, "an object path is removed at a site the rules do not know")
					}
				}
			}
		}
	}
	c.AtLeast("R1", "file-system-mutating call sites classified", nSites, 40)
	c.AtLeast("R1", "publish sites onto object paths", nPub, 4)
	objectPresenceRule(c, "R6", sf)
	// a download interrupted by a kill is resumed from its partial temp file: the resume rules of C02 (file offset,
	// hash state and resume offset stay in step; success implies the verified move) decide whether the object that
	// is finally published is whole
	c.RulePrefix = "C02/"
	runC02(c)
	c.RulePrefix = ""
	c.Stat("mutating-sites", nSites)

	// ---- R2: the published file was completely written and closed -----------------------------------
	for _, name := range [][2]string{{"lfs", "CopyFileContents"}, {"tq", "(*basicDownloadAdapter).download"}, {"tq", "(*SSHAdapter).doDownload"}} {
		fn := p.Fn(name[0], name[1])
		if fn == nil {
			c.Missing("R2", name[1], "publish function not found")
			continue
		}
		var pub ssa.CallInstruction
		for _, ci := range CallsIn(fn, "os.Rename", "tools.RenameFileCopyPermissions") {
			pub = ci
		}
		if pub == nil {
			c.Bad("R2", FnName(fn)+":publish", p.Pos(fn.Pos()), "no rename into place found")
			continue
		}
		nCopies := 0
		for _, b := range fn.Blocks {
			for _, in := range b.Instrs {
				call, ok := in.(*ssa.Call)
				if !ok || !nameIn(CalleeName(&call.Call), []string{"io.Copy", "tools.CopyWithCallback"}) {
					continue
				}
				if !call.Block().Dominates(pub.Block()) {
					continue
				}
				nCopies++
				errPropagates(c, "R2", FnName(fn)+":copy-error-aborts", fn, call, 1)
			}
		}
		c.Check(nCopies >= 1, "R2", FnName(fn)+":copy-before-publish", p.InstrPos(pub), "the content copy precedes the rename", "no content copy dominates the rename into place")
		closed := false
		for _, cl := range CallsIn(fn, "(*os.File).Close") {
			if _, isDefer := cl.(*ssa.Defer); isDefer {
				continue
			}
			if cl.Block().Dominates(pub.Block()) && (cl.Block() != pub.Block() || InstrIndex(cl) < InstrIndex(pub)) {
				closed = true
				if call, ok := cl.(*ssa.Call); ok {
					errPropagates(c, "R2", FnName(fn)+":close-error-aborts", fn, call, 0)
				}
			}
		}
		c.Check(closed, "R2", FnName(fn)+":closed-before-publish", p.InstrPos(pub), "the temp file is closed (and the error checked) before it is renamed into place", "the temp file is not closed before the rename: buffered data may not have reached the file that becomes the object")
	}

	// ---- R4: fsck repair -------------------------------------------------------------------------------
	fs := p.Fn("commands", "fsckCommand")
	if fs == nil {
		c.Missing("R4", "commands.fsckCommand", "not found")
	} else {
		for _, ci := range CallsIn(fs, "os.Rename") {
			call := ci.(*ssa.Call)
			dst := call.Call.Args[1]
			bad := false
			for _, l := range p.LeavesNoFields(dst, nil) {
				if s, ok := ConstString(l); ok && s == "bad" {
					bad = true
				}
			}
			c.Check(bad && !sf.isStore(dst), "R4", "fsck:moves-to-bad-dir", p.InstrPos(ci), "corrupt objects are renamed into <storage>/bad", "fsck does not move corrupt objects into the bad/ directory")
			// re-run tolerance: the abort after a failed rename is reachable only when the error is not ENOENT
			var aborts []ssa.Instruction
			Explore(nil, call, nil, nil, func(in ssa.Instruction, st PState) bool {
				if noReturnCommands(in) {
					aborts = append(aborts, in)
					return false
				}
				if in.Block() != call.Block() && LoopOf(Loops(fs), in.Block()) == nil {
					return false
				}
				return true
			})
			pass := PassEdges(fs, func(cond ssa.Value) (bool, bool) {
				if cc, ok := cond.(*ssa.Call); ok && nameIn(CalleeName(&cc.Call), []string{"os.IsNotExist", "errors.Is"}) && ResultOfCall(cc.Call.Args[0], call, 0) {
					return false, true
				}
				return false, false
			})
			for _, ab := range aborts {
				if cc := AsCall(ab); cc != nil && CalleeName(cc) == "os.Exit" {
					continue // the final exit status
				}
				g, _ := Guarded(call.Block(), ab, pass, nil)
				c.Check(g && nonVacuous(pass), "R4", "fsck:rerun-tolerates-moved-object", p.InstrPos(ab), "a rename failing with ENOENT (object already moved by an interrupted run) does not abort the repair",
					"a re-run after an interrupted repair aborts at the first object that was already moved, so the remaining corrupt objects are never moved: the state does not converge to that of an uninterrupted run")
			}
		}
		for _, f := range p.RepoFuncs(func(s string) bool { return s == Mod+"/commands" }) {
			rt := f
			for rt.Parent() != nil {
				rt = rt.Parent()
			}
			if !strings.HasPrefix(FnName(rt), "commands.fsck") && !strings.HasPrefix(FnName(rt), "commands.doFsck") {
				continue
			}
			for _, ci := range CallsIn(f, "os.Remove", "os.RemoveAll") {
				c.Bad("R4", "fsck:never-deletes", p.InstrPos(ci), "fsck deletes a file; corrupt objects must be moved aside, not removed")
			}
		}
	}

	// ---- R5: stale-temp cleanup is confined to the temp dir ----------------------------------------------
	cl := p.Fn("fs", "(*Filesystem).cleanupTmp")
	if cl == nil {
		c.Missing("R5", "(*fs.Filesystem).cleanupTmp", "not found")
	} else {
		n := 0
		for _, f := range WithAnon(cl) {
			for _, ci := range CallsIn(f, "os.Remove", "os.RemoveAll") {
				n++
				arg := ci.Common().Args[0]
				okp := !sf.isStore(arg)
				// path = filepath.Join(parentDir, info.Name()) of the walk callback
				walked := false
				for _, l := range p.LeavesNoFields(arg, nil) {
					if prm, ok := l.(*ssa.Parameter); ok && prm.Parent() == f {
						walked = true
					}
				}
				c.Check(okp && walked, "R5", fmt.Sprintf("cleanupTmp:remove#%d", n), p.InstrPos(ci), "removes only entries found by walking the temp dir", "stale-temp cleanup can remove a path that is not an entry of the temp-dir walk")
			}
			for _, ci := range CallsIn(f, "tools.FastWalkDir", "path/filepath.Walk", "path/filepath.WalkDir") {
				root := ci.Common().Args[0]
				okr := false
				for _, l := range p.LeavesNoFields(root, func(v ssa.Value) FlowAct {
					if cc, _, ok := CallResult(v); ok && CalleeName(cc.Common()) == "(*fs.Filesystem).TempDir" {
						return Stop
					}
					return Descend
				}) {
					if cc, _, ok := CallResult(l); ok && CalleeName(cc.Common()) == "(*fs.Filesystem).TempDir" {
						okr = true
					}
				}
				c.Check(okr, "R5", "cleanupTmp:walk-root", p.InstrPos(ci), "the walk starts at TempDir()", "the cleanup walk does not start at the temp dir")
			}
		}
		c.AtLeast("R5", "removals in cleanupTmp", n, 1)
	}
	tempCleanupAgeRule(c, "R5")
	responseMatchedByOid(c, "R1")
}

var c09Canaries = []Canary{
	{Name: "r7-object-named-after-input", ExpectKey: "C09.R1#clean:object-named-after-stored-bytes", Edits: []Edit{{File: "lfs/extension.go", Find: "\ntype pipeResponse struct {\n\tfile    *os.File\n\tresults []*pipeExtResult\n}\n\n", Repl: "\ntype pipeResponse struct {\n\tfile    *os.File\n\toid     string\n\tresults []*pipeExtResult\n}\n\n"}, {File: "lfs/extension.go", Find: "\t}\n\n\toid := hex.EncodeToString(hasher.Sum(nil))\n\tfor _, ec := range extcmds {\n\t\tec.result.oidIn = oid\n\t\toid = hex.EncodeToString(ec.hasher.Sum(nil))\n", Repl: "\t}\n\n\toid := hex.EncodeToString(hasher.Sum(nil))\n\tresponse.oid = oid\n\tfor _, ec := range extcmds {\n\t\tec.result.oidIn = oid\n\t\toid = hex.EncodeToString(ec.hasher.Sum(nil))\n"}, {File: "lfs/gitfilter_clean.go", Find: "\t\t\treturn nil, err\n\t\t}\n\n\t\toid = response.results[len(response.results)-1].oidOut\n\t\ttmp = response.file\n\t\tvar stat os.FileInfo\n\t\tif stat, err = os.Stat(tmp.Name()); err != nil {\n", Repl: "\t\t\treturn nil, err\n\t\t}\n\n\t\toid = response.oid\n\t\ttmp = response.file\n\t\tvar stat os.FileInfo\n\t\tif stat, err = os.Stat(tmp.Name()); err != nil {\n"}}},
	{Name: "r6-response-matched-by-position", ExpectKey: "C09.R1#batch-response:matched-by-oid", Edits: []Edit{{File: "tq/transfer_queue.go", Find: "\t\trequested[t.Oid] = struct{}{}\n\t}\n\n\tfor _, o := range bRes.Objects {\n\t\tif _, ok := requested[o.Oid]; !ok {\n\t\t\t// Not an object of this batch, or one the response has\n\t\t\t// already named: there is nothing of ours to account for.\n", Repl: "\t\trequested[t.Oid] = struct{}{}\n\t}\n\n\tfor i, o := range bRes.Objects {\n\t\tif _, ok := requested[o.Oid]; !ok {\n\t\t\t// Not an object of this batch, or one the response has\n\t\t\t// already named: there is nothing of ours to account for.\n"}, {File: "tq/transfer_queue.go", Find: "\t\t}\n\n\t\tq.trMutex.Lock()\n\t\tobjects, ok := q.transfers[o.Oid]\n\t\tq.trMutex.Unlock()\n\t\tif !ok {\n\t\t\t// If we couldn't find any associated\n", Repl: "\t\t}\n\n\t\tq.trMutex.Lock()\n\t\t_, ok := q.transfers[o.Oid]\n\t\tq.trMutex.Unlock()\n\t\tif !ok {\n\t\t\t// If we couldn't find any associated\n"}, {File: "tq/transfer_queue.go", Find: "\t\t\tq.Skip(o.Size)\n\t\t\tq.wait.Done()\n\t\t} else {\n\t\t\t// Pick t[0], since it will cover all transfers with the\n\t\t\t// same OID.\n\t\t\ttr := newTransfer(o, objects.First().Name, objects.First().Path)\n\n\t\t\tif a, err := tr.Rel(q.direction.String()); err != nil {\n\t\t\t\tif q.canRetryObject(tr.Oid, err) {\n\t\t\t\t\tenqueueRetry(objects.First(), err, nil)\n\t\t\t\t} else {\n\t\t\t\t\tq.errorc <- errors.Errorf(\"[%v] %v\", tr.Name, err)\n\n", Repl: "\t\t\tq.Skip(o.Size)\n\t\t\tq.wait.Done()\n\t\t} else {\n\t\t\t// Pick the tuple that was batched, since it covers all\n\t\t\t// transfers with the same OID. The chain in q.transfers\n\t\t\t// may be appended to concurrently by Add(), so do not\n\t\t\t// read it outside of the lock.\n\t\t\tfirst := batch[i]\n\t\t\ttr := newTransfer(o, first.Name, first.Path)\n\n\t\t\tif a, err := tr.Rel(q.direction.String()); err != nil {\n\t\t\t\tif q.canRetryObject(tr.Oid, err) {\n\t\t\t\t\tenqueueRetry(first, err, nil)\n\t\t\t\t} else {\n\t\t\t\t\tq.errorc <- errors.Errorf(\"[%v] %v\", tr.Name, err)\n\n"}, {File: "tq/transfer_queue.go", Find: "\t\t\t\tq.Skip(o.Size)\n\t\t\t\tq.wait.Done()\n\t\t\t} else {\n\t\t\t\tq.meter.StartTransfer(objects.First().Name)\n\t\t\t\ttoTransfer = append(toTransfer, tr)\n\t\t\t}\n\t\t}\n", Repl: "\t\t\t\tq.Skip(o.Size)\n\t\t\t\tq.wait.Done()\n\t\t\t} else {\n\t\t\t\tq.meter.StartTransfer(first.Name)\n\t\t\t\ttoTransfer = append(toTransfer, tr)\n\t\t\t}\n\t\t}\n"}}},
	{Name: "r4-untyped-grace-period", ExpectKey: "C09.R5#cleanupTmp:removes-only", Edits: []Edit{{File: "fs/cleanup.go", Find: "\t\tif time.Since(info.ModTime()) > time.Hour {", Repl: "\t\tif time.Since(info.ModTime()) > 3600 {"}}},
	{Name: "clean-writes-in-place", ExpectKey: "C09.R1#inplace", Edits: []Edit{{File: "commands/command_clean.go", Find: "		if err := os.Rename(tmpfile, mediafile); err != nil {\n			Panic(err, tr.Tr.Get(\"Unable to move %s to %s\", tmpfile, mediafile))\n		}", Repl: "		data, rerr := os.ReadFile(tmpfile)\n		if rerr != nil {\n			Panic(rerr, \"read\")\n		}\n		if err := os.WriteFile(mediafile, data, 0644); err != nil {\n			Panic(err, tr.Tr.Get(\"Unable to move %s to %s\", tmpfile, mediafile))\n		}"}}},
	{Name: "copy-temp-in-store", ExpectKey: "C09.R3#temp-in-store", Edits: []Edit{{File: "lfs/util.go", Find: "	tmp, err := TempFile(cfg, filepath.Base(dst))", Repl: "	tmp, err := tools.TempFile(filepath.Dir(dst), filepath.Base(dst), cfg)"}}},
	{Name: "copy-in-place", ExpectKey: "C09.R1#inplace", Edits: []Edit{{File: "lfs/util.go", Find: "	tmp, err := TempFile(cfg, filepath.Base(dst))", Repl: "	tmp, err := os.Create(dst)"}}},
	{Name: "copy-error-ignored", ExpectKey: "C09.R2", Edits: []Edit{{File: "lfs/util.go", Find: "	_, err = io.Copy(tmp, in)\n	if err != nil {\n		return err\n	}", Repl: "	_, err = io.Copy(tmp, in)\n	if err != nil && err != io.ErrUnexpectedEOF {\n		return err\n	}"}}},
	{Name: "fsck-removes", ExpectKey: "C09.R4", Edits: []Edit{{File: "commands/command_fsck.go", Find: "		if err := os.Rename(srcFile, badFile); err != nil {", Repl: "		_ = badFile\n		if err := os.Remove(srcFile); err != nil {"}}},
	{Name: "fsck-rerun-aborts", ExpectKey: "C09.R4#fsck:rerun", Edits: []Edit{{File: "commands/command_fsck.go", Find: "			if os.IsNotExist(err) {\n				continue\n			}\n			ExitWithError(err)", Repl: "			ExitWithError(err)"}}},
	{Name: "ssh-download-to-final", ExpectKey: "C09.R1", Edits: []Edit{{File: "tq/ssh.go", Find: "	f, err := tools.TempFile(a.tempDir(), t.Oid, a.fs)\n	if err != nil {\n		return err\n	}\n	tmpName := f.Name()\n	defer func() {\n		if f != nil {\n			f.Close()\n		}\n		os.Remove(tmpName)\n	}()\n\n	return a.doDownload(", Repl: "	f, err := os.Create(t.Path)\n	if err != nil {\n		return err\n	}\n	tmpName := f.Name() + \".x\"\n	defer func() {\n		if f != nil {\n			f.Close()\n		}\n		os.Remove(tmpName)\n	}()\n\n	return a.doDownload("}}},
	{Name: "cleanup-removes-object", ExpectKey: "C09.R5", Edits: []Edit{{File: "fs/cleanup.go", Find: "				tracerx.Printf(\"Removing existing tmp object file: %s\", path)\n				os.RemoveAll(path)", Repl: "				tracerx.Printf(\"Removing existing tmp object file: %s\", path)\n				os.RemoveAll(f.ObjectPathname(oid))"}}},
}

// ---- shared rule: the presence of an object is judged together with its size ------------------------
// An object counts as present (so that a copy, download, upload or store step may be skipped) only through a
// size-exact test. A bare existence test on an object path treats a truncated leftover (interrupted copy, full
// disk, crash) as the object. Decided program-wide by the provenance of the path argument of every existence
// test; the sites that stat an object path without comparing its size are a frozen table with reasons.
var presenceStatAllowed = map[string]string{
	"(*tq.basicDownloadAdapter).download":  "forgives a failed rename when another process already placed the object (the verified temp file was renamed first)",
	"(*tq.SSHAdapter).doDownload":          "same idiom as the basic adapter",
	"commands.delayedSmudge":               "decides only whether to delay; Smudge re-checks the size before the object is read",
	"commands.migrateExportCommand":        "export queues missing objects; present ones are read through Smudge, which checks the size",
	"(*fs.Filesystem).cleanupTmp":          "stale-temp cleanup: removes a temp object when the final one exists (never touches the final one)",
	"(*commands.uploadContext).ensureFile": "push: decides only whether to re-clean from the work tree; a present file of the wrong size is reported by partitionTransfers' size comparison (C03.R4)",
	"commands.uploadsWithObjectIDs":        "push --object-id: the stat result supplies the size that is sent",
	"(*lfs.GitFilter).readLocalFile":       "fills in an unknown size for progress reporting after the file was opened",
}

func objectPresenceRule(c *Ctx, rule string, sf *storeFlow) {
	p := c.P
	isObj := func(v ssa.Value) bool {
		if sf.isStore(v) {
			return true
		}
		found := false
		p.LeavesNoFields(v, func(x ssa.Value) FlowAct {
			if cc, _, ok := CallResult(x); ok && CalleeName(cc.Common()) == "(*fs.Filesystem).ObjectReferencePaths" {
				found = true
				return Stop
			}
			return Descend
		})
		return found
	}
	nExact, nStat := 0, 0
	for _, fn := range p.RepoFuncs(productPkg) {
		root := fn
		for root.Parent() != nil {
			root = root.Parent()
		}
		name := FnName(root)
		if strings.HasPrefix(name, "tools.") {
			continue // the primitives themselves
		}
		for _, b := range fn.Blocks {
			for _, in := range b.Instrs {
				cc := AsCall(in)
				if cc == nil {
					continue
				}
				n := CalleeName(cc)
				a := CallArgs(cc)
				switch n {
				case "tools.FileExistsOfSize":
					if len(a) > 0 && isObj(a[0]) {
						nExact++
						c.OK(rule, "presence:size-exact@"+name, p.InstrPos(in), "object presence tested together with its size")
					}
				case "tools.FileExists", "tools.FileOrDirExists":
					if len(a) > 0 && isObj(a[0]) {
						c.Bad(rule, "presence:"+n+"@"+name, p.InstrPos(in), "an object is taken as present because a file exists at its path, without comparing the size: a truncated or wrong-sized leftover is treated as the complete object (the copy/transfer/store step is skipped)")
					}
				case "os.Stat", "os.Lstat":
					if len(a) == 0 || !isObj(a[0]) {
						continue
					}
					nStat++
					// is the size of the stat result compared with something?
					sized := false
					call, _ := in.(*ssa.Call)
					if call != nil {
						for _, r := range Referrers(call) {
							ex, ok := r.(*ssa.Extract)
							if !ok || ex.Index != 0 {
								continue
							}
							var walk func(v ssa.Value, d int)
							walk = func(v ssa.Value, d int) {
								if d > 4 {
									return
								}
								for _, rr := range Referrers(v) {
									if sc := AsCall(rr); sc != nil && strings.HasSuffix(CalleeName(sc), ".Size") {
										if sv, ok := rr.(ssa.Value); ok {
											for _, r3 := range Referrers(sv) {
												if bo, ok := r3.(*ssa.BinOp); ok && (bo.Op == token.EQL || bo.Op == token.NEQ) {
													if _, isC := bo.Y.(*ssa.Const); !isC {
														sized = true
													}
												}
												if ph, ok := r3.(*ssa.Phi); ok {
													walk(ph, d+1)
												}
												if _, ok := r3.(*ssa.Store); ok {
													sized = sized || false
												}
											}
											// the size may be kept in a variable first
											walk(sv, d+1)
										}
									}
									if bo, ok := rr.(*ssa.BinOp); ok && (bo.Op == token.EQL || bo.Op == token.NEQ) && d > 0 {
										if _, isC := bo.Y.(*ssa.Const); !isC {
											sized = true
										}
									}
									if ph, ok := rr.(*ssa.Phi); ok {
										walk(ph, d+1)
									}
									if mi, ok := rr.(*ssa.MakeInterface); ok {
										walk(mi, d+1)
									}
								}
							}
							walk(ex, 0)
						}
					}
					if sized {
						nExact++
						c.OK(rule, "presence:stat+size@"+name, p.InstrPos(in), "stat of an object path whose size is compared")
						continue
					}
					why, ok := presenceStatAllowed[name]
					c.Check(ok, rule, "presence:stat-without-size@"+name, p.InstrPos(in), "known site: "+why,
						"an object path is stat-ed and its size is not compared at a site the rules do not know: a truncated or wrong-sized file would count as the object")
				}
			}
		}
	}
	c.AtLeast(rule, "size-exact object presence tests", nExact, 3)
}

var storeFlowCache = map[*Prog]*storeFlow{}

// getStoreFlow computes (once per loaded program) which parameters may carry an object-store path.
func getStoreFlow(p *Prog) *storeFlow {
	if sf, ok := storeFlowCache[p]; ok {
		return sf
	}
	sf := &storeFlow{p: p}
	sf.propagate()
	storeFlowCache[p] = sf
	return sf
}
