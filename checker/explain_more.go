package main

// moreExplanation holds, per property, what was added to the rules after the second seeding round; it is
// appended to the explanation written into the evidence (the same sentences are in MANIFEST.level_claimed.text).
var moreExplanation = map[string]string{
	"C01": "Added after the second seeding round: (R8) an object already in the store is trusted only together with its size; (R9) smudge hands the sorted extensions to the pipe in reverse order; the rules of C08 about the already-a-pointer verdict are shared (prefix C08/).",
	"C02": "Added: (R5) on every feasible path the download functions report success only after the verified move into place or by delegating to another transfer function.",
	"C03": "Added: (R8) object presence is judged with the size (shared rule); (R9) history/tree scanners stop only at the end of their input; (R10) the push scanner takes its already-on-the-server set from the push remote; R5 now treats an error constructor that can return nil as a possible success.",
	"C04": "Added: (R6) size-exact object presence, (R7) scanner verdicts, (R8) pull's hand-off of paths waiting for a download (All removes the entry, Seen answers true only for an entry).",
	"C05": "Added: (R6) an object reaches the adapter only with an action for the operation (a dry-run verify queue would otherwise report a missing object as verified); (R7) every Scan() bool returns its underlying reader's verdict.",
	"C06": "Added: (R12) the adapter's auth gate is released exactly once (flag cleared only where Done is called, guarded fall-back); (R8) each watcher notification describes the iterated entry; C03's upload-success rule is shared (prefix C03/).",
	"C08": "Added to R5: the error of every fill-until-full read (io.ReadFull/ReadAtLeast) is compared with io.ErrUnexpectedEOF where it is acted upon (short input is not a failure).",
	"C09": "Added: (R6) size-exact object presence at every site that skips a copy/transfer/store step; the resume and success-implies-publish rules of C02 are shared (prefix C02/).",
	"C10": "Added: (R7) the credential cache key is built from protocol and host and every cache access uses it.",
	"C11": "Added: (R7) every function that walks over all configuration keys recognises its keys with a pattern anchored at both ends (the suffix allow sites admit `<any key>.access`); this rule reported the genuine defect F14.",
	"C12": "Added: (R7) size-exact object presence in clean; (R8) the commits to rewrite are requested oldest-first in topological (or date) order.",
	"C13": "Added: (R5) the single-ref scans switch history walking off (rev-list --no-walk) and no range scan does; (R6) scanner verdicts.",
	"C14": "Added: the per-entry watcher notification rule of C06.R8 is shared (prefix C06/); R2 was restated as value provenance of every final status.",
	"C15": "Added: (R4) the time stored for a Retry-After date is that date itself (no conversion through seconds), for a number it is now plus the seconds; (R5) expiry is compared with time.Now().",
	"C16": "Added: (R1) the set of verified refs is keyed by the fully qualified ref; (R3) every exit after a granted or released lock calls Client.Close() first (deferred calls do not run on os.Exit).",
	"C17": "Added: (O7) in the URL matcher that resolves credential.<url>.protectProtocol the best match is replaced only by a candidate whose host matches at least as exactly.",
	"C18": "Added to R4: a constant-key header is set on a transfer request only if it is on the frozen list of client-owned headers, precedes the action's headers (defaults), or is guarded by an absence test.",
	"C19": "Added: (R6) macros are read only from the top-level .gitattributes (full-path comparison); (R7) the argument normalisation removes exactly one leading ./ and track/untrack both use it.",
	"C20": "Added: (R1) Hook.Exists answers `absent` only for a not-exist error of stat on the hook's own path; (R4) every `git config` lookup runs with --includes.",
}
