package main

import (
	"encoding/json"
	"flag"
	"fmt"
	"os"
	"path/filepath"
	"runtime/debug"
	"sort"
	"strconv"
	"strings"
	"time"
)

// PropDef registers the rule set of one property.
type PropDef struct {
	ID          string
	Level       string
	Explanation string
	Assumptions []string
	Run         func(c *Ctx)
	// Platforms re-run in the thorough tier (rules whose anchors live in build-tagged files)
	CrossPlatform func(c *Ctx)
	Canaries      []Canary
}

var registry = map[string]*PropDef{}

func register(d *PropDef) { registry[d.ID] = d }

var trustedBase = []string{
	"go/types, go/ssa, VTA call graph of golang.org/x/tools v0.29.0",
	"the Go compiler's own type checker (the tree must type-check)",
	"documented semantics of the enumerated standard-library functions (os.Rename, strings.Contains, io.ReadFull, sync.WaitGroup, ...)",
	"Git and external helper programs behave as documented",
}

// Edit is one textual replacement applied through a go/packages overlay (self-test canaries).
type Edit struct {
	File string `json:"file"` // relative to the repo root
	Find string `json:"find"`
	Repl string `json:"repl"`
}

func buildOverlay(repo string, edits []Edit) (map[string][]byte, error) {
	ov := map[string][]byte{}
	for _, e := range edits {
		abs := filepath.Join(repo, e.File)
		cur, ok := ov[abs]
		if !ok {
			b, err := os.ReadFile(abs)
			if err != nil {
				return nil, err
			}
			cur = b
		}
		s := string(cur)
		if strings.Count(s, e.Find) != 1 {
			return nil, fmt.Errorf("canary-stale: %q occurs %d times in %s (need exactly 1)", e.Find, strings.Count(s, e.Find), e.File)
		}
		ov[abs] = []byte(strings.Replace(s, e.Find, e.Repl, 1))
	}
	return ov, nil
}

func main() {
	repo := flag.String("repo", "/repo", "repository to analyse (working tree)")
	verif := flag.String("verif", "/verif", "verification directory (evidence, known findings)")
	prop := flag.String("prop", "", "property id, e.g. C06")
	tier := flag.String("tier", "quick", "quick | thorough")
	canary := flag.String("canary", "", "apply the named self-test canary of -prop as an overlay")
	edits := flag.String("edits", "", "JSON file with a list of {file,find,repl} edits applied as an overlay")
	list := flag.Bool("list", false, "list properties and canaries")
	mkInv := flag.Bool("mk-inventory", false, "print the name inventory of -repo (see norm.go)")
	noEvidence := flag.Bool("no-evidence", false, "write evidence under a scratch dir (used by self-tests)")
	flag.Parse()

	if *mkInv {
		inv, err := MakeInventory(*repo)
		if err != nil {
			fmt.Fprintf(os.Stderr, "lfscheck: %v\n", err)
			os.Exit(2)
		}
		b, _ := json.MarshalIndent(inv, "", " ")
		fmt.Println(string(b))
		return
	}
	if *list {
		var ids []string
		for id := range registry {
			ids = append(ids, id)
		}
		sort.Strings(ids)
		for _, id := range ids {
			fmt.Printf("%s level=%s canaries=%d\n", id, registry[id].Level, len(registry[id].Canaries))
			for _, cn := range registry[id].Canaries {
				fmt.Printf("  canary %s expects %s\n", cn.Name, cn.ExpectKey)
			}
		}
		return
	}
	if *prop == "all" || strings.Contains(*prop, ",") {
		// matrix mode: one load, every listed property's quick rules, one RESULT line each (used by tools/seedmatrix.sh)
		var ids []string
		if *prop == "all" {
			for id := range registry {
				ids = append(ids, id)
			}
		} else {
			ids = strings.Split(*prop, ",")
		}
		sort.Strings(ids)
		p, err := Load(LoadOpts{Dir: *repo})
		if err != nil {
			fmt.Fprintf(os.Stderr, "lfscheck: cannot analyse %s: %v\n", *repo, err)
			os.Exit(2)
		}
		worst := 0
		for _, id := range ids {
			def := registry[id]
			if def == nil {
				fmt.Fprintf(os.Stderr, "lfscheck: unknown property %q\n", id)
				os.Exit(2)
			}
			code := func() (code int) {
				defer func() {
					if r := recover(); r != nil {
						fmt.Fprintf(os.Stderr, "lfscheck: internal error in %s: %v\n%s\n", id, r, debug.Stack())
						code = 2
					}
				}()
				c := &Ctx{P: p, Prop: def.ID, Tier: "quick"}
				noteNorm(c, p)
				def.Run(c)
				vd, _ := os.MkdirTemp("", "lfscheck-scratch-")
				defer os.RemoveAll(vd)
				if b, err := os.ReadFile(filepath.Join(*verif, "KNOWN_FINDINGS.json")); err == nil {
					os.WriteFile(filepath.Join(vd, "KNOWN_FINDINGS.json"), b, 0o644)
				}
				return c.Finish(vd, def.Level, strings.TrimSpace(def.Explanation+" "+moreExplanation[def.ID]), def.Assumptions, trustedBase, time.Now(), 0, map[string]interface{}{})
			}()
			fmt.Printf("RESULT %s rc=%d\n", id, code)
			if code > worst {
				worst = code
			}
		}
		os.Exit(worst)
	}
	def := registry[*prop]
	if def == nil {
		fmt.Fprintf(os.Stderr, "lfscheck: unknown property %q\n", *prop)
		os.Exit(2)
	}
	start := time.Now()
	// watchdog: an analysis that does not finish gives no verdict — say so instead of hanging (the engines are
	// bounded, but a bound that is too generous on some future shape of the code must not block the caller)
	limit := 20 * time.Minute
	if *tier == "thorough" {
		limit = 60 * time.Minute
	}
	if v, err := time.ParseDuration(os.Getenv("LFSCHECK_TIMEOUT")); err == nil && v > 0 {
		limit = v
	}
	time.AfterFunc(limit, func() {
		fmt.Fprintf(os.Stderr, "lfscheck: the analysis of %s did not finish within %s (the check is broken, no verdict)\n", *prop, limit)
		os.Exit(2)
	})
	seed, _ := strconv.ParseInt(os.Getenv("VERIF_SEED"), 10, 64)

	defer func() {
		if r := recover(); r != nil {
			fmt.Fprintf(os.Stderr, "lfscheck: internal error (the check is broken, no verdict): %v\n%s\n", r, debug.Stack())
			os.Exit(2)
		}
	}()

	var overlay map[string][]byte
	var err error
	if *canary != "" {
		var cn *Canary
		for i := range def.Canaries {
			if def.Canaries[i].Name == *canary {
				cn = &def.Canaries[i]
			}
		}
		if cn == nil {
			fmt.Fprintf(os.Stderr, "lfscheck: unknown canary %q\n", *canary)
			os.Exit(2)
		}
		overlay, err = buildOverlay(*repo, cn.Edits)
		if err != nil {
			fmt.Fprintf(os.Stderr, "lfscheck: %v\n", err)
			os.Exit(3)
		}
	}
	if *edits != "" {
		b, err := os.ReadFile(*edits)
		if err != nil {
			fmt.Fprintf(os.Stderr, "lfscheck: %v\n", err)
			os.Exit(2)
		}
		var es []Edit
		if err := json.Unmarshal(b, &es); err != nil {
			fmt.Fprintf(os.Stderr, "lfscheck: %v\n", err)
			os.Exit(2)
		}
		overlay, err = buildOverlay(*repo, es)
		if err != nil {
			fmt.Fprintf(os.Stderr, "lfscheck: %v\n", err)
			os.Exit(3)
		}
	}

	p, err := Load(LoadOpts{Dir: *repo, Overlay: overlay})
	if err != nil {
		fmt.Fprintf(os.Stderr, "lfscheck: cannot analyse %s: %v\n", *repo, err)
		os.Exit(2)
	}
	c := &Ctx{P: p, Prop: def.ID, Tier: *tier}
	noteNorm(c, p)
	def.Run(c)

	extra := map[string]interface{}{}
	if *tier == "thorough" {
		if def.CrossPlatform != nil {
			for _, pl := range [][2]string{{"windows", "amd64"}, {"darwin", "arm64"}, {"linux", "386"}} {
				pp, err := Load(LoadOpts{Dir: *repo, Overlay: overlay, GOOS: pl[0], GOARCH: pl[1]})
				if err != nil {
					fmt.Fprintf(os.Stderr, "lfscheck: cannot analyse %s for %s/%s: %v\n", *repo, pl[0], pl[1], err)
					os.Exit(2)
				}
				cc := &Ctx{P: pp, Prop: def.ID, Tier: *tier, plat: pl[0] + "/" + pl[1]}
				def.CrossPlatform(cc)
				c.Obs = append(c.Obs, cc.Obs...)
				c.Notes = append(c.Notes, cc.Notes...)
				pp = nil
				debug.FreeOSMemory()
			}
			extra["platforms"] = []string{"linux/amd64", "windows/amd64", "darwin/arm64", "linux/386"}
		}
		if *canary == "" && *edits == "" && len(def.Canaries) > 0 {
			res := runCanaries(def, *repo, *verif)
			extra["canaries_total"] = res.Total
			extra["canaries_fired"] = res.Fired
			extra["canaries_stale"] = res.Stale
			extra["canary_results"] = res.Lines
			if len(res.Missed) > 0 {
				fmt.Fprintf(os.Stderr, "lfscheck: self-test: %d canary(ies) did not fire as expected: %s\n", len(res.Missed), strings.Join(res.Missed, ", "))
				extra["canaries_missed"] = res.Missed
			}
		}
	}
	vd := *verif
	if *noEvidence {
		vd, _ = os.MkdirTemp("", "lfscheck-scratch-")
		defer os.RemoveAll(vd)
		// known findings still come from the real file
		if b, err := os.ReadFile(filepath.Join(*verif, "KNOWN_FINDINGS.json")); err == nil {
			os.WriteFile(filepath.Join(vd, "KNOWN_FINDINGS.json"), b, 0o644)
		}
	}
	code := c.Finish(vd, def.Level, strings.TrimSpace(def.Explanation+" "+moreExplanation[def.ID]), def.Assumptions, trustedBase, start, seed, extra)
	if *noEvidence {
		os.RemoveAll(vd)
	}
	os.Exit(code)
}

// noteNorm records what the normalisation pre-pass (norm.go) did to the analysed source.
func noteNorm(c *Ctx, p *Prog) {
	if p.Norm == nil {
		return
	}
	for _, r := range p.Norm.Renamed {
		c.Note("normalised before analysis: renamed back %s", r)
	}
	for _, r := range p.Norm.Inlined {
		c.Note("normalised before analysis: expanded new helper %s", r)
	}
	for _, r := range p.Norm.Skipped {
		c.Note("normalisation: new function left as it is: %s", r)
	}
	if p.Norm.Failed != "" {
		c.Note("normalisation dropped: %s", p.Norm.Failed)
		fmt.Fprintf(os.Stderr, "lfscheck: %s\n", p.Norm.Failed)
	}
}
