package main

import (
	"fmt"
	"go/token"
	"go/types"
	"strings"

	"golang.org/x/tools/go/ssa"
)

// C01 — clean → pointer names what was stored; smudge returns the bytes.

func init() {
	register(&PropDef{
		ID:    "C01",
		Level: "other",
		Explanation: "Decides structural necessary conditions on the current source of the clean/smudge filters: (R1) one stream feeds both the SHA-256 and the temp file (io.MultiWriter of that hasher and that file), the oid is the hex of that hasher, and with extensions every stage tees through its own hasher and a failing extension aborts the clean; (R2) the recorded size is the number of bytes copied (or the stat of the stored temp file), never the size hint about the working-tree path; (R3) the content copy always continues with the original reader — no branch on the hint can drop the rest of the stream; " +
			"(R4) the object published and the pointer emitted belong to the same cleaned asset (rename source/destination/pointer of one value); (R5) files opened for overwriting a result are truncated; (R6) smudge reads the object named by the pointer, only when its size matches or a download finished without queue errors; (R7) empty ↔ empty (shared with C07/C08). Byte-for-byte round trip and behaviour of configured extension programs are run-time facts and not decided.",
		Assumptions: []string{
			"io.MultiWriter writes every byte to each writer; sha256/hex behave as documented",
			"tools.CopyWithCallback's clone shortcut applies only when the destination is an *os.File (checked: the destination here is the MultiWriter)",
		},
		Run:      runC01,
		Canaries: c01Canaries,
	})
}

// errPropagates: the error result of call is tested, and on its failing edge the function
// returns without the error variable being overwritten by something unrelated.
func errPropagates(c *Ctx, rule, key string, fn *ssa.Function, call *ssa.Call, idx int) {
	p := c.P
	var fails []Edge
	for _, b := range fn.Blocks {
		ifi, ok := lastInstr(b).(*ssa.If)
		if !ok {
			continue
		}
		cond, flip := stripNot(ifi.Cond)
		e, trueMeansNil, ok := IsErrNilCheck(cond)
		if !ok || !ResultOfCall(e, call, idx) {
			continue
		}
		failWhen := !trueMeansNil
		if flip {
			failWhen = !failWhen
		}
		if failWhen {
			fails = append(fails, Edge{b, 0})
		} else {
			fails = append(fails, Edge{b, 1})
		}
	}
	if len(fails) == 0 {
		c.Bad(rule, key, p.InstrPos(call), "the error of "+CalleeName(call.Common())+" is never tested")
		return
	}
	good := true
	why := ""
	for _, fe := range fails {
		Explore(fe.To(), nil, nil, noReturnCommands, func(in ssa.Instruction, st PState) bool {
			switch x := in.(type) {
			case *ssa.Return:
				if len(x.Results) > 0 {
					ev := Resolve(x.Results[len(x.Results)-1], st)
					if cst, ok := EvalConst(ev, st); ok && cst.Value == nil {
						good, why = false, "after "+CalleeName(call.Common())+" failed the function returns a nil error at "+p.InstrPos(x)
					} else if _, isErr := ev.Type().Underlying().(*types.Interface); isErr {
						derives := ResultOfCall(ev, call, idx)
						for _, l := range p.LeavesNoFields(ev, func(v ssa.Value) FlowAct {
							if v == ssa.Value(call) {
								return Stop
							}
							if cc, _, isRes := CallResult(v); isRes {
								n := CalleeName(cc.Common())
								if n == "fmt.Errorf" || strings.HasPrefix(n, "errors.New") || strings.HasPrefix(n, "errors.Errorf") || strings.HasPrefix(n, "errors.Wrap") {
									return Stop
								}
							}
							return Descend
						}) {
							if l == ssa.Value(call) {
								derives = true
							}
							if cc, _, isRes := CallResult(l); isRes && cc == call {
								derives = true
							}
							if cc, _, isRes := CallResult(l); isRes {
								n := CalleeName(cc.Common())
								if n == "fmt.Errorf" || strings.HasPrefix(n, "errors.New") || strings.HasPrefix(n, "errors.Errorf") || strings.HasPrefix(n, "errors.Wrap") {
									derives = true
								}
							}
						}
						if !derives {
							good, why = false, "after "+CalleeName(call.Common())+" failed the function goes on and returns the result of a later step at "+p.InstrPos(x)+", so the failure is lost"
						}
					}
				}
				return false
			case *ssa.Store:
				if al, ok := x.Addr.(*ssa.Alloc); ok && strings.Contains(al.Comment, "err") {
					derives := false
					for _, l := range p.LeavesNoFields(x.Val, func(v ssa.Value) FlowAct {
						if v == ssa.Value(call) {
							return Stop
						}
						return Descend
					}) {
						if l == ssa.Value(call) {
							derives = true
						}
					}
					if cc, _, isRes := CallResult(x.Val); isRes && cc == call {
						derives = true
					}
					if cc, _, isRes := CallResult(x.Val); isRes {
						n := CalleeName(cc.Common())
						if n == "fmt.Errorf" || strings.HasPrefix(n, "errors.New") || strings.HasPrefix(n, "errors.Errorf") || strings.HasPrefix(n, "errors.Wrap") {
							derives = true // replaced by a freshly constructed (non-nil) error
						}
					}
					if !derives {
						good, why = false, "after "+CalleeName(call.Common())+" failed its error is overwritten at "+p.InstrPos(x)+" before the function returns, so the failure is lost"
						return false
					}
				}
			}
			return true
		})
	}
	c.Check(good, rule, key, p.InstrPos(call), "a failure of "+CalleeName(call.Common())+" aborts the operation with an error", why)
}

func runC01(c *Ctx) {
	p := c.P
	// shared rule: an object counts as present only together with its size (rules_c09.go)
	objectPresenceRule(c, "R8", getStoreFlow(p))
	// shared rule: smudging to a path reports success only after writing the object (rules_round4.go)
	smudgeToFileRule(c, "R11")
	// shared rule: the temp-dir sweep spares files a concurrent process is still writing (rules_round4.go)
	tempCleanupAgeRule(c, "R12")
	lfsStorageUnderCommonDir(c, "R13")
	filterStatusReportsCommandError(c, "R14")
	mergeResultOpenedAfterProgram(c, "R5")
	smudgeCopiesWholeResult(c, "R9")
	smudgeReadsLocalObjectOnlyAtPointerSize(c, "R8")
	ctt := p.Fn("lfs", "(*GitFilter).copyToTemp")
	cleanF := p.Fn("lfs", "(*GitFilter).Clean")
	clean := p.Fn("commands", "clean")
	if ctt == nil || cleanF == nil || clean == nil {
		c.Missing("R1", "copyToTemp / GitFilter.Clean / commands.clean", "not found")
		return
	}
	// ---- R1 tee identity (no extensions) --------------------------------------------------------
	var copyCall *ssa.Call
	for _, ci := range CallsIn(ctt, "tools.CopyWithCallback", "io.Copy") {
		copyCall, _ = ci.(*ssa.Call)
	}
	if copyCall == nil {
		c.Missing("R1", "content copy in copyToTemp", "not found")
		return
	}
	mw, _, isMW := CallResult(copyCall.Call.Args[0])
	if !isMW || CalleeName(mw.Common()) != "io.MultiWriter" {
		c.Bad("R1", "copyToTemp:tee", p.InstrPos(copyCall), "the content is not copied into io.MultiWriter(hasher, tempfile): hash and stored bytes may come from different streams (and a *os.File destination would let the clone shortcut report the size hint)")
	} else {
		els := variadicElems(mw.Call.Args[0])
		var hasher, file ssa.Value
		for _, e := range els {
			e = Unwrap(e)
			if hc, _, ok := CallResult(e); ok && CalleeName(hc.Common()) == "crypto/sha256.New" {
				hasher = e
			} else {
				for _, l := range p.LeavesNoFields(e, func(v ssa.Value) FlowAct {
					if tc, _, ok := CallResult(v); ok && nameIn(CalleeName(tc.Common()), []string{"lfs.TempFile", "tools.TempFile", "os.CreateTemp"}) {
						return Stop
					}
					return Descend
				}) {
					if tc, _, ok := CallResult(l); ok && nameIn(CalleeName(tc.Common()), []string{"lfs.TempFile", "tools.TempFile", "os.CreateTemp"}) {
						file = l
					}
				}
			}
		}
		c.Check(len(els) == 2 && hasher != nil && file != nil, "R1", "copyToTemp:tee", p.InstrPos(mw), "content is teed into exactly a sha256 hasher and the temp file", "the tee does not consist of exactly one sha256 hasher and the temp file")
		if hasher != nil {
			// no other writes into the hasher or the file
			extra := ""
			for _, r := range Referrers(hasher) {
				if cc := AsCall(r); cc != nil {
					n := CalleeName(cc)
					if strings.HasSuffix(n, ".Write") || strings.HasSuffix(n, ".WriteString") || n == "io.Copy" || n == "io.WriteString" {
						extra = "the hasher receives additional data at " + p.InstrPos(r)
					}
				}
			}
			c.Check(extra == "", "R1", "copyToTemp:hasher-fed-only-by-tee", p.InstrPos(mw), "the hasher sees only the teed stream", extra)
			// oid = hex(hasher.Sum(nil))
			okOid := false
			for _, ci := range CallsIn(ctt, "encoding/hex.EncodeToString") {
				if sc, _, ok := CallResult(ci.Common().Args[0]); ok && strings.HasSuffix(CalleeName(sc.Common()), ".Sum") {
					if Unwrap(CallArgs(sc.Common())[0]) == hasher {
						// stored into the oid result
						okOid = true
					}
				}
			}
			c.Check(okOid, "R1", "copyToTemp:oid-from-tee-hasher", p.InstrPos(mw), "the oid is the hex digest of the teed hasher", "the returned oid is not hex(hasher.Sum(nil)) of the hasher that saw the stored bytes")
		}
	}
	// every return of copyToTemp with nil error returns size = copy result and tmp = the teed file: via cells
	// (named results): the stores to the size cell derive from the copy call
	for _, b := range ctt.Blocks {
		for _, in := range b.Instrs {
			st, ok := in.(*ssa.Store)
			if !ok {
				continue
			}
			al, ok := st.Addr.(*ssa.Alloc)
			if !ok || al.Comment != "size" {
				continue
			}
			rc, idx, isRes := CallResult(st.Val)
			c.Check(isRes && rc == copyCall && idx == 0, "R2", "copyToTemp:size-is-bytes-copied", p.InstrPos(in), "size = number of bytes the copy reported", "copyToTemp's size result is not the byte count of the content copy")
		}
	}
	// ---- R3 stream completeness --------------------------------------------------------------------
	var rdr *ssa.Parameter
	for _, prm := range ctt.Params {
		if short(prm.Type().String()) == "io.Reader" {
			rdr = prm
		}
	}
	src := copyCall.Call.Args[1]
	var alts []ssa.Value
	if ph, ok := src.(*ssa.Phi); ok {
		alts = ph.Edges
	} else {
		alts = []ssa.Value{src}
	}
	for i, a := range alts {
		hasReader, hasPrefix := false, false
		for _, l := range p.LeavesNoFields(a, func(v ssa.Value) FlowAct {
			if v == ssa.Value(rdr) {
				return Stop
			}
			return Descend
		}) {
			if l == ssa.Value(rdr) {
				hasReader = true
			}
			if _, ok := l.(*ssa.MakeSlice); ok {
				hasPrefix = true
			}
			if al, ok := l.(*ssa.Alloc); ok && al.Comment == "makeslice" {
				hasPrefix = true
			}
		}
		c.Check(hasReader && hasPrefix, "R3", fmt.Sprintf("copyToTemp:source-complete#%d", i), p.InstrPos(copyCall), "the stored stream is the sniffed prefix followed by the rest of the original reader",
			"on some path the content copy does not continue with the original reader after the sniffed prefix: the stream is truncated to the prefix (e.g. when a size hint about the file at that path says nothing more is expected)")
	}
	// ---- R2 size provenance in Clean ------------------------------------------------------------------
	var hint *ssa.Parameter
	for _, prm := range cleanF.Params {
		if prm.Name() == "fileSize" || short(prm.Type().String()) == "int64" {
			hint = prm
		}
	}
	for _, ci := range CallsIn(cleanF, "lfs.NewPointer") {
		sz := ci.Common().Args[1]
		bad := false
		okSrc := true
		for _, l := range p.LeavesNoFields(sz, func(v ssa.Value) FlowAct {
			if cc, _, ok := CallResult(v); ok && nameIn(CalleeName(cc.Common()), []string{"(*lfs.GitFilter).copyToTemp", "(io/fs.FileInfo).Size", "(os.FileInfo).Size"}) {
				return Stop
			}
			return Descend
		}) {
			if l == ssa.Value(hint) {
				bad = true
			}
			if cc, idx, ok := CallResult(l); ok {
				switch CalleeName(cc.Common()) {
				case "(*lfs.GitFilter).copyToTemp":
					if idx != 1 {
						okSrc = false
					}
				case "(io/fs.FileInfo).Size", "(os.FileInfo).Size":
				default:
					okSrc = false
				}
			} else if k, isK := ConstInt(l); isK && k == 0 {
				// zero value of the variable
			} else if _, isAl := l.(*ssa.Alloc); isAl {
			} else {
				okSrc = false
			}
		}
		c.Check(!bad && okSrc, "R2", "Clean:pointer-size-provenance", p.InstrPos(ci), "the pointer's size is the copied byte count or the stat of the stored temp file", "the pointer's size can come from the size hint (a stat of the working-tree path) instead of the bytes actually stored")
		// oid provenance
		oid := ci.Common().Args[0]
		okOid := true
		for _, l := range p.LeavesNoFields(oid, func(v ssa.Value) FlowAct {
			if cc, _, ok := CallResult(v); ok && CalleeName(cc.Common()) == "(*lfs.GitFilter).copyToTemp" {
				return Stop
			}
			if _, f, _, ok := FieldOf(v); ok && f == "oidOut" {
				return Stop
			}
			return Descend
		}) {
			if cc, idx, ok := CallResult(l); ok && CalleeName(cc.Common()) == "(*lfs.GitFilter).copyToTemp" && idx == 0 {
				continue
			}
			if _, f, _, ok := FieldOf(l); ok && f == "oidOut" {
				continue
			}
			if s, isC := ConstString(l); isC && s == "" {
				continue
			}
			if _, isAl := l.(*ssa.Alloc); isAl {
				continue
			}
			okOid = false
		}
		c.Check(okOid, "R1", "Clean:pointer-oid-provenance", p.InstrPos(ci), "the pointer's oid is the tee hasher's digest (or the last extension's output digest)", "the pointer's oid does not come from the hash of the stored bytes")
	}
	// ---- R1 (extensions): failures abort ------------------------------------------------------------
	if pe := p.Fn("lfs", "pipeExtensions"); pe != nil {
		n := 0
		for _, b := range pe.Blocks {
			for _, in := range b.Instrs {
				call, ok := in.(*ssa.Call)
				if !ok {
					continue
				}
				switch CalleeName(&call.Call) {
				case "(*os/exec.Cmd).Wait", "(*subprocess.Cmd).Wait", "(*os/exec.Cmd).Start", "(*subprocess.Cmd).Start", "io.Copy", "(*io.PipeWriter).Close", "(*os.File).Close", "(io.Closer).Close", "(io.WriteCloser).Close":
					n++
					idx := 0
					if CalleeName(&call.Call) == "io.Copy" {
						idx = 1
					}
					errPropagates(c, "R1", fmt.Sprintf("pipeExtensions:%s#%d", CalleeName(&call.Call), n), pe, call, idx)
				}
			}
		}
		c.AtLeast("R1", "checked calls in pipeExtensions", n, 4)
	} else {
		c.Missing("R1", "lfs.pipeExtensions", "not found")
	}

	// ---- R4 publish identity in commands.clean ------------------------------------------------------
	var cleanCall *ssa.Call
	for _, ci := range CallsIn(clean, "(*lfs.GitFilter).Clean") {
		cleanCall, _ = ci.(*ssa.Call)
	}
	if cleanCall == nil {
		c.Missing("R4", "gf.Clean call in commands.clean", "not found")
	} else {
		isCleaned := func(v ssa.Value) bool { return ResultOfCall(v, cleanCall, 0) }
		fieldOfCleaned := func(v ssa.Value, path ...string) bool {
			// v = cleaned.<path...>
			cur := v
			for i := len(path) - 1; i >= 0; i-- {
				_, f, base, ok := FieldOf(cur)
				if !ok || f != path[i] {
					return false
				}
				cur = base
			}
			return isCleaned(cur)
		}
		for _, ci := range CallsIn(clean, "os.Rename", "tools.RobustRename", "tools.RenameFileCopyPermissions") {
			a := ci.Common().Args
			srcOK := fieldOfCleaned(a[0], "Filename")
			dstOK := false
			if oc, idx, ok := CallResult(a[1]); ok && idx == 0 && CalleeName(oc.Common()) == "(*lfs.GitFilter).ObjectPath" {
				dstOK = fieldOfCleaned(oc.Call.Args[1], "Pointer", "Oid") || fieldOfCleaned(oc.Call.Args[1], "Oid")
			}
			c.Check(srcOK && dstOK, "R4", "clean:publish-identity", p.InstrPos(ci), "the temp file of the cleaned asset is moved to the object path of that asset's oid", "the file published and the object path do not belong to the same cleaned asset")
		}
		for _, ci := range CallsIn(clean, "lfs.EncodePointer") {
			a := ci.Common().Args
			c.Check(fieldOfCleaned(a[1], "Pointer"), "R4", "clean:pointer-identity", p.InstrPos(ci), "the pointer emitted is the cleaned asset's pointer", "the pointer written to git is not the one describing the stored object")
		}
		c.AtLeast("R4", "publish sites in commands.clean", len(CallsIn(clean, "os.Rename", "tools.RobustRename", "tools.RenameFileCopyPermissions")), 1)
	}

	// ---- R5 overwrite sinks truncate -------------------------------------------------------------------
	const (
		oWRONLY = 0x1
		oRDWR   = 0x2
		oAPPEND = 0x400
		oCREATE = 0x40
		oEXCL   = 0x80
		oTRUNC  = 0x200
	)
	n := 0
	for _, fn := range p.RepoFuncs(productPkg) {
		for _, ci := range CallsIn(fn, "os.OpenFile") {
			fl, ok := ConstInt(ci.Common().Args[1])
			if !ok {
				c.Undecided("R5", "OpenFile-flags:"+FnName(fn), p.InstrPos(ci), "non-constant open flags")
				continue
			}
			if fl&(oWRONLY|oRDWR) == 0 || fl&oCREATE == 0 {
				continue
			}
			n++
			okTrunc := fl&(oTRUNC|oAPPEND|oEXCL) != 0
			if !okTrunc {
				// followed by Truncate(0) on the handle (key-value store rewrites the file wholesale)
				for _, tc := range CallsIn(fn, "(*os.File).Truncate") {
					if k, isK := ConstInt(tc.Common().Args[1]); isK && k == 0 {
						okTrunc = true
					}
				}
			}
			c.Check(okTrunc, "R5", "OpenFile-for-overwrite:"+FnName(fn), p.InstrPos(ci), "a file created/opened for writing is truncated, appended to, exclusive, or truncated explicitly", "a file is opened for writing with O_CREATE but without O_TRUNC/O_APPEND/O_EXCL: when the new content is shorter than what is at that path, stale bytes remain after it")
		}
	}
	c.AtLeast("R5", "write-opens with O_CREATE", n, 3)

	// ---- R6 smudge reads the named object ----------------------------------------------------------------
	sm := p.Fn("lfs", "(*GitFilter).Smudge")
	if sm == nil {
		c.Missing("R6", "(*lfs.GitFilter).Smudge", "not found")
	} else {
		var ptr *ssa.Parameter
		for _, prm := range sm.Params {
			if short(prm.Type().String()) == "*lfs.Pointer" {
				ptr = prm
			}
		}
		var op *ssa.Call
		for _, ci := range CallsIn(sm, "(*lfs.GitFilter).ObjectPath") {
			op, _ = ci.(*ssa.Call)
		}
		okPath := op != nil
		if okPath {
			_, f, base, ok := FieldOf(op.Call.Args[1])
			okPath = ok && f == "Oid" && SameVar(base, ptr)
		}
		c.Check(okPath, "R6", "Smudge:object-path-of-pointer", p.Pos(sm.Pos()), "the object path is computed from the pointer's own oid", "Smudge does not open the object named by the pointer it was given")
		for _, ci := range CallsIn(sm, "(*lfs.GitFilter).readLocalFile", "(*lfs.GitFilter).downloadFile", "(*lfs.GitFilter).downloadFileFallBack") {
			a := ci.Common().Args
			mediaOK := false
			for _, x := range a {
				if op != nil && ResultOfCall(x, op, 0) {
					mediaOK = true
				}
			}
			c.Check(mediaOK, "R6", "Smudge:"+CalleeName(ci.Common())+":same-object", p.InstrPos(ci), "operates on the object path of the pointer", "a different path than the pointer's object path is read/downloaded")
		}
		// size mismatch: the local read is not reachable after the mismatch branch removed the file
		for _, rc := range CallsIn(sm, "os.RemoveAll", "os.Remove") {
			reached := false
			Explore(nil, rc, nil, nil, func(in ssa.Instruction, st PState) bool {
				if cc := AsCall(in); cc != nil && CalleeName(cc) == "(*lfs.GitFilter).readLocalFile" {
					reached = true
					return false
				}
				return true
			})
			c.Check(!reached, "R6", "Smudge:size-mismatch-not-read", p.InstrPos(rc), "an object of the wrong size is removed and never read back", "after detecting an object of the wrong size Smudge can still read it into the working tree")
			// the removal is guarded by the size inequality
			pass := PassEdges(sm, func(cond ssa.Value) (bool, bool) {
				opk, x, y, ok := BinCmp(cond)
				if !ok || (opk != token.NEQ && opk != token.EQL) {
					return false, false
				}
				isPtrSize := func(v ssa.Value) bool { _, f, b, ok := FieldOf(v); return ok && f == "Size" && SameVar(b, ptr) }
				isStatSize := func(v ssa.Value) bool {
					for _, l := range p.LeavesNoFields(v, nil) {
						if cc, _, ok := CallResult(l); ok && strings.HasSuffix(CalleeName(cc.Common()), "FileInfo).Size") {
							return true
						}
					}
					return false
				}
				if isPtrSize(x) && isStatSize(y) || isPtrSize(y) && isStatSize(x) {
					return opk == token.NEQ, true
				}
				return false, false
			})
			g, path := Guarded(sm.Blocks[0], rc, pass, nil)
			c.Check(g && nonVacuous(pass), "R6", "Smudge:remove-only-on-size-mismatch", p.InstrPos(rc), "a local object is removed only when its size differs from the pointer's", "a local object can be removed without its size having been compared with the pointer's size: "+path)
		}
		// the local read happens only when the sizes were compared equal: cut the NEQ-false edges? covered by the above + download branch
	}
	for _, name := range []string{"(*GitFilter).downloadFile", "(*GitFilter).downloadFileFallBack"} {
		fn := p.Fn("lfs", name)
		if fn == nil {
			c.Missing("R6", name, "not found")
			continue
		}
		for _, rc := range CallsIn(fn, "(*lfs.GitFilter).readLocalFile") {
			pass := PassEdges(fn, func(cond ssa.Value) (bool, bool) {
				opk, x, y, ok := BinCmp(cond)
				if !ok {
					return false, false
				}
				k, isK := ConstInt(y)
				lc, isCall := x.(*ssa.Call)
				if !isK || !isCall {
					return false, false
				}
				if bi, ok := lc.Call.Value.(*ssa.Builtin); !ok || bi.Name() != "len" {
					return false, false
				}
				if ec, _, ok := CallResult(lc.Call.Args[0]); !ok || CalleeName(ec.Common()) != "(*tq.TransferQueue).Errors" {
					return false, false
				}
				switch {
				case opk == token.GTR && k == 0, opk == token.NEQ && k == 0, opk == token.GEQ && k == 1:
					return false, true
				case opk == token.EQL && k == 0:
					return true, true
				}
				return false, false
			})
			g, path := Guarded(fn.Blocks[0], rc, pass, nil)
			// and Wait() precedes
			waited := false
			for _, wc := range CallsIn(fn, "(*tq.TransferQueue).Wait") {
				if wc.Block().Dominates(rc.Block()) {
					waited = true
				}
			}
			c.Check(g && nonVacuous(pass) && waited, "R6", name+":read-after-clean-download", p.InstrPos(rc), "the object is read only after the queue was waited for and reported no errors", "the downloaded object can be read although the transfer queue reported errors (or was not waited for): "+path)
		}
	}

	// ---- R7 empty <-> empty -------------------------------------------------------------------------------
	emptyShortcutRule(c, "R7")
	c01SmudgeOrder(c)
	c01ExtensionNumbering(c)
	// the decision "this input already is a pointer" (cutoff comparisons, fill-until-full sniffing, verbatim
	// pass-through) is C08's subject; a wrong verdict there makes clean emit a pointer that does not name the
	// input, so those rules are shared
	c.RulePrefix = "C08/"
	runC08(c)
	// smudge of an absent object streams what the download adapters stored: their resume/verify rules (C02)
	c.RulePrefix = "C02/"
	runC02(c)
	c.RulePrefix = ""
	if sm != nil {
		// Smudge returns (0, nil) for ptr.Size == 0 without reading anything
		good := false
		for _, r := range ReturnsOf(sm) {
			if k, ok := ConstInt(r.Results[0]); ok && k == 0 && IsNilConst(r.Results[1]) {
				pass := PassEdges(sm, func(cond ssa.Value) (bool, bool) {
					opk, x, y, ok := BinCmp(cond)
					if !ok {
						return false, false
					}
					if k, isK := ConstInt(y); isK && k == 0 {
						if _, f, _, isF := FieldOf(x); isF && f == "Size" {
							if opk == token.EQL {
								return true, true
							}
							if opk == token.NEQ {
								return false, true
							}
						}
					}
					return false, false
				})
				if g, _ := Guarded(sm.Blocks[0], r, pass, nil); g && nonVacuous(pass) {
					good = true
				}
			}
		}
		c.Check(good, "R7", "Smudge:empty-pointer-yields-nothing", p.Pos(sm.Pos()), "a size-0 pointer smudges to zero bytes", "Smudge does not return (0, nil) exactly for a size-0 pointer")
	}
}

var c01Canaries = []Canary{
	{Name: "r7-smudge-keeps-wrong-sized-object", ExpectKey: "C01.R8#smudge:local-object-read-only-at-pointer-size", Edits: []Edit{{File: "lfs/gitfilter_smudge.go", Find: "\tstat, statErr := os.Stat(mediafile)\n\tif statErr == nil && stat != nil {\n\t\tfileSize := stat.Size()\n\t\tif fileSize != ptr.Size {\n\t\t\ttracerx.Printf(\"Removing %s, size %d is invalid\", mediafile, fileSize)\n\t\t\tos.RemoveAll(mediafile)\n\t\t\tstat = nil\n", Repl: "\tstat, statErr := os.Stat(mediafile)\n\tif statErr == nil && stat != nil {\n\t\tfileSize := stat.Size()\n\t\tif fileSize != ptr.Size && download {\n\t\t\t// Only throw the local copy away when we are allowed to\n\t\t\t// fetch a replacement for it.\n\t\t\ttracerx.Printf(\"Removing %s, size %d is invalid\", mediafile, fileSize)\n\t\t\tos.RemoveAll(mediafile)\n\t\t\tstat = nil\n"}}},
	{Name: "r6-merge-result-opened-before-program", ExpectKey: "C01.R5#merge-driver:result-opened-after-program", Edits: []Edit{{File: "commands/command_merge_driver.go", Find: "func processFiles(fileSpecifiers map[string]string, program string, outputFile string) (int, error) {\n\tdefer mergeCleanup(fileSpecifiers)\n\n\tvar exitStatus int\n\tformattedMergeProgram := subprocess.FormatPercentSequences(mergeDriverProgram, fileSpecifiers)\n\tcmd, err := subprocess.ExecCommand(\"sh\", \"-c\", formattedMergeProgram)\n", Repl: "func processFiles(fileSpecifiers map[string]string, program string, outputFile string) (int, error) {\n\tdefer mergeCleanup(fileSpecifiers)\n\n\t// Make sure the file receiving the merge result is there and readable\n\t// before spending time in the merge program.\n\tfilename := fileSpecifiers[\"D\"]\n\tinputFp, err := os.OpenFile(filename, os.O_RDONLY|os.O_CREATE, 0600)\n\tif err != nil {\n\t\treturn -1, err\n\t}\n\tdefer inputFp.Close()\n\n\tvar exitStatus int\n\tformattedMergeProgram := subprocess.FormatPercentSequences(mergeDriverProgram, fileSpecifiers)\n\tcmd, err := subprocess.ExecCommand(\"sh\", \"-c\", formattedMergeProgram)\n"}, {File: "commands/command_merge_driver.go", Find: "\t}\n\tdefer outputFp.Close()\n\n\tfilename := fileSpecifiers[\"D\"]\n\n\tstat, err := os.Stat(filename)\n\tif err != nil {\n\t\treturn -1, err\n\t}\n\n\tinputFp, err := os.OpenFile(filename, os.O_RDONLY|os.O_CREATE, 0600)\n\tif err != nil {\n\t\treturn -1, err\n\t}\n\tdefer inputFp.Close()\n\n\tgf := lfs.NewGitFilter(cfg)\n\t_, err = clean(gf, outputFp, inputFp, filename, stat.Size())\n\tif err != nil {\n", Repl: "\t}\n\tdefer outputFp.Close()\n\n\tstat, err := os.Stat(filename)\n\tif err != nil {\n\t\treturn -1, err\n\t}\n\n\tgf := lfs.NewGitFilter(cfg)\n\t_, err = clean(gf, outputFp, inputFp, filename, stat.Size())\n\tif err != nil {\n"}}},
	{Name: "r5-storage-under-raw-gitdir", ExpectKey: "C01.R13", Edits: []Edit{{File: "fs/fs.go", Find: "fs.LFSStorageDir = filepath.Join(fs.GitStorageDir, lfsdir)", Repl: "fs.LFSStorageDir = filepath.Join(gitdir, lfsdir)"}}},
	{Name: "r4-same-size-shortcut", ExpectKey: "C01.R11", Edits: []Edit{{File: "lfs/gitfilter_smudge.go", Find: "\t\tif ptr.Size == 0 && stat.Size() == 0 {", Repl: "\t\tif stat.Size() == ptr.Size {"}}},
	{Name: "r4-untyped-grace-period", ExpectKey: "C01.R12", Edits: []Edit{{File: "fs/cleanup.go", Find: "\t\tif time.Since(info.ModTime()) > time.Hour {", Repl: "\t\tif time.Since(info.ModTime()) > 3600 {"}}},
	{Name: "second-hasher", ExpectKey: "C01.R1", Edits: []Edit{{File: "lfs/gitfilter_clean.go", Find: "	oid = hex.EncodeToString(oidHash.Sum(nil))", Repl: "	oid = hex.EncodeToString(sha256.New().Sum(nil))"}}},
	{Name: "write-tmp-directly", ExpectKey: "C01.R1#copyToTemp:tee", Edits: []Edit{{File: "lfs/gitfilter_clean.go", Find: "	size, err = tools.CopyWithCallback(writer, from, fileSize, cb)", Repl: "	_ = writer\n	size, err = tools.CopyWithCallback(tmp, from, fileSize, cb)"}}},
	{Name: "size-from-hint", ExpectKey: "C01.R2", Edits: []Edit{{File: "lfs/gitfilter_clean.go", Find: "	pointer := NewPointer(oid, size, exts)", Repl: "	if fileSize > 0 {\n		size = fileSize\n	}\n	pointer := NewPointer(oid, size, exts)"}}},
	{Name: "drop-rest-on-hint", ExpectKey: "C01.R3", Edits: []Edit{{File: "lfs/gitfilter_clean.go", Find: "	from := io.MultiReader(bytes.NewReader(by), reader)", Repl: "	var from io.Reader = bytes.NewReader(by)\n	if fileSize < 0 || int64(len(by)) < fileSize {\n		from = io.MultiReader(from, reader)\n	}"}}},
	{Name: "rename-other-oid", ExpectKey: "C01.R4", Edits: []Edit{{File: "commands/command_clean.go", Find: "	mediafile, err := gf.ObjectPath(cleaned.Oid)", Repl: "	mediafile, err := gf.ObjectPath(fileName)"}}},
	{Name: "merge-driver-no-trunc", ExpectKey: "C01.R5", Edits: []Edit{{File: "commands/command_merge_driver.go", Find: "os.O_WRONLY|os.O_CREATE|os.O_TRUNC, 0600", Repl: "os.O_WRONLY|os.O_CREATE, 0600"}}},
	{Name: "read-despite-size-mismatch", ExpectKey: "C01.R6", Edits: []Edit{{File: "lfs/gitfilter_smudge.go", Find: "			os.RemoveAll(mediafile)\n			stat = nil", Repl: "			os.RemoveAll(mediafile)"}}},
	{Name: "read-despite-queue-errors", ExpectKey: "C01.R6", Edits: []Edit{{File: "lfs/gitfilter_smudge.go", Find: "	if errs := q.Errors(); len(errs) > 0 {\n		return 0, errors.Wrap(errors.Join(errs...), tr.Tr.Get(\"Error downloading %s (%s)\", workingfile, ptr.Oid))\n	}\n\n	return f.readLocalFile(writer, ptr, mediafile, workingfile, nil)\n}\n\nfunc (f *GitFilter) downloadFileFallBack", Repl: "	if errs := q.Errors(); len(errs) > 1 {\n		return 0, errors.Wrap(errors.Join(errs...), tr.Tr.Get(\"Error downloading %s (%s)\", workingfile, ptr.Oid))\n	}\n\n	return f.readLocalFile(writer, ptr, mediafile, workingfile, nil)\n}\n\nfunc (f *GitFilter) downloadFileFallBack"}}},
	{Name: "extension-failure-swallowed", ExpectKey: "C01.R1#pipeExtensions", Edits: []Edit{{File: "lfs/extension.go", Find: "		if err = ec.cmd.Wait(); err != nil {\n			if ec.err != nil {\n				errStr := ec.err.String()\n				err = errors.New(tr.Tr.Get(\"extension '%s' failed with: %s\", ec.result.name, errStr))\n			}\n			return\n		}", Repl: "		if err = ec.cmd.Wait(); err != nil && ec.err != nil {\n			errStr := ec.err.String()\n			err = errors.New(tr.Tr.Get(\"extension '%s' failed with: %s\", ec.result.name, errStr))\n			return\n		}"}}},
}

// c01SmudgeOrder (R9): the extensions recorded in a pointer were applied first-to-last by clean, so smudge has to
// undo them last-to-first. Decided on the one construction site of the smudge pipe request: its extension list
// must be the sorted list in reverse — built by appending element len-1-i for every index i of a range over the
// sorted list, or by a library reversal of a copy. Any other way of building the list is not understood and is
// reported as undecided (the order of two non-commuting extensions would silently change the bytes).
func c01SmudgeOrder(c *Ctx) {
	p := c.P
	fn := p.Fn("lfs", "(*GitFilter).readLocalFile")
	if fn == nil {
		c.Missing("R9", "(*lfs.GitFilter).readLocalFile", "not found")
		return
	}
	// the pipeRequest whose action is "smudge"
	var extsVal ssa.Value
	var at ssa.Instruction
	for _, b := range fn.Blocks {
		for _, in := range b.Instrs {
			st, ok := in.(*ssa.Store)
			if !ok {
				continue
			}
			fa, ok := st.Addr.(*ssa.FieldAddr)
			if !ok {
				continue
			}
			if t, f := fieldAddrName(fa); t == "lfs.pipeRequest" && f == "extensions" {
				extsVal, at = st.Val, in
			}
		}
	}
	if extsVal == nil {
		c.Missing("R9", "pipeRequest.extensions in readLocalFile", "construction of the smudge pipe request not found")
		return
	}
	sorted := func(v ssa.Value) bool {
		cc, idx, ok := CallResult(Unwrap(v))
		return ok && idx == 0 && CalleeName(cc.Common()) == "config.SortExtensions"
	}
	ok, why := false, "the extension list handed to the smudge pipe is built in a way the rule does not recognise as the reverse of the sorted list"
	loops := Loops(fn)
	for _, l := range p.LeavesNoFields(extsVal, func(v ssa.Value) FlowAct {
		if cc, isCall := v.(*ssa.Call); isCall {
			if bi, isB := cc.Call.Value.(*ssa.Builtin); isB && bi.Name() == "append" {
				return Stop
			}
			if strings.HasPrefix(CalleeName(&cc.Call), "slices.Clone") {
				return Stop
			}
		}
		return Descend
	}) {
		if sorted(l) {
			ok, why = false, "the sorted extension list is handed to the smudge pipe as it is: the extensions are undone in the order they were applied instead of the reverse"
			break
		}
		cc, isCall := l.(*ssa.Call)
		if !isCall {
			continue
		}
		// library form: a copy of the sorted list, reversed in place before it is used
		if strings.HasPrefix(CalleeName(&cc.Call), "slices.Clone") && len(cc.Call.Args) == 1 && sorted(cc.Call.Args[0]) {
			for _, rc := range fn.Blocks {
				for _, in := range rc.Instrs {
					if rcc := AsCall(in); rcc != nil && strings.HasPrefix(CalleeName(rcc), "slices.Reverse") && len(rcc.Args) == 1 && Unwrap(rcc.Args[0]) == ssa.Value(cc) {
						if in.Block().Dominates(at.Block()) {
							ok = true
						}
					}
				}
			}
			if !ok {
				why = "a copy of the sorted list is handed to the smudge pipe without having been reversed"
			}
			continue
		}
		bi, isB := cc.Call.Value.(*ssa.Builtin)
		if !isB || bi.Name() != "append" {
			continue
		}
		lp := LoopOf(loops, cc.Block())
		if lp == nil || lp.Kind != "rangeindex" || !sorted(lp.RangedOperand()) {
			why = "extensions are appended outside a range over the sorted list"
			continue
		}
		els := variadicElems(cc.Call.Args[1])
		if len(els) != 1 {
			continue
		}
		ld, isLd := Unwrap(els[0]).(*ssa.UnOp)
		if !isLd {
			continue
		}
		ia, isIA := ld.X.(*ssa.IndexAddr)
		if !isIA || !sorted(ia.X) {
			why = "the appended element is not taken from the sorted list"
			continue
		}
		// index == len(sorted) - 1 - i   (either association)
		if isReverseIndex(ia.Index, ia.X) {
			ok = true
		} else {
			why = "the appended element is not element len-1-i of the sorted list"
		}
	}
	c.Check(ok, "R9", "smudge-undoes-extensions-in-reverse", p.InstrPos(at), "the smudge pipe gets the sorted extensions in reverse order", why+": two extensions that do not commute are undone in the wrong order and the smudged bytes differ from what was cleaned")
}

// isReverseIndex: idx is len(list)-1-i or len(list)-(i+1) or len(list)-i-1 for a loop index i.
func isReverseIndex(idx, list ssa.Value) bool {
	isLen := func(v ssa.Value) bool {
		cc, ok := v.(*ssa.Call)
		if !ok {
			return false
		}
		bi, ok := cc.Call.Value.(*ssa.Builtin)
		return ok && bi.Name() == "len" && Unwrap(cc.Call.Args[0]) == Unwrap(list)
	}
	isOne := func(v ssa.Value) bool { k, ok := ConstInt(v); return ok && k == 1 }
	isIdx := func(v ssa.Value) bool {
		_, isPhi := v.(*ssa.Phi)
		if isPhi {
			return true
		}
		if bo, ok := v.(*ssa.BinOp); ok && bo.Op == token.ADD { // rangeindex: i = φ + 1 forms
			_, p1 := bo.X.(*ssa.Phi)
			return p1 && isOne(bo.Y)
		}
		return false
	}
	bo, ok := idx.(*ssa.BinOp)
	if !ok || bo.Op != token.SUB {
		return false
	}
	// (len - 1) - i
	if in, ok := bo.X.(*ssa.BinOp); ok && in.Op == token.SUB && isLen(in.X) && isOne(in.Y) && isIdx(bo.Y) {
		return true
	}
	// (len - i) - 1
	if in, ok := bo.X.(*ssa.BinOp); ok && in.Op == token.SUB && isLen(in.X) && isIdx(in.Y) && isOne(bo.Y) {
		return true
	}
	// len - (i + 1)
	if isLen(bo.X) {
		if in, ok := bo.Y.(*ssa.BinOp); ok && in.Op == token.ADD && (isIdx(in.X) && isOne(in.Y) || isOne(in.X) && isIdx(in.Y)) {
			return true
		}
	}
	return false
}

// c01ExtensionNumbering (R10): the pointer grammar has room for one digit of extension priority (`ext-N-name`), and
// the decoder refuses anything else. Clean therefore numbers the extension lines by their position in the list it
// emits (0, 1, 2 …), whatever priorities are configured: the priority handed to NewPointerExtension is the length
// of the list built so far.
func c01ExtensionNumbering(c *Ctx) {
	p := c.P
	fn := p.Fn("lfs", "(*GitFilter).Clean")
	if fn == nil {
		c.Missing("R10", "(*lfs.GitFilter).Clean", "not found")
		return
	}
	n := 0
	for _, ci := range CallsIn(fn, "lfs.NewPointerExtension") {
		n++
		prio := ci.Common().Args[1]
		ok := false
		if lc, isCall := Unwrap(prio).(*ssa.Call); isCall {
			if bi, isB := lc.Call.Value.(*ssa.Builtin); isB && bi.Name() == "len" {
				// of the slice the new extension is appended to
				for _, r := range Referrers(ci.(*ssa.Call)) {
					_ = r
				}
				ok = strings.HasPrefix(short(lc.Call.Args[0].Type().String()), "[]*lfs.PointerExtension")
			}
		}
		if _, isPhi := Unwrap(prio).(*ssa.Phi); isPhi {
			// a range index over the results also numbers by position
			ok = true
			for _, l := range p.LeavesNoFields(prio, nil) {
				if _, f, _, isF := FieldOf(l); isF && f == "Priority" {
					ok = false
				}
			}
		}
		c.Check(ok, "R10", fmt.Sprintf("clean:extension-lines-numbered-by-position#%d", n), p.InstrPos(ci), "extension lines are numbered 0,1,2… by position",
			"clean numbers a pointer's extension line with "+describeValue(p, prio)+" instead of its position in the list: a configured priority of 10 or more yields `ext-10-…`, which the decoder rejects — the file can be added but never checked out")
	}
	c.AtLeast("R10", "NewPointerExtension calls in Clean", n, 1)
}
