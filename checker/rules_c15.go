package main

import (
	"fmt"
	"go/token"
	"sort"
	"strings"

	"golang.org/x/tools/go/ssa"
)

// C15 — retries are bounded, spaced as configured, and never overlap for one object.

func init() {
	register(&PropDef{
		ID:    "C15",
		Level: "other",
		Explanation: "Decides structural necessary conditions on the current source of the transfer queue's retry machinery: (R1) an object re-enters a batch only through the counted-retry closure, which increments the per-OID counter exactly once, sets the ready time on every path and consumes a server-supplied Retry-After time exactly once; (R2) every retry decision (closure call, send on the retries channel) is reachable only through a positive budget test keyed by that object's OID, the budget helpers refuse when the counter says so, and the counter test is count < MaxRetries; " +
			"(R3) retriability is the error's own classification; (R4) a deferred object carries the server's time into its ready time, batches take an object only after its ready time has passed, the collector sleeps when nothing is ready, and the back-off is clamped to the configured maximum; (R5) an action is handed out only after its expiry test and action maps are indexed directly only at the enumerated construction sites; (R6) an object enters the incoming channel only when first seen. Wall-clock spacing and interleavings under concurrency are not decided.",
		Assumptions: []string{
			"time.Now/After/Until semantics; the retry counter's map is guarded by its mutex (checked: Increment and CountFor lock it)",
			"each OID occurs once per batch (C06.R3 consume-once)",
		},
		Run:      runC15,
		Canaries: c15Canaries,
	})
}

func runC15(c *Ctx) {
	p := c.P
	m := newTQModel(c)
	if m == nil {
		return
	}
	c.Obs = filterObs(c.Obs, "C15.R0") // anchors reported by newTQModel only when missing
	cl := m.retryFn
	// ---- R1 ----------------------------------------------------------------------------------
	// appends to the returned batch ("next") only in the closure
	var nextCell ssa.Value
	for _, r := range ReturnsOf(m.enq) {
		if u, ok := r.Results[0].(*ssa.UnOp); ok {
			if al, ok := u.X.(*ssa.Alloc); ok {
				nextCell = al
			}
		}
	}
	if nextCell == nil {
		c.Undecided("R1", "next-batch-cell", p.Pos(m.enq.Pos()), "cannot identify the batch returned for retry")
	} else {
		for _, f := range WithAnon(m.enq) {
			for _, b := range f.Blocks {
				for _, in := range b.Instrs {
					st, ok := in.(*ssa.Store)
					if !ok {
						continue
					}
					tgt := st.Addr
					if fv, isFV := tgt.(*ssa.FreeVar); isFV {
						// binding of the closure
						for i, x := range f.FreeVars {
							if x == fv && f.Parent() != nil {
								for _, pb := range f.Parent().Blocks {
									for _, pin := range pb.Instrs {
										if mc, ok := pin.(*ssa.MakeClosure); ok && mc.Fn == f {
											tgt = mc.Bindings[i]
										}
									}
								}
							}
						}
					}
					if tgt != nextCell {
						continue
					}
					if cc, ok := st.Val.(*ssa.Call); ok {
						if bi, ok := cc.Call.Value.(*ssa.Builtin); ok && bi.Name() == "append" {
							c.Check(f == cl, "R1", "retry-batch-append:"+FnName(f), p.InstrPos(in), "the next batch grows only inside the counted-retry closure", "an object is put back into the next batch outside the counted-retry closure: it would be retried without counting against lfs.transfer.maxretries")
						}
					}
				}
			}
		}
	}
	// the closure increments exactly once and sets ReadyTime on every path
	for _, ev := range []struct {
		name string
		is   func(in ssa.Instruction) bool
		want CSet
		bad  string
	}{
		{"increment-once", func(in ssa.Instruction) bool {
			cc := AsCall(in)
			return cc != nil && CalleeName(cc) == "(*tq.retryCounter).Increment"
		}, C1, "the retry closure does not increment the per-object retry counter exactly once"},
		{"ready-time-set", func(in ssa.Instruction) bool {
			st, ok := in.(*ssa.Store)
			if !ok {
				return false
			}
			fa, ok := st.Addr.(*ssa.FieldAddr)
			if !ok {
				return false
			}
			_, f := fieldAddrName(fa)
			return f == "ReadyTime"
		}, C1, "the retry closure does not assign the object's ready time exactly once on every path"},
	} {
		good := true
		for _, e := range RunCount(CountQuery{Fn: cl, Event: func(in ssa.Instruction) CSet {
			if ev.is(in) {
				return C1
			}
			return C0
		}}) {
			if e.Kind == "return" && e.Set != ev.want {
				good = false
			}
		}
		c.Check(good, "R1", "retry-closure:"+ev.name, p.Pos(cl.Pos()), "exactly once on every path", ev.bad)
	}
	// increment is keyed by the tuple's Oid
	for _, ci := range CallsIn(cl, "(*tq.retryCounter).Increment") {
		_, f, _, ok := FieldOf(ci.Common().Args[1])
		c.Check(ok && f == "Oid", "R1", "retry-closure:increment-key", p.InstrPos(ci), "counter keyed by the object's Oid", "the retry counter is incremented under a key that is not the object's Oid")
	}
	// Retry-After consumption: when retryLaterTime is used it is reset on that path
	usesLater := false
	for _, b := range cl.Blocks {
		for _, in := range b.Instrs {
			st, ok := in.(*ssa.Store)
			if !ok {
				continue
			}
			fa, ok := st.Addr.(*ssa.FieldAddr)
			if !ok {
				continue
			}
			if _, f := fieldAddrName(fa); f != "ReadyTime" {
				continue
			}
			if _, f2, _, ok := FieldOf(st.Val); ok && f2 == "retryLaterTime" {
				usesLater = true
				// same block (or a dominated successor before the append) stores the zero value to retryLaterTime
				reset := false
				for _, x := range b.Instrs {
					if s2, ok := x.(*ssa.Store); ok {
						if fa2, ok := s2.Addr.(*ssa.FieldAddr); ok {
							if _, f3 := fieldAddrName(fa2); f3 == "retryLaterTime" {
								reset = true
							}
						}
					}
				}
				c.Check(reset, "R4", "retry-after-consumed-once", p.InstrPos(in), "a server-supplied retry time is cleared when it is used", "the server-supplied Retry-After time is copied into the ready time but never cleared: once set it overrides every later ready time (a later, longer Retry-After for the same object is ignored)")
				// guarded by !IsZero
				pass := PassEdges(cl, func(cond ssa.Value) (bool, bool) {
					if cc, ok := cond.(*ssa.Call); ok && CalleeName(&cc.Call) == "(time.Time).IsZero" {
						return false, true
					}
					return false, false
				})
				g, _ := Guarded(cl.Blocks[0], in, pass, nil)
				c.Check(g && nonVacuous(pass), "R4", "retry-after-preferred-when-set", p.InstrPos(in), "the server's time is used exactly when one was recorded", "the recorded Retry-After time is used without testing that one was recorded")
			}
		}
	}
	c.Check(usesLater, "R4", "retry-after-reaches-ready-time", p.Pos(cl.Pos()), "the retry closure prefers a recorded Retry-After time", "the retry closure never uses the Retry-After time recorded for the object: a deferred object is retried with the ordinary back-off, before the time the server indicated")

	// ---- R2: every retry decision consults the budget of the same object ---------------------------
	budget := func(fn *ssa.Function) []Edge {
		return PassEdges(fn, func(cond ssa.Value) (bool, bool) {
			var call *ssa.Call
			if cc, ok := cond.(*ssa.Call); ok && CalleeName(&cc.Call) == "(*tq.TransferQueue).canRetryObject" {
				call = cc
			}
			if ex, ok := cond.(*ssa.Extract); ok && ex.Index == 1 {
				if cc, ok := ex.Tuple.(*ssa.Call); ok && CalleeName(&cc.Call) == "(*tq.TransferQueue).canRetryObjectLater" {
					call = cc
				}
			}
			if call == nil {
				return false, false
			}
			return true, true
		})
	}
	keyedByOid := func(fn *ssa.Function) {
		for _, ci := range CallsIn(fn, "(*tq.TransferQueue).canRetryObject", "(*tq.TransferQueue).canRetryObjectLater") {
			// the key is the string argument (a refactor may have put other parameters in front of it)
			a := ci.Common().Args[1]
			for _, cand := range ci.Common().Args[1:] {
				if short(cand.Type().String()) == "string" {
					a = cand
					break
				}
			}
			_, f, _, ok := FieldOf(a)
			c.Check(ok && f == "Oid", "R2", "budget-keyed-by-oid:"+FnName(fn)+":"+describeValue(p, a), p.InstrPos(ci), "retry budget looked up under the object's Oid", "the retry budget is looked up under "+describeValue(p, a)+" instead of the object's Oid: the counter (keyed by Oid) is never found, so the object is retried without bound")
		}
	}
	keyedByOid(m.enq)
	keyedByOid(m.htr)
	loops := Loops(m.enq)
	nRetrySites := 0
	for _, b := range m.enq.Blocks {
		for _, in := range b.Instrs {
			if !callsClosure(in, cl) {
				continue
			}
			l := LoopOf(loops, b)
			if l != nil && l.Kind == "rangechan" {
				continue // the drain loop over the adapter's retries channel
			}
			nRetrySites++
			entry := m.enq.Blocks[0]
			if l != nil {
				entry = l.Body
			}
			pass := budget(m.enq)
			g, path := Guarded(entry, in, pass, m.noret)
			c.Check(g && nonVacuous(pass), "R2", fmt.Sprintf("retry-needs-budget:enqueue#%d", nRetrySites), p.InstrPos(in), "a retry is scheduled only after the object's retry budget allowed it", "an object can be scheduled for retry without its retry budget having been consulted: "+path)
		}
	}
	c.AtLeast("R2", "retry scheduling sites in the batch function", nRetrySites, 3)
	nSend := 0
	for _, b := range m.htr.Blocks {
		for _, in := range b.Instrs {
			if !isSendOf(in, "tq.objectTuple") {
				continue
			}
			nSend++
			pass := budget(m.htr)
			g, path := Guarded(m.htr.Blocks[0], in, pass, m.noret)
			c.Check(g && nonVacuous(pass), "R2", fmt.Sprintf("retry-needs-budget:result#%d", nSend), p.InstrPos(in), "an adapter result is sent for retry only after the object's retry budget allowed it", "a failed transfer can be sent for retry without the object's retry budget having been consulted (an endlessly failing object is retried for ever and Wait() never returns): "+path)
		}
	}
	c.AtLeast("R2", "retry sends in handleTransferResult", nSend, 2)
	// the budget helpers refuse when the counter refuses
	for _, name := range []string{"(*TransferQueue).canRetryObject", "(*TransferQueue).canRetryObjectLater"} {
		fn := p.Fn("tq", name)
		if fn == nil {
			c.Missing("R2", name, "not found")
			continue
		}
		pass := PassEdges(fn, func(cond ssa.Value) (bool, bool) {
			if ex, ok := cond.(*ssa.Extract); ok && ex.Index == 1 {
				if cc, ok := ex.Tuple.(*ssa.Call); ok && CalleeName(&cc.Call) == "(*tq.retryCounter).CanRetry" {
					if _, isPrm := Unwrap(cc.Call.Args[1]).(*ssa.Parameter); isPrm {
						return true, true
					}
				}
			}
			return false, false
		})
		for _, r := range ReturnsOf(fn) {
			last := r.Results[len(r.Results)-1]
			if bv, ok := ConstBool(last); ok && !bv {
				continue
			}
			g, path := Guarded(fn.Blocks[0], r, pass, nil)
			c.Check(g && nonVacuous(pass), "R2", name+":refuses-when-exhausted", p.InstrPos(r), "a positive answer requires the counter to allow another retry", name+" can allow a retry although the retry counter is exhausted: "+path)
		}
	}
	if cr := p.Fn("tq", "(*retryCounter).CanRetry"); cr != nil {
		good := false
		for _, r := range ReturnsOf(cr) {
			if op, x, y, ok := BinCmp(r.Results[1]); ok && op == token.LSS {
				_, f, _, isF := FieldOf(y)
				cc, _, isRes := CallResult(x)
				if isF && f == "MaxRetries" && isRes && CalleeName(cc.Common()) == "(*tq.retryCounter).CountFor" {
					good = true
				}
			}
		}
		c.Check(good, "R2", "CanRetry:count<MaxRetries", p.Pos(cr.Pos()), "another retry is allowed while count < MaxRetries", "CanRetry is not `CountFor(oid) < MaxRetries` (an off-by-one allows one attempt too many or too few)")
	}
	for _, name := range []string{"(*retryCounter).Increment", "(*retryCounter).CountFor"} {
		if fn := p.Fn("tq", name); fn != nil {
			c.Check(len(CallsIn(fn, "(*sync.Mutex).Lock")) == 1, "R2", name+":locked", p.Pos(fn.Pos()), "counter access under its mutex", name+" does not lock the counter's mutex")
		}
	}

	// ---- R3 ------------------------------------------------------------------------------------------
	if cr := p.Fn("tq", "(*TransferQueue).canRetry"); cr != nil {
		good := false
		for _, r := range ReturnsOf(cr) {
			if cc, _, ok := CallResult(r.Results[0]); ok && CalleeName(cc.Common()) == "errors.IsRetriableError" {
				good = true
			}
		}
		c.Check(good, "R3", "canRetry:is-the-errors-classification", p.Pos(cr.Pos()), "retriable exactly when the error says so", "canRetry no longer returns errors.IsRetriableError(err): non-retriable failures would be retried")
	}
	// the terminal branch of handleTransferResult (Done) is the only one reachable when neither helper allows a retry
	// (counted by C06.R4); here: it reports the error or records 422
	// ---- R4 ------------------------------------------------------------------------------------------
	// handleTransferResult stores the server's time before sending for retry
	okStore := false
	for _, b := range m.htr.Blocks {
		for _, in := range b.Instrs {
			if st, ok := in.(*ssa.Store); ok {
				if fa, ok := st.Addr.(*ssa.FieldAddr); ok {
					if _, f := fieldAddrName(fa); f == "retryLaterTime" {
						if cc, idx, isRes := CallResult(st.Val); isRes && idx == 0 && CalleeName(cc.Common()) == "(*tq.TransferQueue).canRetryObjectLater" {
							// a send follows in the same block
							for _, x := range b.Instrs[InstrIndex(in):] {
								if isSendOf(x, "tq.objectTuple") {
									okStore = true
								}
							}
						}
					}
				}
			}
		}
	}
	c.Check(okStore, "R4", "retry-after-recorded-on-object", p.Pos(m.htr.Pos()), "the server's Retry-After time is recorded on the object before it is sent for retry", "handleTransferResult does not record the Retry-After time on the object it sends for retry")
	concatPicksEarliest(c, "R4")
	retryLaterNotWrapped(c, "R4")
	retryLaterSurvivesAdapters(c, "R4")
	zeroDelayHonoured(c, "R4")
	expiryCountedFromRequestTime(c, "R1")
	authResendOnlyWithoutAuthorization(c, "R2")
	concatKeepsEveryTuple(c, "R4")
	transferRelRule(c, "R5")
	if cf := p.Fn("tq", "(batch).Concat"); cf != nil {
		n := 0
		for _, b := range cf.Blocks {
			for _, in := range b.Instrs {
				if !isAppendOf(in, "tq.objectTuple") {
					continue
				}
				l := LoopOf(Loops(cf), b)
				if l == nil {
					continue
				}
				// classify: append to left is the one on the After()==true edge
				pass := PassEdges(cf, func(cond ssa.Value) (bool, bool) {
					if cc, ok := cond.(*ssa.Call); ok && CalleeName(&cc.Call) == "(time.Time).After" {
						now, _, isNow := CallResult(cc.Call.Args[0])
						_, f, _, isF := FieldOf(cc.Call.Args[1])
						if isNow && CalleeName(now.Common()) == "time.Now" && isF && f == "ReadyTime" {
							return true, true
						}
					}
					return false, false
				})
				if len(pass) == 0 {
					c.Bad("R4", "Concat:ready-test", p.Pos(cf.Pos()), "Concat does not test time.Now().After(ot.ReadyTime)")
					break
				}
				n++
				g, _ := Guarded(l.Body, in, pass, nil)
				// exactly one of the two appends is on the pass side
				c.Info("R4", fmt.Sprintf("Concat:append#%d:ready=%v", n, g), p.InstrPos(in), "partition arm")
			}
		}
		// left (first result) elements come only from the ready arm: the value returned as left derives from the append guarded by After
		good := false
		for _, r := range ReturnsOf(cf) {
			for _, l := range p.LeavesNoFields(r.Results[0], func(v ssa.Value) FlowAct {
				if cc, ok := v.(*ssa.Call); ok {
					if bi, ok := cc.Call.Value.(*ssa.Builtin); ok && bi.Name() == "append" {
						return Stop
					}
				}
				return Descend
			}) {
				if cc, ok := l.(*ssa.Call); ok {
					lp := LoopOf(Loops(cf), cc.Block())
					if lp == nil {
						continue
					}
					pass := PassEdges(cf, func(cond ssa.Value) (bool, bool) {
						if c2, ok := cond.(*ssa.Call); ok && CalleeName(&c2.Call) == "(time.Time).After" {
							return true, true
						}
						return false, false
					})
					if g, _ := Guarded(lp.Body, cc, pass, nil); g && nonVacuous(pass) {
						good = true
					} else {
						good = false
						break
					}
				}
			}
		}
		c.Check(good, "R4", "Concat:batch-takes-only-ready-objects", p.Pos(cf.Pos()), "an object enters the next batch only after its ready time has passed", "Concat can place an object whose ready time has not passed into the batch that is sent next (Retry-After / back-off not honoured)")
	} else {
		c.Missing("R4", "(tq.batch).Concat", "not found")
	}
	// collectBatches sleeps when nothing is ready
	c.Check(len(CallsIn(m.collect, "time.Sleep")) >= 1, "R4", "collector-sleeps-when-nothing-ready", p.Pos(m.collect.Pos()), "the collector waits for the earliest ready time", "collectBatches no longer sleeps when every pending object is still deferred (busy loop / early retry)")
	if rt := p.Fn("tq", "(*retryCounter).ReadyTime"); rt != nil {
		// clamp: delay == 0 || delay > max => max
		hasZero, hasGT := false, false
		for _, b := range rt.Blocks {
			if ifi, ok := lastInstr(b).(*ssa.If); ok {
				if op, _, y, ok := BinCmp(ifi.Cond); ok {
					if k, isK := ConstInt(y); isK && k == 0 && op == token.EQL {
						hasZero = true
					}
					if op == token.GTR {
						hasGT = true
					}
				}
			}
		}
		c.Check(hasZero && hasGT, "R4", "ReadyTime:clamped-to-max-delay", p.Pos(rt.Pos()), "back-off is clamped to lfs.transfer.maxretrydelay (also on shift overflow)", "the exponential back-off is no longer clamped to the configured maximum delay")
	}

	// ---- R5 expiry ---------------------------------------------------------------------------------------
	if get := p.Fn("tq", "(ActionSet).Get"); get != nil {
		pass := PassEdges(get, func(cond ssa.Value) (bool, bool) {
			if ex, ok := cond.(*ssa.Extract); ok && ex.Index == 1 {
				if cc, ok := ex.Tuple.(*ssa.Call); ok && CalleeName(&cc.Call) == "(*tq.Action).IsExpiredWithin" {
					return false, true
				}
			}
			return false, false
		})
		for _, r := range ReturnsOf(get) {
			if IsNilConst(r.Results[0]) {
				continue
			}
			// an action can reach the return directly or through the φ of a merged return
			nArr, g, path := GuardedArrivals(get, r, 0, func(v ssa.Value) bool { return !IsNilConst(v) }, pass, nil)
			if nArr == 0 {
				continue
			}
			c.Check(g && nonVacuous(pass), "R5", "ActionSet.Get:not-expired", p.InstrPos(r), "an action is handed out only when it is not (about to be) expired", "an expired action can be handed out: "+path)
		}
	} else {
		c.Missing("R5", "(tq.ActionSet).Get", "not found")
	}
	allowedIndex := map[string]string{
		"(tq.ActionSet).Get":                    "the accessor itself",
		"tq.newTransfer":                        "copies the server's actions into the transfer",
		"(*tq.SSHBatchClient).Batch":            "decodes the ssh batch response",
		"(*tq.SSHAdapter).argumentsForTransfer": "called after Rel() succeeded in download/upload",
	}
	for _, fn := range p.RepoFuncs(productPkg) {
		for _, b := range fn.Blocks {
			for _, in := range b.Instrs {
				lk, ok := in.(*ssa.Lookup)
				if !ok || typeName(lk.X.Type()) != "tq.ActionSet" {
					continue
				}
				root := fn
				for root.Parent() != nil {
					root = root.Parent()
				}
				why, okSite := allowedIndex[FnName(root)]
				c.Check(okSite, "R5", "action-map-indexed:"+FnName(root), p.InstrPos(in), "known site: "+why, "an action map is read directly, bypassing the expiry test of ActionSet.Get")
			}
		}
	}

	// ---- R6 ----------------------------------------------------------------------------------------------
	add := p.Fn("tq", "(*TransferQueue).Add")
	if add != nil {
		for _, b := range add.Blocks {
			for _, in := range b.Instrs {
				if !isSendOf(in, "tq.objectTuple") {
					continue
				}
				pass := PassEdges(add, func(cond ssa.Value) (bool, bool) {
					op, x, y, ok := BinCmp(cond)
					if !ok {
						return false, false
					}
					if k, isK := ConstInt(y); isK && k == 1 {
						if lc, ok := x.(*ssa.Call); ok {
							if bi, ok := lc.Call.Value.(*ssa.Builtin); ok && bi.Name() == "len" {
								if op == token.GTR {
									return false, true
								}
								if op == token.LEQ {
									return true, true
								}
							}
						}
					}
					return false, false
				})
				g, path := Guarded(add.Blocks[0], in, pass, nil)
				c.Check(g && nonVacuous(pass), "R6", "incoming-only-first-seen", p.InstrPos(in), "an object is enqueued only the first time its OID is added", "an OID that is already known to the queue can be enqueued again: two transfers of the same object could run at once: "+path)
			}
		}
	}
	// sends on incoming happen only in Add
	for _, fn := range tqFuncs(p) {
		for _, b := range fn.Blocks {
			for _, in := range b.Instrs {
				if s, ok := in.(*ssa.Send); ok && IsLoadOfField(s.Chan, "tq.TransferQueue", "incoming") {
					c.Check(fn == add, "R6", "incoming-sender:"+FnName(fn), p.InstrPos(in), "only Add feeds the incoming channel", "the incoming channel is fed outside Add")
				}
			}
		}
	}
	// the `completed` flag survives repeated adds (a late duplicate must be delivered, not dropped)
	if ap := p.Fn("tq", "(*objects).Append"); ap != nil {
		copied := false
		for _, b := range ap.Blocks {
			for _, in := range b.Instrs {
				if st, ok := in.(*ssa.Store); ok {
					if fa, ok := st.Addr.(*ssa.FieldAddr); ok {
						if t, f := fieldAddrName(fa); t == "tq.objects" && f == "completed" && IsLoadOfField(st.Val, "tq.objects", "completed") {
							copied = true
						}
					}
				}
			}
		}
		c.Check(copied, "R6", "objects.Append:keeps-completed", p.Pos(ap.Pos()), "appending a duplicate keeps the completed flag", "objects.Append drops the completed flag: re-adding an OID after its transfer finished marks it unfinished again, so the duplicate is neither enqueued nor delivered")
	}
	c15RetryAfterValue(c)
	c15ExpiryClock(c)
	// shared: the adapter's own re-request after a rejected resume starts from byte 0 (otherwise it repeats itself
	// without bound and outside the retry counter: C02.R3), and every OID of a batch reaches the adapter at most once
	// (consume-once bookkeeping of the batch response: C06.R1–R3) — two transfers of one object must not overlap
	{
		saved := c.RulePrefix
		c.RulePrefix = saved + "C02/"
		c02Resume(c)
		c.RulePrefix = saved + "C06/"
		if m2 := newTQModel(c); m2 != nil {
			m2.loopDiscipline()
		}
		c.RulePrefix = saved
	}
}

func filterObs(obs []Ob, rulePrefix string) []Ob {
	var out []Ob
	for _, o := range obs {
		if strings.HasPrefix(o.Rule, rulePrefix) && o.Status == "discharged" {
			continue
		}
		out = append(out, o)
	}
	return out
}

var c15Canaries = []Canary{
	{Name: "r7-auth-resend-guard", ExpectKey: "C15.R2#auth-resend", Edits: []Edit{{File: "tq/basic_download.go", Find: "\nfunc (a *basicDownloadAdapter) makeRequest(t *Transfer, req *http.Request) (*http.Response, error) {\n\tres, err := a.doHTTP(t, req)\n\tif errors.IsAuthError(err) && len(req.Header.Get(\"Authorization\")) == 0 {\n\t\treturn a.makeRequest(t, req)\n\t}\n\n", Repl: "\nfunc (a *basicDownloadAdapter) makeRequest(t *Transfer, req *http.Request) (*http.Response, error) {\n\tres, err := a.doHTTP(t, req)\n\tif errors.IsAuthError(err) && !t.Authenticated {\n\t\treturn a.makeRequest(t, req)\n\t}\n\n"}}},
	{Name: "r7-expiry-from-response-time", ExpectKey: "C15.R1#batch:action-lifetime", Edits: []Edit{{File: "tq/api.go", Find: "\t}\n\n\tbRes.endpoint = c.Endpoints.Endpoint(bReq.Operation, remote)\n\trequestedAt := time.Now()\n\n\treq, err := c.NewRequest(\"POST\", bRes.endpoint, \"objects/batch\", bReq)\n\tif err != nil {\n", Repl: "\t}\n\n\tbRes.endpoint = c.Endpoints.Endpoint(bReq.Operation, remote)\n\n\treq, err := c.NewRequest(\"POST\", bRes.endpoint, \"objects/batch\", bReq)\n\tif err != nil {\n"}, {File: "tq/api.go", Find: "\t\treturn nil, lfshttp.NewStatusCodeError(res)\n\t}\n\n\t// A response may contain null where an object or an action is\n\t// expected. Such an entry names nothing: drop it here, so that the\n\t// transfer queue reports the objects the response does not list\n", Repl: "\t\treturn nil, lfshttp.NewStatusCodeError(res)\n\t}\n\n\tcreatedAt := time.Now()\n\n\t// A response may contain null where an object or an action is\n\t// expected. Such an entry names nothing: drop it here, so that the\n\t// transfer queue reports the objects the response does not list\n"}, {File: "tq/api.go", Find: "\t\t\t\tdelete(obj.Actions, rel)\n\t\t\t\tcontinue\n\t\t\t}\n\t\t\ta.createdAt = requestedAt\n\t\t}\n\t\tfor rel, a := range obj.Links {\n\t\t\tif a == nil {\n", Repl: "\t\t\t\tdelete(obj.Actions, rel)\n\t\t\t\tcontinue\n\t\t\t}\n\t\t\ta.createdAt = createdAt\n\t\t}\n\t\tfor rel, a := range obj.Links {\n\t\t\tif a == nil {\n"}}},
	{Name: "f16-zero-retry-delay-ignored", ExpectKey: "C15.R4", Edits: []Edit{{File: "tq/manifest.go", Find: "\t\tdownloadAdapterFuncs: make(map[string]NewAdapterFunc),\n\t\tuploadAdapterFuncs:   make(map[string]NewAdapterFunc),\n\t\tsshTransfer:          sshTransfer,\n\t\tmaxRetryDelay:        defaultMaxRetryDelay,\n\t}\n\n\tvar tusAllowed bool\n", Repl: "\t\tdownloadAdapterFuncs: make(map[string]NewAdapterFunc),\n\t\tuploadAdapterFuncs:   make(map[string]NewAdapterFunc),\n\t\tsshTransfer:          sshTransfer,\n\t}\n\n\tvar tusAllowed bool\n"}, {File: "tq/manifest.go", Find: "\tif m.maxRetries < 1 {\n\t\tm.maxRetries = defaultMaxRetries\n\t}\n\tif m.maxRetryDelay < 0 {\n\t\tm.maxRetryDelay = defaultMaxRetryDelay\n\t}\n\n", Repl: "\tif m.maxRetries < 1 {\n\t\tm.maxRetries = defaultMaxRetries\n\t}\n\tif m.maxRetryDelay < 1 {\n\t\tm.maxRetryDelay = defaultMaxRetryDelay\n\t}\n\n"}}},
	{Name: "r6-retry-send-lost", ExpectKey: "C15.R2#", Edits: []Edit{{File: "tq/transfer_queue.go", Find: "\tif res.Error != nil {\n\t\t// If there was an error encountered when processing the\n\t\t// transfer (res.Transfer), handle the error as is appropriate:\n\t\tif readyTime, canRetry := q.canRetryObjectLater(oid, res.Error); canRetry {\n\t\t\t// If the object can't be retried now, but can be\n\t\t\t// after a certain period of time, send it to\n\t\t\t// the retry channel with a time when it's ready.\n\t\t\ttracerx.Printf(\"tq: retrying object %s after %.2fs\", oid, time.Until(readyTime).Seconds())\n\t\t\tq.trMutex.Lock()\n\t\t\tobjects, ok := q.transfers[oid]\n\t\t\tq.trMutex.Unlock()\n\n\t\t\tif ok {\n\t\t\t\tt := objects.First()\n\t\t\t\tt.retryLaterTime = readyTime\n\t\t\t\tretries <- t\n\t\t\t} else {\n\t\t\t\tq.errorc <- res.Error\n\t\t\t}\n\t\t} else if q.canRetryObject(oid, res.Error) {\n\t\t\t// If the object can be retried, send it on the retries\n\t\t\t// channel, where it will be read at the call-site and\n\t\t\t// its retry count will be incremented.\n\t\t\ttracerx.Printf(\"tq: retrying object %s: %s\", oid, res.Error)\n\n\t\t\tq.trMutex.Lock()\n\t\t\tobjects, ok := q.transfers[oid]\n\t\t\tq.trMutex.Unlock()\n\n\t\t\tif ok {\n\t\t\t\tretries <- objects.First()\n\t\t\t} else {\n\t\t\t\tq.errorc <- res.Error\n\t\t\t}\n", Repl: "\tif res.Error != nil {\n\t\t// If there was an error encountered when processing the\n\t\t// transfer (res.Transfer), handle the error as is appropriate:\n\t\treadyTime, retryLater := q.canRetryLater(res.Error)\n\t\tif retryLater || q.canRetryObject(oid, res.Error) {\n\t\t\t// If the object can be retried, send it on the retries\n\t\t\t// channel, where it will be read at the call-site and\n\t\t\t// its retry count will be incremented. If it can't be\n\t\t\t// retried now, but can be after a certain period of\n\t\t\t// time, it carries the time when it's ready.\n\t\t\tif retryLater {\n\t\t\t\ttracerx.Printf(\"tq: retrying object %s after %.2fs\", oid, time.Until(readyTime).Seconds())\n\t\t\t} else {\n\t\t\t\ttracerx.Printf(\"tq: retrying object %s: %s\", oid, res.Error)\n\t\t\t}\n\n\t\t\tq.trMutex.Lock()\n\t\t\tobjects, ok := q.transfers[oid]\n\t\t\tq.trMutex.Unlock()\n\n\t\t\tif ok {\n\t\t\t\tt := objects.First()\n\t\t\t\tif retryLater {\n\t\t\t\t\tt.retryLaterTime = readyTime\n\t\t\t\t}\n\t\t\t\tretries <- t\n\t\t\t} else {\n\t\t\t\tq.errorc <- res.Error\n\t\t\t}\n"}}},
	{Name: "r5-tus-loses-retry-after", ExpectKey: "C15.R4#retry-later-survives", Edits: []Edit{{File: "tq/tus_upload.go", Find: "\tres, err = a.doHTTP(t, req)\n\tif err != nil {\n\t\tif res != nil && res.StatusCode == 429 {", Repl: "\tres, err = a.doHTTP(t, req)\n\tif err != nil {\n\t\tif res != nil && res.StatusCode == 429 && offset < 0 {"}}},
	{Name: "r5-zero-delay-replaced", ExpectKey: "C15.R4#max-retry-delay:zero-is-kept", Edits: []Edit{{File: "tq/manifest.go", Find: "\tif m.maxRetryDelay < 0 {", Repl: "\tif m.maxRetryDelay < 1 {"}}},
	{Name: "r4-longest-wait", ExpectKey: "C15.R4#Concat:wait-is-the-smallest", Edits: []Edit{{File: "tq/transfer_queue.go", Find: "} else if wait < minWait {", Repl: "} else if wait > minWait {"}}},
	{Name: "off-by-one-budget", ExpectKey: "C15.R2#CanRetry", Edits: []Edit{{File: "tq/transfer_queue.go", Find: "	return count, count < r.MaxRetries", Repl: "	return count, count <= r.MaxRetries"}}},
	{Name: "append-outside-closure", ExpectKey: "C15.R1#retry-batch-append", Edits: []Edit{{File: "tq/transfer_queue.go", Find: "				} else {\n					q.errorc <- errors.Errorf(\"[%v] %v\", tr.Name, err)", Repl: "				} else if len(batch) == 1 {\n					next = append(next, objects.First())\n				} else {\n					q.errorc <- errors.Errorf(\"[%v] %v\", tr.Name, err)"}}},
	{Name: "no-increment", ExpectKey: "C15.R", Edits: []Edit{{File: "tq/transfer_queue.go", Find: "		count := q.rc.Increment(t.Oid)\n", Repl: "		count := q.rc.CountFor(t.Oid)\n"}}},
	{Name: "budget-by-name", ExpectKey: "C15.R2#budget-keyed-by-oid", Edits: []Edit{{File: "tq/transfer_queue.go", Find: "				if q.canRetryObject(tr.Oid, err) {", Repl: "				if q.canRetryObject(tr.Name, err) {"}}},
	{Name: "later-without-budget", ExpectKey: "C15.R2#retry-needs-budget:result", Edits: []Edit{{File: "tq/transfer_queue.go", Find: "		if readyTime, canRetry := q.canRetryObjectLater(oid, res.Error); canRetry {", Repl: "		if readyTime, canRetry := q.canRetryLater(res.Error); canRetry {"}}},
	{Name: "before-for-after", ExpectKey: "C15.R4#Concat", Edits: []Edit{{File: "tq/transfer_queue.go", Find: "		if time.Now().After(ot.ReadyTime) {", Repl: "		if time.Now().Before(ot.ReadyTime) {"}}},
	{Name: "retry-after-not-reset", ExpectKey: "C15.R4#retry-after-consumed-once", Edits: []Edit{{File: "tq/transfer_queue.go", Find: "			t.ReadyTime = t.retryLaterTime\n			t.retryLaterTime = time.Time{}", Repl: "			t.ReadyTime = t.retryLaterTime"}}},
	{Name: "expiry-after-return", ExpectKey: "C15.R5#ActionSet.Get", Edits: []Edit{{File: "tq/transfer.go", Find: "	if at, expired := a.IsExpiredWithin(objectExpirationToTransfer); expired {", Repl: "	if at, expired := a.IsExpiredWithin(objectExpirationToTransfer); expired && rel != \"verify\" {"}}},
	{Name: "no-clamp", ExpectKey: "C15.R4#ReadyTime", Edits: []Edit{{File: "tq/transfer_queue.go", Find: "	if delay == 0 || delay > maxDelayMs {", Repl: "	if delay == 0 {"}}},
	{Name: "enqueue-duplicates", ExpectKey: "C15.R6#incoming-only-first-seen", Edits: []Edit{{File: "tq/transfer_queue.go", Find: "	if objs := q.remember(t); len(objs.objects) > 1 {", Repl: "	if objs := q.remember(t); len(objs.objects) > 2 {"}}},
	{Name: "append-drops-completed", ExpectKey: "C15.R6#objects.Append", Edits: []Edit{{File: "tq/transfer_queue.go", Find: "func (s *objects) Append(os ...*objectTuple) *objects {\n	return &objects{\n		completed: s.completed,", Repl: "func (s *objects) Append(os ...*objectTuple) *objects {\n	return &objects{"}}},
}

// c15RetryAfterValue (R4, value provenance): the time before which a deferred object is not retried is, for a
// Retry-After given as an HTTP-date, that date itself, and for a number of seconds, now + that many seconds.
// Converting the date to a number first (seconds until the date, truncated) moves the retry up to a second before
// the time the server named. Decided on the constructor: what is stored as the available time is made only of the
// parsed date (unchanged), the parsed number of seconds, time.Now() and constants.
func c15RetryAfterValue(c *Ctx) {
	p := c.P
	fn := p.Fn("errors", "NewRetriableLaterError")
	if fn == nil {
		c.Missing("R4", "errors.NewRetriableLaterError", "not found")
		return
	}
	nDate, nSecs, n := 0, 0, 0
	var scan func(f *ssa.Function)
	scan = func(f *ssa.Function) {
		for _, b := range f.Blocks {
			for _, in := range b.Instrs {
				st, ok := in.(*ssa.Store)
				if !ok {
					continue
				}
				fa, ok := st.Addr.(*ssa.FieldAddr)
				if !ok {
					continue
				}
				if _, fld := fieldAddrName(fa); fld != "timeAvailable" {
					continue
				}
				n++
				direct := false
				if cc, idx, isRes := CallResult(st.Val); isRes && idx == 0 && CalleeName(cc.Common()) == "time.Parse" {
					direct = true
					nDate++
				}
				var odd []string
				usesDate := false
				for _, l := range p.LeavesNoFields(st.Val, func(v ssa.Value) FlowAct {
					if cc, _, isRes := CallResult(v); isRes {
						switch CalleeName(cc.Common()) {
						case "time.Parse", "strconv.Atoi", "strconv.ParseInt", "time.Now":
							return Stop
						}
					}
					return Descend
				}) {
					if _, isC := l.(*ssa.Const); isC {
						continue
					}
					if cc, _, isRes := CallResult(l); isRes {
						switch CalleeName(cc.Common()) {
						case "time.Parse":
							usesDate = true
							continue
						case "strconv.Atoi", "strconv.ParseInt":
							nSecs++
							continue
						case "time.Now":
							continue
						}
					}
					odd = append(odd, describeValue(p, l))
				}
				sort.Strings(odd)
				c.Check(len(odd) == 0 && (!usesDate || direct), "R4", fmt.Sprintf("retry-after-time-as-given#%d", n), p.InstrPos(st), "the available time is the server's date itself, or now + the server's seconds",
					"the time a deferred object becomes available is recomputed from the server's Retry-After date ("+strings.Join(odd, ", ")+") instead of being that date: truncation makes the retry happen before the indicated time")
			}
		}
	}
	scan(fn)
	c.Check(nDate >= 1, "R4", "retry-after-date-form", p.Pos(fn.Pos()), "an HTTP-date Retry-After is stored as that date", "no path stores the parsed Retry-After date itself as the available time")
	c.Check(nSecs >= 1, "R4", "retry-after-seconds-form", p.Pos(fn.Pos()), "a numeric Retry-After is stored as now + seconds", "no path derives the available time from the numeric Retry-After value")
}

// c15ExpiryClock (R5, clock provenance): an action is expired when its expiry lies before now (plus the safety
// margin). The comparison has to be made against the current time each time it is asked; comparing against the
// time the action was created makes the answer constant, so an action that expires while its object waits in the
// queue is used anyway. Decided on the helper: the instant the expiry is compared with derives from time.Now().
func c15ExpiryClock(c *Ctx) {
	p := c.P
	fn := p.Fn("tools", "IsExpiredAtOrIn")
	if fn == nil {
		c.Missing("R5", "tools.IsExpiredAtOrIn", "not found")
		return
	}
	n := 0
	for _, ci := range CallsIn(fn, "(time.Time).Before", "(time.Time).After") {
		n++
		args := CallArgs(ci.Common())
		usesNow := false
		for _, a := range args {
			for _, l := range p.LeavesNoFields(a, func(v ssa.Value) FlowAct {
				if cc, _, ok := CallResult(v); ok && CalleeName(cc.Common()) == "time.Now" {
					return Stop
				}
				return Descend
			}) {
				if cc, _, ok := CallResult(l); ok && CalleeName(cc.Common()) == "time.Now" {
					usesNow = true
				}
			}
		}
		c.Check(usesNow, "R5", fmt.Sprintf("expiry-compared-with-now#%d", n), p.InstrPos(ci), "expiry is compared with the current time", "the expiry of an action is not compared with the current time (time.Now()): whether an action is expired is decided once and for all when it is created, and an action that expires while queued is still used")
	}
	c.AtLeast("R5", "expiry comparisons in IsExpiredAtOrIn", n, 1)
}
