package main

import (
	"encoding/json"
	"fmt"
	"go/constant"
	"go/token"
	"go/types"
	"os"
	"path/filepath"
	"reflect"
	"sort"
	"strings"

	"golang.org/x/tools/go/ssa"
)

// C18 — every API request git-lfs emits conforms to the published LFS API.

func init() {
	register(&PropDef{
		ID:    "C18",
		Level: "other",
		Explanation: "Decides structural necessary conditions on the current source, against the JSON schemas published under docs/api/schemas: (R1) type-level agreement of the request structs with their schemas — every required property is a field that is always emitted with a matching JSON type, emitted field names are declared properties where the schema is closed; (R2) the objects of a batch request are built only by batch.ToTransfers(), which sets nothing but oid and size (so the closed item schema holds and only requested objects are named), and paging fields of lock requests carry only the caller's limit and the server's cursor; " +
			"(R3) the LFS media type constants and the Accept/Content-Type headers of API and verify requests, and the four sites that create HTTP requests; (R4) transfer requests take URL and headers from the action they were offered and use the operation's method; (R5) a batch response naming a hash algorithm other than sha256 is rejected before it is acted upon, and requests always announce sha256; (R6) negative sizes are refused before any transfer. JSON escaping and values that are empty only at run time (listed, not judged) are not decided.",
		Assumptions: []string{
			"encoding/json emits exactly the tagged field names; omitempty drops zero values",
			"the schemas under docs/api/schemas are the published contract (draft-04 subset: type, properties, required, items, additionalProperties, minimum)",
		},
		Run:      runC18,
		Canaries: c18Canaries,
	})
}

type jsonSchema struct {
	Type                 interface{}            `json:"type"`
	Properties           map[string]*jsonSchema `json:"properties"`
	Required             []string               `json:"required"`
	Items                *jsonSchema            `json:"items"`
	AdditionalProperties *bool                  `json:"additionalProperties"`
}

func loadSchema(repo, name string) (*jsonSchema, error) {
	b, err := os.ReadFile(filepath.Join(repo, "docs", "api", "schemas", name))
	if err != nil {
		return nil, err
	}
	var s jsonSchema
	if err := json.Unmarshal(b, &s); err != nil {
		return nil, err
	}
	return &s, nil
}

type jsonField struct {
	name      string
	omitempty bool
	typ       types.Type
	goName    string
}

func jsonFields(st *types.Struct) []jsonField {
	var out []jsonField
	for i := 0; i < st.NumFields(); i++ {
		f := st.Field(i)
		if !f.Exported() {
			continue
		}
		tag := reflect.StructTag(st.Tag(i)).Get("json")
		name := f.Name()
		omit := false
		if tag != "" {
			parts := strings.Split(tag, ",")
			if parts[0] == "-" {
				continue
			}
			if parts[0] != "" {
				name = parts[0]
			}
			for _, o := range parts[1:] {
				if o == "omitempty" {
					omit = true
				}
			}
		}
		out = append(out, jsonField{name, omit, f.Type(), f.Name()})
	}
	return out
}

func jsonKind(t types.Type) string {
	switch u := t.Underlying().(type) {
	case *types.Basic:
		switch {
		case u.Info()&types.IsString != 0:
			return "string"
		case u.Info()&types.IsBoolean != 0:
			return "boolean"
		case u.Info()&types.IsNumeric != 0:
			return "number"
		}
	case *types.Slice, *types.Array:
		return "array"
	case *types.Map, *types.Struct:
		return "object"
	case *types.Pointer:
		return jsonKind(u.Elem())
	}
	return "?"
}

func schemaType(s *jsonSchema) string {
	if t, ok := s.Type.(string); ok {
		if t == "integer" {
			return "number"
		}
		return t
	}
	return ""
}

func structOfType(t types.Type) *types.Struct {
	for {
		switch u := t.Underlying().(type) {
		case *types.Pointer:
			t = u.Elem()
		case *types.Slice:
			t = u.Elem()
		case *types.Struct:
			return u
		default:
			return nil
		}
	}
}

// compareStructSchema reports disagreements between a Go struct type and a schema.
func compareStructSchema(c *Ctx, rule, label string, st *types.Struct, s *jsonSchema, pos string, setFields map[string]bool) {
	fields := jsonFields(st)
	byName := map[string]jsonField{}
	for _, f := range fields {
		byName[f.name] = f
	}
	for _, req := range s.Required {
		f, ok := byName[req]
		if !ok {
			c.Bad(rule, label+":required("+req+")", pos, "the schema requires property "+req+" but the request type has no such JSON field")
			continue
		}
		if f.omitempty {
			// listed, not judged: whether the value can be empty is a run-time fact
			c.Info(rule, label+":required-but-omitempty("+req+")", pos, "required by the schema but tagged omitempty (dropped only when empty at run time)")
		} else {
			c.OK(rule, label+":required("+req+")", pos, "required property is always emitted")
		}
	}
	var names []string
	for n := range byName {
		names = append(names, n)
	}
	sort.Strings(names)
	for _, n := range names {
		f := byName[n]
		ps, declared := s.Properties[n]
		if !declared {
			closed := s.AdditionalProperties != nil && !*s.AdditionalProperties
			if closed {
				if setFields != nil && !setFields[f.goName] {
					c.OK(rule, label+":undeclared-never-set("+n+")", pos, "field is outside the closed schema but is never set on request objects (R2)")
				} else {
					c.Bad(rule, label+":undeclared("+n+")", pos, "the request can carry JSON property "+n+" which the closed schema (additionalProperties:false) does not declare")
				}
			}
			continue
		}
		want := schemaType(ps)
		got := jsonKind(f.typ)
		if want != "" {
			c.Check(want == got, rule, label+":type("+n+")", pos, "JSON type "+got, fmt.Sprintf("property %s is emitted as JSON %s but the schema declares %s", n, got, want))
		}
		if want == "object" && ps.Properties != nil {
			if sub := structOfType(f.typ); sub != nil {
				compareStructSchema(c, rule, label+"."+n, sub, ps, pos, nil)
			}
		}
		if want == "array" && ps.Items != nil && schemaType(ps.Items) == "object" {
			if sub := structOfType(f.typ); sub != nil {
				compareStructSchema(c, rule, label+"."+n+"[]", sub, ps.Items, pos, setFields)
			}
		}
	}
	// properties the schema declares and the type cannot express are fine (optional)
}

func namedStruct(p *Prog, pkg, name string) (*types.Struct, string) {
	pk := p.byPath[PkgPath(pkg)]
	if pk == nil {
		return nil, "-"
	}
	obj := pk.Types.Scope().Lookup(name)
	if obj == nil {
		return nil, "-"
	}
	st, _ := obj.Type().Underlying().(*types.Struct)
	return st, p.Pos(obj.Pos())
}

func runC18(c *Ctx) {
	p := c.P
	redirectKeepsRequest(c, "R7")
	offeredAuthorizationKept(c, "R4")
	lockQueryEncoded(c, "R1")
	verifyUsesOnlyVerifyAction(c, "R4")
	newTransferCopiesServerFields(c, "R2")
	actionSetsCopiedFromTheirOwn(c, "R2")
	refspecQualifiesTypedNames(c, "R3")
	extraHeadersAreAdded(c, "R4")
	// ---- R2 first: which Transfer fields are set on request objects --------------------------
	setFields := map[string]bool{}
	tt := p.Fn("tq", "(batch).ToTransfers")
	if tt == nil {
		c.Missing("R2", "(tq.batch).ToTransfers", "not found")
	} else {
		for _, b := range tt.Blocks {
			for _, in := range b.Instrs {
				if st, ok := in.(*ssa.Store); ok {
					if fa, ok := st.Addr.(*ssa.FieldAddr); ok {
						if t, f := fieldAddrName(fa); t == "tq.Transfer" {
							setFields[f] = true
						}
					}
				}
			}
		}
		var fs []string
		for f := range setFields {
			fs = append(fs, f)
		}
		sort.Strings(fs)
		allowed := map[string]bool{"Oid": true, "Size": true, "Missing": true}
		good := true
		for _, f := range fs {
			if !allowed[f] {
				good = false
			}
		}
		c.Check(good && setFields["Oid"] && setFields["Size"], "R2", "batch-objects:fields-set", p.Pos(tt.Pos()), "request objects carry oid and size only ("+strings.Join(fs, ",")+")", "batch request objects are built with fields other than oid/size ("+strings.Join(fs, ",")+"): the closed item schema of the batch request forbids them")
		// values come from the queued tuple
		for _, b := range tt.Blocks {
			for _, in := range b.Instrs {
				if st, ok := in.(*ssa.Store); ok {
					if fa, ok := st.Addr.(*ssa.FieldAddr); ok {
						if t, f := fieldAddrName(fa); t == "tq.Transfer" {
							t2, f2, _, ok2 := FieldOf(st.Val)
							c.Check(ok2 && t2 == "tq.objectTuple" && f2 == f, "R2", "batch-objects:"+f+"-from-queued-object", p.InstrPos(in), "copied from the queued object", "the "+f+" of a batch request object is not copied from the queued object's "+f)
						}
					}
				}
			}
		}
	}
	// batchRequest.Objects only from ToTransfers (through the Batch wrapper's parameter)
	n := 0
	for _, v := range p.FieldStores("tq.batchRequest.Objects") {
		n++
		okv := false
		if prm, ok := Unwrap(v).(*ssa.Parameter); ok {
			// parameter of tq.Batch: all call sites pass ToTransfers()
			fn := prm.Parent()
			idx := -1
			for i, q := range fn.Params {
				if q == prm {
					idx = i
				}
			}
			all, cnt := true, 0
			for _, caller := range p.RepoFuncs(productPkg) {
				for _, b := range caller.Blocks {
					for _, in := range b.Instrs {
						if cc := AsCall(in); cc != nil && cc.StaticCallee() == fn {
							cnt++
							if !ResultOfCallNamed(cc.Args[idx], "(tq.batch).ToTransfers") {
								all = false
							}
						}
					}
				}
			}
			okv = all && cnt > 0
		}
		if ResultOfCallNamed(v, "(tq.batch).ToTransfers") {
			okv = true
		}
		c.Check(okv, "R2", fmt.Sprintf("batch-objects:source#%d", n), "-", "the objects of a batch request come from batch.ToTransfers()", "a batch request's objects are assigned from something other than batch.ToTransfers(): objects the caller did not ask about (or extra fields) could be sent")
	}
	c.AtLeast("R2", "stores to batchRequest.Objects", n, 1)
	// paging fields
	for _, fld := range []string{"locking.lockVerifiableRequest.Limit", "locking.lockSearchRequest.Limit"} {
		for i, v := range p.FieldStores(fld) {
			_, isPrm := Unwrap(v).(*ssa.Parameter)
			_, isC := v.(*ssa.Const)
			c.Check(isPrm || isC, "R2", fmt.Sprintf("%s#%d", fld, i), "-", "the limit sent is the caller's limit", "the limit of a lock listing request is computed ("+describeValue(p, v)+") instead of being the caller's limit: it can become negative on later pages")
		}
	}
	for _, fld := range []string{"locking.lockVerifiableRequest.Cursor", "locking.lockSearchRequest.Cursor"} {
		for i, v := range p.FieldStores(fld) {
			_, f, _, ok := FieldOf(v)
			_, isC := v.(*ssa.Const)
			c.Check(ok && f == "NextCursor" || isC, "R2", fmt.Sprintf("%s#%d", fld, i), "-", "the cursor sent is the server's next_cursor", "the cursor of a lock listing request does not come from the server's next_cursor")
		}
	}

	// ---- R1 type-level ---------------------------------------------------------------------------
	for _, pair := range []struct{ pkg, typ, schema string }{
		{"tq", "batchRequest", "http-batch-request-schema.json"},
		{"locking", "lockRequest", "http-lock-create-request-schema.json"},
		{"locking", "unlockRequest", "http-lock-delete-request-schema.json"},
	} {
		st, pos := namedStruct(p, pair.pkg, pair.typ)
		if st == nil {
			c.Missing("R1", pair.pkg+"."+pair.typ, "request type not found")
			continue
		}
		s, err := loadSchema(p.Dir, pair.schema)
		if err != nil {
			c.Missing("R1", pair.schema, err.Error())
			continue
		}
		var sf map[string]bool
		if pair.typ == "batchRequest" {
			sf = setFields
		}
		compareStructSchema(c, "R1", pair.typ, st, s, pos, sf)
	}
	// the verify request body: {oid,size} per docs/api/basic-transfers.md
	if vu := p.Fn("tq", "verifyUpload"); vu != nil {
		found := false
		for _, ci := range CallsIn(vu, "lfsapi.MarshalToRequest", "lfshttp.MarshalToRequest") {
			body := ci.Common().Args[1]
			if st := structOfType(Unwrap(body).Type()); st != nil {
				found = true
				var names []string
				for _, f := range jsonFields(st) {
					names = append(names, f.name+":"+jsonKind(f.typ)+map[bool]string{true: "?", false: ""}[f.omitempty])
				}
				sort.Strings(names)
				c.Check(strings.Join(names, ",") == "oid:string,size:number", "R1", "verify-body", p.InstrPos(ci), "verify request body is {oid, size}", "the verify request body is {"+strings.Join(names, ",")+"} instead of {oid:string,size:number}")
			}
		}
		c.Check(found, "R1", "verify-body:present", p.Pos(vu.Pos()), "verify body found", "cannot find the verify request body")
	}

	// ---- R3 media types / request construction sites ---------------------------------------------
	mt := constStringOf(p, "lfshttp", "MediaType")
	rct := constStringOf(p, "lfshttp", "RequestContentType")
	c.Check(mt == "application/vnd.git-lfs+json", "R3", "MediaType", "-", "LFS media type", "lfshttp.MediaType is "+fmt.Sprintf("%q", mt))
	c.Check(rct == "application/vnd.git-lfs+json; charset=utf-8", "R3", "RequestContentType", "-", "LFS request content type", "lfshttp.RequestContentType is "+fmt.Sprintf("%q", rct))
	hdr := func(fn *ssa.Function, key string) (string, ssa.Instruction, bool) {
		for _, b := range fn.Blocks {
			for _, in := range b.Instrs {
				if _, k, v, ok := isHeaderWrite(in); ok {
					if ks, isC := ConstString(k); isC && ks == key {
						vs, _ := ConstString(v)
						return vs, in, true
					}
				}
			}
		}
		return "", nil, false
	}
	if nr := p.Fn("lfshttp", "(*Client).NewRequest"); nr != nil {
		v, in, ok := hdr(nr, "Accept")
		c.Check(ok && v == mt, "R3", "NewRequest:Accept", p.Pos(nr.Pos()), "Accept is the LFS media type", "API requests do not carry Accept: "+mt)
		if ok {
			// unconditional: the block dominates every non-error return
			good := true
			for _, r := range ReturnsOf(nr) {
				if !IsNilConst(r.Results[1]) && !in.Block().Dominates(r.Block()) {
					continue
				}
				if IsNilConst(r.Results[1]) && !in.Block().Dominates(r.Block()) {
					good = false
				}
			}
			c.Check(good, "R3", "NewRequest:Accept-always", p.InstrPos(in), "set on every successful path", "Accept is not set on every path that returns a request")
		}
		v2, _, ok2 := hdr(nr, "Content-Type")
		c.Check(ok2 && v2 == rct, "R3", "NewRequest:Content-Type", p.Pos(nr.Pos()), "Content-Type of a request body is the LFS media type", "API request bodies are not sent as "+rct)
	}
	if vu := p.Fn("tq", "verifyUpload"); vu != nil {
		v, _, ok := hdr(vu, "Accept")
		v2, _, ok2 := hdr(vu, "Content-Type")
		c.Check(ok && ok2 && v == mt && strings.HasPrefix(v2, mt), "R3", "verifyUpload:media-type", p.Pos(vu.Pos()), "verify requests use the LFS media type", "the verify request does not carry the LFS media type in Accept/Content-Type")
	}
	sites := map[string]bool{}
	for _, fn := range p.RepoFuncs(productPkg) {
		for range CallsIn(fn, "net/http.NewRequest", "net/http.NewRequestWithContext") {
			sites[FnName(fn)] = true
		}
	}
	allowedSites := map[string]bool{"(*lfshttp.Client).NewRequest": true, "lfshttp.newRequestForRetry": true, "(*tq.adapterBase).newHTTPRequest": true, "tq.verifyUpload": true}
	for s := range sites {
		c.Check(allowedSites[s], "R3", "http.NewRequest-site:"+s, "-", "known request construction site", "an HTTP request is built at a site the API rules do not know: "+s)
	}
	c.AtLeast("R3", "http.NewRequest sites", len(sites), 4)
	// API calls in tq/locking build their request through (*lfshttp.Client).NewRequest
	for _, pkgName := range []string{"tq", "locking"} {
		for _, fn := range p.RepoFuncs(func(s string) bool { return s == Mod+"/"+pkgName }) {
			for _, ci := range CallsIn(fn, "(*lfsapi.Client).DoAPIRequestWithAuth", "(*lfsapi.Client).DoWithAuth", "(*lfsapi.Client).Do") {
				req := ci.Common().Args[len(ci.Common().Args)-1]
				okSrc := false
				for _, l := range p.LeavesNoFields(req, func(v ssa.Value) FlowAct {
					if cc, _, ok := CallResult(v); ok {
						n := CalleeName(cc.Common())
						if n == "(*lfshttp.Client).NewRequest" || n == "(*lfsapi.Client).NewRequest" || n == "net/http.NewRequest" || n == "(*tq.adapterBase).newHTTPRequest" {
							return Stop
						}
					}
					return Descend
				}) {
					if cc, _, ok := CallResult(l); ok {
						n := CalleeName(cc.Common())
						if n == "(*lfshttp.Client).NewRequest" || n == "(*lfsapi.Client).NewRequest" || n == "net/http.NewRequest" || n == "(*tq.adapterBase).newHTTPRequest" {
							okSrc = true
						}
					}
					if _, isPrm := l.(*ssa.Parameter); isPrm {
						okSrc = true
					}
				}
				c.Check(okSrc, "R3", "request-source:"+FnName(fn), p.InstrPos(ci), "the request sent was built by a known constructor", "a request of unknown construction is sent")
			}
		}
	}

	// ---- R4 actions used as offered -------------------------------------------------------------------
	if nh := p.Fn("tq", "(*adapterBase).newHTTPRequest"); nh != nil {
		for _, ci := range CallsIn(nh, "net/http.NewRequest") {
			a := ci.Common().Args
			okURL := false
			for _, l := range p.LeavesNoFields(a[1], func(v ssa.Value) FlowAct {
				if _, f, _, ok := FieldOf(v); ok && f == "Href" {
					return Stop
				}
				return Descend
			}) {
				if t, f, _, ok := FieldOf(l); ok && t == "tq.Action" && f == "Href" {
					okURL = true
				}
			}
			c.Check(okURL, "R4", "newHTTPRequest:url-from-action", p.InstrPos(ci), "the URL is the action's href (optionally rewritten)", "a transfer request's URL does not derive from the offered action's href")
			_, isPrm := Unwrap(a[0]).(*ssa.Parameter)
			c.Check(isPrm, "R4", "newHTTPRequest:method-from-caller", p.InstrPos(ci), "method chosen by the operation", "the HTTP method is not the one the calling operation specifies")
		}
		// every header of the action is set
		good := false
		for _, l := range Loops(nh) {
			if _, f, _, ok := FieldOf(l.RangedOperand()); ok && f == "Header" {
				for b := range l.Region {
					for _, in := range b.Instrs {
						if _, _, _, ok := isHeaderWrite(in); ok {
							good = true
						}
					}
				}
			}
		}
		c.Check(good, "R4", "newHTTPRequest:action-headers", p.Pos(nh.Pos()), "every header of the action is put on the request", "the action's headers are not copied onto the transfer request")
	} else {
		c.Missing("R4", "(*tq.adapterBase).newHTTPRequest", "not found")
	}
	wantMethod := map[string][]string{
		"(*tq.basicDownloadAdapter).download": {"GET"},
		"(*tq.basicUploadAdapter).DoTransfer": {"PUT"},
		"(*tq.tusUploadAdapter).DoTransfer":   {"HEAD", "PATCH"},
	}
	for fnName, want := range wantMethod {
		var fn *ssa.Function
		for _, f := range tqFuncs(p) {
			if FnName(f) == fnName {
				fn = f
			}
		}
		if fn == nil {
			c.Missing("R4", fnName, "not found")
			continue
		}
		var got []string
		for _, ci := range CallsIn(fn, "(*tq.adapterBase).newHTTPRequest") {
			// the method is the constant string among the arguments (wherever a refactor put it)
			m := ""
			for _, a := range ci.Common().Args[1:] {
				if sv, isC := ConstString(a); isC {
					m = sv
					break
				}
			}
			got = append(got, m)
		}
		sort.Strings(got)
		c.Check(strings.Join(got, ",") == strings.Join(want, ","), "R4", "method:"+fnName, p.Pos(fn.Pos()), "uses "+strings.Join(want, ","), fnName+" uses HTTP method(s) "+strings.Join(got, ",")+" instead of "+strings.Join(want, ","))
	}
	if vu := p.Fn("tq", "verifyUpload"); vu != nil {
		for _, ci := range CallsIn(vu, "net/http.NewRequest") {
			m, _ := ConstString(ci.Common().Args[0])
			_, f, _, ok := FieldOf(ci.Common().Args[1])
			c.Check(m == "POST" && ok && f == "Href", "R4", "verify:POST-to-action-href", p.InstrPos(ci), "verify is a POST to the verify action's href", "the verify request is not a POST to the verify action's href")
		}
	}

	// ---- R5 hash algorithm ---------------------------------------------------------------------------
	if bf := p.Fn("tq", "(*tqClient).Batch"); bf != nil {
		pass := PassEdges(bf, func(cond ssa.Value) (bool, bool) {
			op, x, y, ok := BinCmp(cond)
			if !ok || (op != token.EQL && op != token.NEQ) {
				return false, false
			}
			s, isC := ConstString(y)
			t, f, _, isF := FieldOf(x)
			if isC && isF && f == "HashAlgorithm" && t == "tq.BatchResponse" && (s == "sha256" || s == "") {
				return op == token.EQL, true
			}
			return false, false
		})
		// the decode call
		var dec ssa.CallInstruction
		for _, ci := range CallsIn(bf, "lfshttp.DecodeJSON") {
			dec = ci
		}
		for _, r := range ReturnsOf(bf) {
			if !IsNilConst(r.Results[1]) {
				continue
			}
			if dec == nil || !dec.Block().Dominates(r.Block()) {
				continue // the empty-request shortcut
			}
			g, path := Guarded(dec.Block(), r, pass, nil)
			c.Check(g && nonVacuous(pass), "R5", "Batch:unsupported-hash-rejected", p.InstrPos(r), "a response is returned for use only when its hash_algo is absent or sha256", "a batch response can be acted upon without its hash_algo having been tested (the test must be on the RESPONSE's field): "+path)
		}
		// a wrong-struct test is a tell-tale
		for _, b := range bf.Blocks {
			if ifi, ok := lastInstr(b).(*ssa.If); ok {
				cond, _ := stripNot(ifi.Cond)
				if _, x, _, ok := BinCmp(cond); ok {
					if t, f, _, isF := FieldOf(x); isF && f == "HashAlgorithm" && t != "tq.BatchResponse" {
						c.Bad("R5", "Batch:tests-request-instead-of-response", p.InstrPos(ifi), "the hash-algorithm test reads "+t+".HashAlgorithm, not the response's")
					}
				}
			}
		}
	} else {
		c.Missing("R5", "(*tq.tqClient).Batch", "not found")
	}
	for i, v := range p.FieldStores("tq.batchRequest.HashAlgorithm") {
		s, ok := ConstString(v)
		c.Check(ok && s == "sha256", "R5", fmt.Sprintf("request-announces-sha256#%d", i), "-", "hash_algo sha256", "a batch request is built with a hash_algo other than the constant \"sha256\"")
	}
	if sb := p.Fn("tq", "(*SSHBatchClient).Batch"); sb != nil {
		found := false
		for _, b := range sb.Blocks {
			if ifi, ok := lastInstr(b).(*ssa.If); ok {
				cond, _ := stripNot(ifi.Cond)
				if op, x, y, ok := BinCmp(cond); ok && (op == token.NEQ || op == token.EQL) {
					if s, isC := ConstString(y); isC && s == "sha256" {
						if _, f, _, isF := FieldOf(x); isF && f == "HashAlgorithm" {
							found = true
						}
					}
				}
			}
		}
		c.Check(found, "R5", "SSHBatch:unsupported-hash-rejected", p.Pos(sb.Pos()), "the ssh batch client tests the announced hash algorithm", "the ssh batch client no longer tests the hash algorithm the server announces")
	}

	// ---- R6 sizes ---------------------------------------------------------------------------------------
	if wk := p.Fn("tq", "(*adapterBase).worker"); wk != nil {
		for _, ci := range CallsIn(wk, "(tq.transferImplementation).DoTransfer") {
			pass := PassEdges(wk, func(cond ssa.Value) (bool, bool) {
				op, x, y, ok := BinCmp(cond)
				if !ok {
					return false, false
				}
				if k, isK := ConstInt(y); isK && k == 0 {
					if _, f, _, isF := FieldOf(x); isF && f == "Size" {
						switch op {
						case token.LSS:
							return false, true
						case token.GEQ:
							return true, true
						}
					}
				}
				return false, false
			})
			loops := Loops(wk)
			entry := wk.Blocks[0]
			if l := LoopOf(loops, ci.Block()); l != nil {
				entry = l.Body
			}
			g, path := Guarded(entry, ci, pass, nil)
			c.Check(g && nonVacuous(pass), "R6", "worker:negative-size-refused", p.InstrPos(ci), "a transfer with a negative size is refused before it starts", "a transfer with a negative size can reach the adapter: "+path)
		}
	}
	c18ActionHeadersWin(c)
	c18AdapterAsNamed(c)
	c18PointerSizesNonNegative(c)
}

func constStringOf(p *Prog, pkg, name string) string {
	pk := p.byPath[PkgPath(pkg)]
	if pk == nil {
		return ""
	}
	if cst, ok := pk.Types.Scope().Lookup(name).(*types.Const); ok && cst.Val().Kind() == constant.String {
		return constant.StringVal(cst.Val())
	}
	return ""
}

var c18Canaries = []Canary{
	{Name: "r7-refspec-keeps-qualified-name", ExpectKey: "C18.R3#refspec", Edits: []Edit{{File: "git/git.go", Find: "\t\treturn \"\"\n\t}\n\n\tprefix, ok := r.Type.Prefix()\n\tif ok {\n\t\treturn fmt.Sprintf(\"%s/%s\", prefix, r.Name)\n", Repl: "\t\treturn \"\"\n\t}\n\n\t// Some callers hand us a name that is fully qualified already; do not\n\t// qualify it a second time (\"refs/heads/refs/heads/main\").\n\tif strings.HasPrefix(r.Name, \"refs/\") {\n\t\treturn r.Name\n\t}\n\n\tprefix, ok := r.Type.Prefix()\n\tif ok {\n\t\treturn fmt.Sprintf(\"%s/%s\", prefix, r.Name)\n"}}},
	{Name: "r6-extra-header-replaces", ExpectKey: "C18.R4#extra-headers:appended", Edits: []Edit{{File: "lfshttp/client.go", Find: "\t\tcopy[k] = vs\n\t}\n\n\tfor k, vs := range extraHeaders {\n\t\tfor _, v := range vs {\n\t\t\tcopy[k] = append(copy[k], v)\n\t\t}\n\t}\n\treturn copy\n}\n", Repl: "\t\tcopy[k] = vs\n\t}\n\n\t// This runs once per attempt (authentication retries and redirects come\n\t// back through here with the same request), so assign the configured\n\t// values instead of appending them again on every pass.\n\tfor k, vs := range extraHeaders {\n\t\tcopy[k] = vs\n\t}\n\treturn copy\n}\n"}}},
	{Name: "r5-offered-authorization-dropped", ExpectKey: "C18.R4#authorization-dropped-only-if-own", Edits: []Edit{{File: "lfsapi/auth.go", Find: "\t\t\tif credWrapper.Creds != nil {\n\t\t\t\treq.Header.Del(\"Authorization\")", Repl: "\t\t\treq.Header.Del(\"Authorization\")\n\t\t\tif credWrapper.Creds != nil {"}}},
	{Name: "r4-redirect-drops-body", ExpectKey: "C18.R7#redirect:carries-Body", Edits: []Edit{{File: "lfshttp/client.go", Find: "\tnewReq.Body = req.Body\n", Repl: "\tif req.Method != \"POST\" {\n\t\tnewReq.Body = req.Body\n\t}\n"}}},
	{Name: "rename-operation-tag", ExpectKey: "C18.R1#batchRequest:required(operation)", Edits: []Edit{{File: "tq/api.go", Find: "`json:\"operation\"`", Repl: "`json:\"op\"`"}}},
	{Name: "size-renamed", ExpectKey: "C18.R1", Edits: []Edit{{File: "tq/transfer.go", Find: "	Size          int64        `json:\"size\"`", Repl: "	Size          int64        `json:\"length\"`"}}},
	{Name: "path-in-request-objects", ExpectKey: "C18.R2#batch-objects:fields-set", Edits: []Edit{{File: "tq/transfer_queue.go", Find: "		transfers = append(transfers, &Transfer{Oid: t.Oid, Size: t.Size, Missing: t.Missing})", Repl: "		transfers = append(transfers, &Transfer{Oid: t.Oid, Size: t.Size, Missing: t.Missing, Path: t.Path})"}}},
	{Name: "hash-test-on-request", ExpectKey: "C18.R5", Edits: []Edit{{File: "tq/api.go", Find: "	if bRes.HashAlgorithm != \"\" && bRes.HashAlgorithm != \"sha256\" {", Repl: "	if bRes.HashAlgorithm != \"\" && bReq.HashAlgorithm != \"sha256\" {"}}},
	{Name: "accept-json", ExpectKey: "C18.R3#NewRequest:Accept", Edits: []Edit{{File: "lfshttp/client.go", Find: "	req.Header.Set(\"Accept\", MediaType)", Repl: "	req.Header.Set(\"Accept\", \"application/json\")"}}},
	{Name: "negative-limit", ExpectKey: "C18.R2#locking.lockVerifiableRequest.Limit", Edits: []Edit{{File: "locking/locks.go", Find: "			if list.NextCursor != \"\" {\n				body.Cursor = list.NextCursor\n			} else {\n				break\n			}\n		}\n\n		if limit == 0 {", Repl: "			if list.NextCursor != \"\" {\n				body.Cursor = list.NextCursor\n				body.Limit = limit - (len(ourLocks) + len(theirLocks))\n			} else {\n				break\n			}\n		}\n\n		if limit == 0 {"}}},
	{Name: "upload-with-post", ExpectKey: "C18.R4#method", Edits: []Edit{{File: "tq/basic_upload.go", Find: "	req, err := a.newHTTPRequest(\"PUT\", rel)", Repl: "	req, err := a.newHTTPRequest(\"POST\", rel)"}}},
	{Name: "verify-body-extra-field", ExpectKey: "C18.R1#verify-body", Edits: []Edit{{File: "tq/verify.go", Find: "		Oid  string `json:\"oid\"`\n		Size int64  `json:\"size\"`\n	}{Oid: t.Oid, Size: t.Size})", Repl: "		Oid  string `json:\"oid\"`\n		Size int64  `json:\"size\"`\n		Name string `json:\"name\"`\n	}{Oid: t.Oid, Size: t.Size, Name: t.Name})"}}},
	{Name: "negative-size-not-refused", ExpectKey: "C18.R6", Edits: []Edit{{File: "tq/adapterbase.go", Find: "		if t.Size < 0 {\n			err = errors.New(tr.Tr.Get(\"object %q has invalid size (got: %d)\", t.Oid, t.Size))\n		} else {", Repl: "		if t.Size < -1 {\n			err = errors.New(tr.Tr.Get(\"object %q has invalid size (got: %d)\", t.Oid, t.Size))\n		} else {"}}},
}

// c18ActionHeadersWin (R4, headers): an action's `header` object is part of what the server offered (pre-signed URLs
// sign some of them). The client may add headers of its own, but a header the action named is used as offered: a
// constant-key Header.Set on a transfer request either belongs to the frozen list of client-owned headers below,
// comes before the action's headers are applied (defaults), or is guarded by a test that the request does not
// carry that header yet.
var c18ClientHeaders = map[string]string{
	"(*tq.basicDownloadAdapter).download:Range":          "byte range of a resumed download (the client's own request parameter)",
	"(*tq.basicUploadAdapter).DoTransfer:Content-Length": "length of the object, only when the action did not ask for chunked encoding",
	"(*tq.tusUploadAdapter).DoTransfer:Tus-Resumable":    "tus protocol version",
	"(*tq.tusUploadAdapter).DoTransfer:Upload-Offset":    "tus protocol offset",
	"(*tq.tusUploadAdapter).DoTransfer:Content-Type":     "tus protocol media type",
	"(*tq.tusUploadAdapter).DoTransfer:Content-Length":   "tus protocol: remaining length",
	"tq.verifyUpload:Content-Type":                       "default, set before the verify action's own headers are applied",
	"tq.verifyUpload:Accept":                             "default, set before the verify action's own headers are applied",
}

func c18ActionHeadersWin(c *Ctx) {
	p := c.P
	n := 0
	for _, fn := range p.RepoFuncs(func(s string) bool { return s == Mod+"/tq" }) {
		root := fn
		for root.Parent() != nil {
			root = root.Parent()
		}
		for _, ci := range CallsIn(fn, "(net/http.Header).Set", "(net/http.Header).Add", "(net/http.Header).Del") {
			args := CallArgs(ci.Common())
			if len(args) < 2 {
				continue
			}
			k, isC := ConstString(args[1])
			if !isC {
				continue // copying the action's headers
			}
			n++
			id := FnName(root) + ":" + k
			if why, ok := c18ClientHeaders[id]; ok {
				if strings.HasPrefix(why, "default") {
					// the action's headers must be applied afterwards: a non-constant Set later in the function
					later := false
					for _, cj := range CallsIn(fn, "(net/http.Header).Set") {
						a2 := CallArgs(cj.Common())
						if _, c2 := ConstString(a2[1]); !c2 {
							if ci.Block() != cj.Block() && ci.Block().Dominates(cj.Block()) || ci.Block() == cj.Block() && InstrIndex(ci) < InstrIndex(cj) {
								later = true
							}
						}
					}
					c.Check(later, "R4", "header-default-before-action:"+id, p.InstrPos(ci), why, "a default header is set after (or without) the action's headers being applied: it overrides what the action offered")
				} else {
					c.OK("R4", "client-header:"+id, p.InstrPos(ci), why)
				}
				continue
			}
			// must be guarded by an absence test of the same header
			pass := PassEdges(fn, func(cond ssa.Value) (bool, bool) {
				op, x, y, ok := BinCmp(cond)
				if !ok {
					return false, false
				}
				isGet := func(v ssa.Value) bool {
					cc, ok := v.(*ssa.Call)
					if !ok {
						return false
					}
					if bi, isB := cc.Call.Value.(*ssa.Builtin); isB && bi.Name() == "len" {
						v = cc.Call.Args[0]
						cc, ok = v.(*ssa.Call)
						if !ok {
							return false
						}
					}
					if CalleeName(&cc.Call) != "(net/http.Header).Get" {
						return false
					}
					ga := CallArgs(&cc.Call)
					s, isS := ConstString(ga[1])
					return isS && strings.EqualFold(s, k)
				}
				zero := func(v ssa.Value) bool {
					if s, ok := ConstString(v); ok && s == "" {
						return true
					}
					if i, ok := ConstInt(v); ok && i == 0 {
						return true
					}
					return false
				}
				if isGet(x) && zero(y) || isGet(y) && zero(x) {
					switch op {
					case token.EQL:
						return true, true
					case token.NEQ, token.GTR:
						return false, true
					}
				}
				return false, false
			})
			g, path := Guarded(fn.Blocks[0], ci, pass, nil)
			c.Check(g && nonVacuous(pass), "R4", "header-only-if-absent:"+id, p.InstrPos(ci), "set only when the request (hence the action) does not carry it",
				"the client sets the "+k+" header of a transfer request although the action may have offered one: the offered header is overridden (a pre-signed URL that signs it is rejected): "+path)
		}
	}
	c.AtLeast("R4", "constant-key header writes in tq", n, 8)
}

// c18AdapterAsNamed (R4, which adapter runs the actions): the batch response names the transfer adapter its actions
// are meant for; an absent name means "basic" (docs/api/batch.md). The running adapter is kept only when its name
// equals the name the response gave — never because the response named none — otherwise basic actions are
// carried out by a tus or custom adapter left over from an earlier batch.
func c18AdapterAsNamed(c *Ctx) {
	p := c.P
	fn := p.Fn("tq", "(*TransferQueue).useAdapter")
	if fn == nil {
		c.Missing("R4", "(*tq.TransferQueue).useAdapter", "not found")
		return
	}
	var name *ssa.Parameter
	for _, prm := range fn.Params {
		if short(prm.Type().String()) == "string" {
			name = prm
		}
	}
	pass := PassEdges(fn, func(cond ssa.Value) (bool, bool) {
		op, x, y, ok := BinCmp(cond)
		if !ok || (op != token.EQL && op != token.NEQ) {
			return false, false
		}
		isName := func(v ssa.Value) bool { return name != nil && Unwrap(v) == ssa.Value(name) }
		isAdapterName := func(v ssa.Value) bool {
			cc, _, ok := CallResult(v)
			return ok && strings.HasSuffix(CalleeName(cc.Common()), ".Name")
		}
		if isName(x) && isAdapterName(y) || isName(y) && isAdapterName(x) {
			return op == token.EQL, true
		}
		return false, false
	})
	// the "keep the running adapter" exits: returns that are not preceded by the creation of a new adapter
	news := CallsIn(fn, "(*tq.concreteManifest).NewAdapterOrDefault", "(tq.Manifest).NewAdapterOrDefault", "(*tq.lazyManifest).NewAdapterOrDefault")
	cut := EdgeSet(pass)
	for _, nw := range news {
		for i := range nw.Block().Succs {
			cut[Edge{nw.Block(), i}] = true
		}
	}
	// with no adapter yet a new one is always created: assume one is running
	n := 0
	for _, r := range ReturnsOf(fn) {
		if r.Block().Comment == "recover" {
			continue
		}
		n++
		hit := false
		ExploreX(fn.Blocks[0], nil, nil, nil, cut, func(v ssa.Value) (*ssa.Const, bool) {
			if e, trueMeansNil, ok := IsErrNilCheck(v); ok {
				if _, f, _, isF := FieldOf(e); isF && f == "adapter" {
					return boolConst(!trueMeansNil, v.Type()), true // q.adapter != nil
				}
			}
			return nil, false
		}, func(in ssa.Instruction, st PState) bool {
			if in == ssa.Instruction(r) {
				hit = true
			}
			for _, nw := range news {
				if in == nw.(ssa.Instruction) {
					return false
				}
			}
			return !hit
		})
		c.Check(!hit && nonVacuous(pass), "R4", fmt.Sprintf("useAdapter:kept-only-if-named#%d", n), p.InstrPos(r), "the running adapter is kept only when the response names it",
			"the running adapter can be kept although the batch response does not name it (e.g. names none, which means basic): the actions of that response are carried out by a leftover tus/custom adapter with another protocol")
	}
	c.AtLeast("R4", "adapter creations in useAdapter", len(news), 1)
}

// c18PointerSizesNonNegative (R6, where sizes come from): the sizes put into batch requests are those of scanned
// pointers; the pointer decoder is the place that refuses a negative size, so that no request can carry one
// (schema: minimum 0). The decoder's result is returned only behind the non-negativity test of the parsed size.
func c18PointerSizesNonNegative(c *Ctx) {
	p := c.P
	fn := p.Fn("lfs", "decodeKV")
	if fn == nil {
		c.Missing("R6", "lfs.decodeKV", "not found")
		return
	}
	n := 0
	for _, r := range ReturnsOf(fn) {
		np, _, ok := CallResult(r.Results[0])
		if !ok || CalleeName(np.Common()) != "lfs.NewPointer" {
			continue
		}
		n++
		sizeArg := LiveValue(np.Call.Args[1])
		pass := PassEdges(fn, func(cond ssa.Value) (bool, bool) {
			op, x, y, ok := BinCmp(cond)
			if !ok || !SameValue(x, sizeArg) {
				return false, false
			}
			k, isK := ConstInt(y)
			if !isK {
				return false, false
			}
			switch {
			case op == token.LSS && k == 0, op == token.LEQ && k == -1:
				return false, true
			case op == token.GEQ && k == 0, op == token.GTR && k == -1:
				return true, true
			}
			return false, false
		})
		g, path := Guarded(fn.Blocks[0], r, pass, nil)
		c.Check(g && nonVacuous(pass), "R6", fmt.Sprintf("decoded-pointer-size-nonnegative#%d", n), p.InstrPos(r), "a pointer is decoded only with size >= 0", "the pointer decoder can hand out a pointer with a negative size: scanner-driven commands put it into the batch request as it is (`\"size\": -5` violates the request schema's minimum 0): "+path)
	}
	c.AtLeast("R6", "pointer constructions in decodeKV", n, 1)
}
