package main

import (
	"fmt"
	"go/token"
	"go/types"
	"strings"

	"golang.org/x/tools/go/ssa"
)

// C17 — credential values cannot inject lines into the git-credential protocol.

func init() {
	register(&PropDef{
		ID:    "C17",
		Level: "proof",
		Explanation: "Static proof obligations over the SSA of the credential serialiser: (1) every spawn of `git credential` takes its stdin only from the one serialiser function; " +
			"(2) in the serialiser every non-constant value written to the buffer is dominated, from the definition of that very SSA value, by a passed LF test, a passed NUL test and (protection off or a passed CR test); " +
			"(3) every failing test edge leads only to returns with a non-nil error, and the spawning function cannot reach Start/Run when that error is non-nil; " +
			"(4) each value is emitted as key '=' value LF in that order and every constant write is a whole line; (5) the protection flag is fed only from the config lookup with default true; " +
			"(6) constant keys put into the request map are git-credential attribute names. All obligations must be discharged; the whole statement of the property is this path property plus the who-may facts.",
		Assumptions: []string{
			"strings.Contains/ContainsAny/Index* and bytes.Buffer.Write behave as documented",
			"keys returned by a helper are not re-validated (they are split on LF and '=' when parsed); the property speaks about values",
			"git credential itself treats each LF-terminated line as one attribute",
		},
		Run:      runC17,
		Canaries: c17Canaries,
	})
}

var spawnCallees = []string{"subprocess.ExecCommand", "os/exec.Command", "subprocess.SimpleExec", "subprocess.BufferedExec", "subprocess.StdoutBufferedExec", "os/exec.CommandContext"}

// variadicElems returns the values stored in the implicit array of a variadic call argument.
func variadicElems(v ssa.Value) []ssa.Value {
	sl, ok := v.(*ssa.Slice)
	if !ok {
		return nil
	}
	al, ok := sl.X.(*ssa.Alloc)
	if !ok {
		return nil
	}
	var out []ssa.Value
	for _, r := range Referrers(al) {
		if ia, ok := r.(*ssa.IndexAddr); ok {
			for _, rr := range Referrers(ia) {
				if st, ok := rr.(*ssa.Store); ok && st.Addr == ia {
					out = append(out, st.Val)
				}
			}
		}
	}
	return out
}

// gitCredentialSpawns finds call sites that start `git credential ...`.
func gitCredentialSpawns(p *Prog) []*ssa.Call {
	var out []*ssa.Call
	for _, ci := range AllCalls(p.RepoFuncs(productPkg), spawnCallees...) {
		c, ok := ci.(*ssa.Call)
		if !ok {
			continue
		}
		args := c.Call.Args
		if len(args) < 2 {
			continue
		}
		if s, ok := ConstString(args[0]); !ok || s != "git" {
			continue
		}
		for _, a := range args[1:] {
			for _, e := range variadicElems(a) {
				if s, ok := ConstString(e); ok && s == "credential" {
					out = append(out, c)
				}
			}
			if s, ok := ConstString(a); ok && s == "credential" {
				out = append(out, c)
			}
		}
	}
	return out
}

// derivesFromValue: does v reach root through field addresses / loads / extracts only?
func baseIs(v ssa.Value, root ssa.Value) bool {
	for i := 0; i < 12 && v != nil; i++ {
		if v == root {
			return true
		}
		switch x := v.(type) {
		case *ssa.Extract:
			v = x.Tuple
		case *ssa.FieldAddr:
			v = x.X
		case *ssa.UnOp:
			v = x.X
		case *ssa.Field:
			v = x.X
		default:
			return false
		}
	}
	return false
}

var bufWriteCallees = []string{"(*bytes.Buffer).Write", "(*bytes.Buffer).WriteString", "(*bytes.Buffer).WriteByte", "(*bytes.Buffer).WriteRune",
	"(*strings.Builder).WriteString", "(*strings.Builder).Write", "(*strings.Builder).WriteByte", "(*strings.Builder).WriteRune", "io.WriteString", "fmt.Fprintf", "fmt.Fprint", "fmt.Fprintln", "(io.Writer).Write"}

type bufWrite struct {
	call ssa.CallInstruction
	data []ssa.Value // data operands (non-receiver)
	name string
	sub  int // position within one call whose operand is a concatenation a + b + c (written in that order)
}

// concatOperands flattens a string concatenation into its operands, left to right.
func concatOperands(v ssa.Value) []ssa.Value {
	v = Unwrap(v)
	if bo, ok := v.(*ssa.BinOp); ok && bo.Op == token.ADD {
		if b, isB := bo.Type().Underlying().(*types.Basic); isB && b.Info()&types.IsString != 0 {
			return append(concatOperands(bo.X), concatOperands(bo.Y)...)
		}
	}
	return []ssa.Value{v}
}

func bufferWrites(fn *ssa.Function) []bufWrite {
	var out []bufWrite
	for _, b := range fn.Blocks {
		for _, in := range b.Instrs {
			ci, ok := in.(ssa.CallInstruction)
			if !ok {
				continue
			}
			n := CalleeName(ci.Common())
			if !nameIn(n, bufWriteCallees) {
				continue
			}
			args := CallArgs(ci.Common())
			var data []ssa.Value
			for _, a := range args[1:] {
				if els := variadicElems(a); els != nil {
					data = append(data, els...)
				} else {
					data = append(data, a)
				}
			}
			if len(data) == 1 && !strings.HasPrefix(n, "fmt.") {
				if ops := concatOperands(data[0]); len(ops) > 1 {
					// one write of a + b + c puts the same bytes into the buffer as three writes in that order
					for i, o := range ops {
						out = append(out, bufWrite{ci, []ssa.Value{o}, n, i})
					}
					continue
				}
			}
			out = append(out, bufWrite{ci, data, n, 0})
		}
	}
	return out
}

// charCheck recognises a test "value V contains character ch" and reports the outcome of the
// condition on which V is known NOT to contain ch (the pass outcome).
func charCheck(cond ssa.Value, V ssa.Value, ch string) (passWhen bool, ok bool) {
	// boolean forms
	if c, isCall := cond.(*ssa.Call); isCall {
		n := CalleeName(&c.Call)
		a := c.Call.Args
		switch n {
		case "strings.Contains", "bytes.Contains":
			if len(a) == 2 && SameValue(a[0], V) {
				if s, ok := constStringOrBytes(a[1]); ok && s == ch {
					return false, true
				}
			}
		case "strings.ContainsAny", "bytes.ContainsAny":
			if len(a) == 2 && SameValue(a[0], V) && setContains(a[1], ch) {
				return false, true
			}
		case "strings.ContainsRune", "bytes.ContainsRune":
			if len(a) == 2 && SameValue(a[0], V) {
				if r, ok := ConstInt(a[1]); ok && string(rune(r)) == ch {
					return false, true
				}
			}
		}
		return false, false
	}
	// index forms: idx >= 0, idx != -1, idx > -1 (found) ; idx < 0, idx == -1 (not found)
	op, x, y, isCmp := BinCmp(cond)
	if !isCmp {
		return false, false
	}
	c, isCall := x.(*ssa.Call)
	k, isK := ConstInt(y)
	if !isCall || !isK {
		return false, false
	}
	n := CalleeName(&c.Call)
	a := c.Call.Args
	match := false
	switch n {
	case "strings.Index", "bytes.Index":
		if len(a) == 2 && SameValue(a[0], V) {
			if s, ok := constStringOrBytes(a[1]); ok && s == ch {
				match = true
			}
		}
	case "strings.IndexAny", "bytes.IndexAny":
		match = len(a) == 2 && SameValue(a[0], V) && setContains(a[1], ch)
	case "strings.IndexByte", "bytes.IndexByte", "strings.IndexRune", "bytes.IndexRune":
		if len(a) == 2 && SameValue(a[0], V) {
			if r, ok := ConstInt(a[1]); ok && string(rune(r)) == ch {
				match = true
			}
		}
	}
	if !match {
		return false, false
	}
	switch {
	case op == token.GEQ && k == 0, op == token.NEQ && k == -1, op == token.GTR && k == -1:
		return false, true // condition true = found; pass when false
	case op == token.LSS && k == 0, op == token.EQL && k == -1, op == token.LEQ && k == -1:
		return true, true
	}
	return false, false
}

func constStringOrBytes(v ssa.Value) (string, bool) {
	if s, ok := ConstString(v); ok {
		return s, true
	}
	if cv, ok := v.(*ssa.Convert); ok {
		return constStringOrBytes(cv.X)
	}
	// string(rune(0)) folds to a constant already
	return "", false
}

// setContains: v is a constant string (or a phi of constant strings all of which) containing ch.
func setContains(v ssa.Value, ch string) bool {
	if s, ok := ConstString(v); ok {
		return strings.Contains(s, ch)
	}
	if ph, ok := v.(*ssa.Phi); ok {
		for _, e := range ph.Edges {
			if !setContains(e, ch) {
				return false
			}
		}
		return len(ph.Edges) > 0
	}
	return false
}

func defBlock(v ssa.Value, fn *ssa.Function) *ssa.BasicBlock {
	if in, ok := v.(ssa.Instruction); ok && in.Block() != nil {
		return in.Block()
	}
	return fn.Blocks[0]
}

func runC17(c *Ctx) {
	p := c.P
	// ---- O1: sole serialiser --------------------------------------------------------
	spawns := gitCredentialSpawns(p)
	if !c.AtLeast("O1", "spawn sites of `git credential`", len(spawns), 1) {
		return
	}
	serialisers := map[*ssa.Function]bool{}
	for _, sp := range spawns {
		fn := sp.Parent()
		key := FnName(fn) + ":stdin-of-git-credential"
		// stores to the Stdin field of the command created here
		n := 0
		okAll := true
		var why string
		for _, f := range WithAnon(fn) {
			for _, b := range f.Blocks {
				for _, in := range b.Instrs {
					st, ok := in.(*ssa.Store)
					if !ok {
						continue
					}
					fa, ok := st.Addr.(*ssa.FieldAddr)
					if !ok {
						continue
					}
					tn, fld := fieldAddrName(fa)
					if fld != "Stdin" || tn != "os/exec.Cmd" {
						continue
					}
					if !baseIs(fa.X, sp) {
						continue
					}
					n++
					call, _, isRes := CallResult(st.Val)
					if !isRes || call.Call.StaticCallee() == nil {
						okAll = false
						why = "stdin of `git credential` is assigned from something other than a serialiser call at " + p.InstrPos(st)
						continue
					}
					serialisers[call.Call.StaticCallee()] = true
				}
			}
		}
		// StdinPipe use would be another channel
		for _, ci := range CallsInDeep(fn, "(*os/exec.Cmd).StdinPipe", "(*subprocess.Cmd).StdinPipe") {
			okAll = false
			why = "stdin pipe opened for `git credential` at " + p.InstrPos(ci)
		}
		if n == 0 {
			c.Info("O1", key+":no-stdin", p.InstrPos(sp), "this `git credential` spawn assigns no stdin")
			continue
		}
		c.Check(okAll, "O1", key, p.InstrPos(sp), fmt.Sprintf("stdin assigned %d time(s), always from a serialiser call", n), why)
	}
	if len(serialisers) != 1 {
		c.Bad("O1", "single-serialiser", "-", fmt.Sprintf("%d distinct functions feed `git credential` stdin; exactly one is expected", len(serialisers)))
		if len(serialisers) == 0 {
			return
		}
	} else {
		c.OK("O1", "single-serialiser", "-", "one function serialises the request")
	}
	spawnFns := map[*ssa.Function]bool{}
	for _, sp := range spawns {
		spawnFns[sp.Parent()] = true
	}
	for ser := range serialisers {
		// every caller of the serialiser is a spawn site function
		callers := 0
		for _, fn := range p.RepoFuncs(productPkg) {
			for _, b := range fn.Blocks {
				for _, in := range b.Instrs {
					if cc := AsCall(in); cc != nil && cc.StaticCallee() == ser {
						callers++
						c.Check(spawnFns[fn], "O1", "serialiser-caller:"+FnName(fn), p.InstrPos(in),
							"serialiser called from the function that spawns `git credential`",
							"serialiser output is used outside the `git credential` spawn site; another consumer could bypass the checks")
					}
				}
			}
		}
		c.AtLeast("O1", "callers of the serialiser", callers, 1)
		c17Serialiser(c, ser)
		c17Caller(c, ser, spawns)
	}
	c17Keys(c)
	c17URLPrecedence(c)
	c17FlagAlwaysSet(c)
	protectionFlagTrusted(c, "O5")
	protectionLookupURLFromURLFields(c, "O7")
	everyCredentialValueWritten(c, "O2")
	usernameIsDecodedUserinfo(c, "O6")
}

func c17Serialiser(c *Ctx, F *ssa.Function) {
	p := c.P
	fname := FnName(F)
	writes := bufferWrites(F)
	for _, af := range F.AnonFuncs {
		if len(bufferWrites(af)) > 0 {
			c.Undecided("O2", fname+":closure-writes", p.Pos(af.Pos()), "the serialiser writes to the buffer from a nested closure; the path rule cannot follow it")
		}
	}
	if !c.AtLeast("O2", "buffer writes in the serialiser", len(writes), 1) {
		return
	}
	// the protect flag: a bool parameter of F
	var protect *ssa.Parameter
	for _, prm := range F.Params {
		if b, ok := prm.Type().Underlying().(*types.Basic); ok && b.Kind() == types.Bool {
			protect = prm
		}
	}
	loops := Loops(F)
	nvalues := 0
	for _, w := range writes {
		for di, d := range w.data {
			V := Unwrap(d)
			if _, isConst := V.(*ssa.Const); isConst {
				continue
			}
			// skip format strings handled below (constant) — non-constant operand V:
			if isRangeKeyOfReceiver(V, F) {
				c.Info("O2", fname+":key-write", p.InstrPos(w.call), "map key written without value checks (keys are protocol attribute names; see O6)")
				continue
			}
			nvalues++
			key := fmt.Sprintf("%s:write#%d.%d", fname, writeOrdinal(writes, w), di)
			entry := defBlock(V, F)
			for _, ch := range []struct{ name, ch string }{{"LF", "\n"}, {"NUL", "\x00"}} {
				pass := PassEdges(F, func(cond ssa.Value) (bool, bool) { return charCheck(cond, V, ch.ch) })
				if len(pass) == 0 {
					c.Bad("O2", key+":"+ch.name, p.InstrPos(w.call), "no recognised "+ch.name+" test on the written value exists in the serialiser")
					continue
				}
				ok, path := Guarded(entry, w.call, pass, nil)
				c.Check(ok, "O2", key+":"+ch.name, p.InstrPos(w.call), "write dominated by a passed "+ch.name+" test of the same value",
					"the value can reach the buffer without passing the "+ch.name+" test: "+path)
			}
			// CR: protect off, or CR test passed (one matcher for both, so that `protect && contains(v, CR)`
			// evaluated as a value is understood: it is false because protection is off or because the test passed)
			pass := PassEdges(F, func(cond ssa.Value) (bool, bool) {
				if pw, ok := charCheck(cond, V, "\r"); ok {
					return pw, true
				}
				if protect != nil && cond == ssa.Value(protect) {
					return false, true
				}
				return false, false
			})
			nCR := 0
			for _, b := range F.Blocks {
				for _, in := range b.Instrs {
					if v, ok := in.(ssa.Value); ok {
						if _, ok := charCheck(v, V, "\r"); ok {
							nCR++
						}
					}
				}
			}
			if nCR == 0 {
				c.Bad("O2", key+":CR", p.InstrPos(w.call), "no recognised CR test on the written value exists in the serialiser")
			} else {
				ok, path := Guarded(entry, w.call, pass, nil)
				c.Check(ok, "O2", key+":CR", p.InstrPos(w.call), "write dominated by (protection off or a passed CR test of the same value)",
					"with protection enabled the value can reach the buffer without passing the CR test: "+path)
			}
			// O4: framing of this value
			c17Framing(c, F, writes, w, V, loops)
		}
	}
	c.AtLeast("O2", "checked value writes", nvalues, 1)

	// O3a: failing edges return an error and no usable buffer
	for _, ch := range []string{"\n", "\x00", "\r"} {
		for _, b := range F.Blocks {
			ifi, ok := lastInstr(b).(*ssa.If)
			if !ok {
				continue
			}
			cond, flip := stripNot(ifi.Cond)
			var any ssa.Value
			// find V: first arg of the call
			var passWhen, matched bool
			if call, ok := cond.(*ssa.Call); ok && len(call.Call.Args) > 0 {
				any = call.Call.Args[0]
			} else if _, x, _, ok := BinCmp(cond); ok {
				if call, ok := x.(*ssa.Call); ok && len(call.Call.Args) > 0 {
					any = call.Call.Args[0]
				}
			}
			if any == nil {
				continue
			}
			passWhen, matched = charCheck(cond, Unwrap(any), ch)
			if !matched {
				continue
			}
			if flip {
				passWhen = !passWhen
			}
			failEdge := Edge{b, 0}
			if passWhen {
				failEdge = Edge{b, 1}
			}
			// The failing edge must not rejoin the writing path: every block reachable from the
			// fail target without crossing pass edges... simply: all returns reachable from the
			// fail target (cutting the loop back into the check block) carry a non-nil error, and
			// no buffer write is reachable.
			key := fmt.Sprintf("%s:fail-edge(%q)@b%d", fname, ch, b.Index)
			bad := ""
			isWrite := map[ssa.Instruction]bool{}
			for _, w := range writes {
				isWrite[w.call] = true
			}
			// every feasible continuation of the failing edge (an error value just built is not nil: paths.go)
			ExploreX(failEdge.To(), nil, nil, nil, nil, nil, func(in ssa.Instruction, st PState) bool {
				if r, ok := in.(*ssa.Return); ok {
					if len(r.Results) < 2 {
						bad = "a return reachable after a failed test carries no error at " + p.InstrPos(r)
						return false
					}
					ev := Base(r.Results[len(r.Results)-1], st)
					if c0, isC := EvalConst(ev, st); isC && c0.Value == nil || IsNilConst(ev) {
						bad = "a return reachable after a failed test carries a nil error at " + p.InstrPos(r)
					}
					bv := Base(r.Results[0], st)
					if c0, isC := EvalConst(bv, st); !(isC && c0.Value == nil) && !IsNilConst(bv) {
						bad = "a return reachable after a failed test still hands out the buffer at " + p.InstrPos(r)
					}
					return false
				}
				if isWrite[in] {
					bad = "a buffer write is reachable after a failed test (" + p.InstrPos(in) + ")"
					return false
				}
				return true
			})
			c.Check(bad == "", "O3", key, p.InstrPos(ifi), "failed test leads only to (nil, error) returns", bad)
		}
	}
}

func writeOrdinal(ws []bufWrite, w bufWrite) int {
	for i := range ws {
		if ws[i].call == w.call && ws[i].sub == w.sub {
			return i
		}
	}
	return -1
}

func isRangeKeyOfReceiver(v ssa.Value, F *ssa.Function) bool {
	ex, ok := v.(*ssa.Extract)
	if !ok || ex.Index != 1 {
		return false
	}
	nx, ok := ex.Tuple.(*ssa.Next)
	if !ok {
		return false
	}
	rg, ok := nx.Iter.(*ssa.Range)
	if !ok {
		return false
	}
	_, isMap := rg.X.Type().Underlying().(*types.Map)
	return isMap
}

// c17Framing: the value write is preceded by key and "=" and followed by LF, all in the same block.
func c17Framing(c *Ctx, F *ssa.Function, writes []bufWrite, w bufWrite, V ssa.Value, loops []Loop) {
	p := c.P
	key := fmt.Sprintf("%s:framing-of-write#%d", FnName(F), writeOrdinal(writes, w))
	// Fprintf form
	if w.name == "fmt.Fprintf" {
		args := CallArgs(w.call.Common())
		if len(args) >= 2 {
			if f, ok := ConstString(args[1]); ok {
				okf := f == "%s=%s\n" && len(w.data) == 3
				c.Check(okf, "O4", key, p.InstrPos(w.call), "formatted as key=value LF", "format string "+fmt.Sprintf("%q", f)+" is not exactly \"%s=%s\\n\"")
				return
			}
		}
		c.Undecided("O4", key, p.InstrPos(w.call), "non-constant format")
		return
	}
	var blk []bufWrite
	for _, x := range writes {
		if x.call.Block() == w.call.Block() {
			blk = append(blk, x)
		}
	}
	i := -1
	for j := range blk {
		if blk[j].call == w.call && blk[j].sub == w.sub {
			i = j
		}
	}
	constAt := func(j int) (string, bool) {
		if j < 0 || j >= len(blk) || len(blk[j].data) != 1 {
			return "", false
		}
		return constStringOrBytes(Unwrap(blk[j].data[0]))
	}
	eq, ok1 := constAt(i - 1)
	lf, ok2 := constAt(i + 1)
	keyOK := i-2 >= 0 && len(blk[i-2].data) == 1
	if keyOK {
		if _, isC := Unwrap(blk[i-2].data[0]).(*ssa.Const); isC {
			keyOK = false
		}
	}
	good := ok1 && ok2 && eq == "=" && lf == "\n" && keyOK
	c.Check(good, "O4", key, p.InstrPos(w.call), "emitted as key, \"=\", value, LF in this order",
		fmt.Sprintf("the value is not framed as key '=' value LF (before: %q/%v, after: %q/%v, key write present: %v)", eq, ok1, lf, ok2, keyOK))
	// constant writes elsewhere must be whole lines
	for _, x := range writes {
		if x.call.Block() == w.call.Block() {
			continue
		}
		for _, d := range x.data {
			if s, ok := constStringOrBytes(Unwrap(d)); ok {
				whole := strings.HasSuffix(s, "\n")
				for _, ln := range strings.Split(strings.TrimSuffix(s, "\n"), "\n") {
					if strings.Count(ln, "=") != 1 {
						whole = false
					}
				}
				c.Check(whole, "O4", fmt.Sprintf("%s:const-line(%q)", FnName(F), s), p.InstrPos(x.call), "constant write consists of whole key=value lines", "constant write is not a sequence of LF-terminated key=value lines")
			}
		}
	}
}

// c17Caller: the spawning function tests the serialiser's error before starting the command,
// and the protect argument comes from the config lookup with default true.
func c17Caller(c *Ctx, ser *ssa.Function, spawns []*ssa.Call) {
	p := c.P
	for _, sp := range spawns {
		fn := sp.Parent()
		for _, b := range fn.Blocks {
			for _, in := range b.Instrs {
				call, ok := in.(*ssa.Call)
				if !ok || call.Call.StaticCallee() != ser {
					continue
				}
				// error result
				var errv ssa.Value
				for _, r := range Referrers(call) {
					if ex, ok := r.(*ssa.Extract); ok && ex.Index == 1 {
						errv = ex
					}
				}
				key := FnName(fn) + ":serialiser-error-gates-start"
				if errv == nil {
					c.Bad("O3", key, p.InstrPos(call), "the serialiser's error result is discarded")
				} else {
					pass := PassEdges(fn, func(cond ssa.Value) (bool, bool) {
						e, trueMeansNil, ok := IsErrNilCheck(cond)
						if ok && e == errv {
							return trueMeansNil, true
						}
						return false, false
					})
					starts := CallsInDeep(fn, "(*os/exec.Cmd).Start", "(*os/exec.Cmd).Run", "(*os/exec.Cmd).Output", "(*os/exec.Cmd).CombinedOutput",
						"(*subprocess.Cmd).Start", "(*subprocess.Cmd).Run", "(*subprocess.Cmd).Output", "(*subprocess.Cmd).CombinedOutput")
					if len(starts) == 0 {
						c.Undecided("O3", key, p.InstrPos(call), "no Start/Run of the command found in the spawning function")
					}
					for _, s := range starts {
						if s.Parent() != fn {
							c.Undecided("O3", key, p.InstrPos(s), "command started from a nested closure")
							continue
						}
						ok, path := Guarded(call.Block(), s, pass, nil)
						c.Check(ok && nonVacuous(pass), "O3", key, p.InstrPos(s), "command is started only after the serialiser's error was tested nil",
							"the command can be started although the serialiser refused the input: "+path)
					}
				}
				// O5 protect argument provenance
				for i, prm := range ser.Params {
					bt, ok := prm.Type().Underlying().(*types.Basic)
					if !ok || bt.Kind() != types.Bool {
						continue
					}
					arg := call.Call.Args[i]
					k5 := FnName(fn) + ":protect-argument"
					// a flag threaded through a parameter of a private, directly-called function stands for what its
					// callers pass
					srcs := []ssa.Value{arg}
					if prm, isP := Unwrap(arg).(*ssa.Parameter); isP {
						if ca := p.callerArgs(prm); len(ca) > 0 {
							srcs = ca
						}
					}
					var leaves []ssa.Value
					for _, src := range srcs {
						leaves = append(leaves, p.Leaves(src, func(v ssa.Value) FlowAct {
							if cc, _, ok := CallResult(v); ok && strings.HasSuffix(CalleeName(cc.Common()), "URLConfig).Bool") {
								return Stop
							}
							return Descend
						})...)
					}
					good := len(leaves) > 0
					why := ""
					nCfg := 0
					for _, l := range leaves {
						cc, _, isCall := CallResult(l)
						if isCall && strings.HasSuffix(CalleeName(cc.Common()), "URLConfig).Bool") {
							a := cc.Call.Args
							// (*URLConfig).Bool(prefix, rawurl, key, def)
							var keyS string
							var def, hasDef bool
							for _, x := range a {
								if s, ok := ConstString(x); ok && strings.EqualFold(s, "protectProtocol") {
									keyS = s
								}
								if bv, ok := ConstBool(x); ok {
									def, hasDef = bv, true
								}
							}
							if keyS == "" || !hasDef || !def {
								good = false
								why = "protection flag read from config without the key protectProtocol / default true at " + p.InstrPos(cc)
							}
							nCfg++
							continue
						}
						if bv, ok := ConstBool(l); ok {
							if bv {
								continue
							}
							// a constant false feeding the flag: only the zero value of the struct field is acceptable
							good = false
							why = "protection flag can be the constant false"
							continue
						}
						if _, ok := l.(*ssa.Alloc); ok {
							continue // zero-initialised struct: overwritten before use (checked by nCfg>0)
						}
						if _, ok := l.(*ssa.Parameter); ok {
							continue // receiver/struct pointer reached through the field base
						}
						if _, ok := l.(*ssa.Global); ok {
							continue
						}
						if cc, _, ok := CallResult(l); ok {
							_ = cc
							continue // constructor of the helper struct
						}
					}
					if nCfg == 0 {
						good = false
						why = "the protection flag never comes from the protectProtocol config lookup"
					}
					c.Check(good, "O5", k5, p.InstrPos(call), "protection flag derives from credential.protectProtocol with default true", why)
				}
			}
		}
	}
}

var credentialAttrs = map[string]bool{"protocol": true, "host": true, "path": true, "username": true, "password": true, "url": true,
	"wwwauth[]": true, "state[]": true, "capability[]": true, "authtype": true, "credential": true, "ephemeral": true, "continue": true,
	"password_expiry_utc": true, "oauth_refresh_token": true}

// c17Keys (O6): constant keys stored into creds.Creds maps are protocol attribute names.
func c17Keys(c *Ctx) {
	p := c.P
	n := 0
	for _, fn := range p.RepoFuncs(productPkg) {
		for _, b := range fn.Blocks {
			for _, in := range b.Instrs {
				mu, ok := in.(*ssa.MapUpdate)
				if !ok {
					continue
				}
				if typeName(mu.Map.Type()) != "creds.Creds" {
					continue
				}
				if s, ok := ConstString(mu.Key); ok {
					n++
					good := s != "" && !strings.ContainsAny(s, "=\n\r\x00")
					c.Check(good, "O6", fmt.Sprintf("%s:key(%q)", FnName(fn), s), p.InstrPos(mu), "constant key cannot break the key=value framing", "constant key is empty or contains '=', LF, CR or NUL")
					if !credentialAttrs[s] {
						c.Info("O6", fmt.Sprintf("%s:nonstandard-key(%q)", FnName(fn), s), p.InstrPos(mu), "key is not a git-credential attribute name (internal bookkeeping key)")
					}
				}
			}
		}
	}
	c.AtLeast("O6", "constant keys of credential requests", n, 2)
}

var c17Canaries = []Canary{
	{Name: "r6-empty-value-skipped", ExpectKey: "C17.O2#buffer:no-value-skipped", Edits: []Edit{{File: "creds/creds.go", Find: "\tbuf.Write([]byte(\"capability[]=state\\n\"))\n\tfor k, v := range c {\n\t\tfor _, item := range v {\n\t\t\tif strings.Contains(item, \"\\n\") {\n\t\t\t\treturn nil, errors.New(tr.Tr.Get(\"credential value for %s contains newline: %q\", k, item))\n\t\t\t}\n", Repl: "\tbuf.Write([]byte(\"capability[]=state\\n\"))\n\tfor k, v := range c {\n\t\tfor _, item := range v {\n\t\t\tif len(item) == 0 {\n\t\t\t\t// Nothing to send for this attribute; exec()\n\t\t\t\t// skips empty values on the way back, too.\n\t\t\t\tcontinue\n\t\t\t}\n\t\t\tif strings.Contains(item, \"\\n\") {\n\t\t\t\treturn nil, errors.New(tr.Tr.Get(\"credential value for %s contains newline: %q\", k, item))\n\t\t\t}\n"}}},
	{Name: "r5-username-in-lookup-url", ExpectKey: "C17.O7#config-lookup-url", Edits: []Edit{{File: "creds/creds.go", Find: "\trawurl := fmt.Sprintf(\"%s://%s%s\", u.Scheme, u.Host, u.Path)", Repl: "\trawurl := fmt.Sprintf(\"%s://%s@%s%s\", u.Scheme, u.User.Username(), u.Host, u.Path)"}}},
	{Name: "r4-blob-source-unrestricted", ExpectKey: "C17.C11/R3", Edits: []Edit{{File: "git/config.go", Find: "	out, err := c.gitConfig(\"-l\", \"--blob\", revision)\n	if err != nil {\n		return nil, err\n	}\n	return ParseConfigLines(out, true), nil", Repl: "	out, err := c.gitConfig(\"-l\", \"--blob\", revision)\n	if err != nil {\n		return nil, err\n	}\n	return ParseConfigLines(out, false), nil"}}},
	{Name: "drop-lf-check", ExpectKey: "C17.O2", Edits: []Edit{{File: "creds/creds.go", Find: `if strings.Contains(item, "\n") {`, Repl: `if strings.Contains(k, "\n") {`}}},
	{Name: "drop-nul-check", ExpectKey: ":NUL", Edits: []Edit{{File: "creds/creds.go", Find: `if strings.Contains(item, string(rune(0))) {`, Repl: `if false && strings.Contains(item, string(rune(0))) {`}}},
	{Name: "cr-needs-both", ExpectKey: ":CR", Edits: []Edit{{File: "creds/creds.go", Find: `if protectProtocol && strings.Contains(item, "\r") {`, Repl: `if protectProtocol && len(k) > 4 && strings.Contains(item, "\r") {`}}},
	{Name: "default-off", ExpectKey: "C17.O5", Edits: []Edit{{File: "creds/creds.go", Find: `"protectProtocol", true)`, Repl: `"protectProtocol", false)`}}},
	{Name: "write-before-check", ExpectKey: "C17.O2", Edits: []Edit{{File: "creds/creds.go", Find: "		for _, item := range v {\n", Repl: "		for _, item := range v {\n			if k == \"state[]\" {\n				buf.Write([]byte(k))\n				buf.Write([]byte(\"=\"))\n				buf.Write([]byte(item))\n				buf.Write([]byte(\"\\n\"))\n				continue\n			}\n"}}},
	{Name: "ignore-buffer-error", ExpectKey: "C17.O3", Edits: []Edit{{File: "creds/creds.go", Find: "	cmd.Stdin, err = input.buffer(h.protectProtocol)\n	if err != nil {", Repl: "	cmd.Stdin, err = input.buffer(h.protectProtocol)\n	if err != nil && subcommand == \"fill\" {"}}},
	{Name: "index-off-by-one", ExpectKey: ":LF", Edits: []Edit{{File: "creds/creds.go", Find: `if strings.Contains(item, "\n") {`, Repl: `if strings.Index(item, "\n") > 0 {`}}},
	{Name: "missing-lf-terminator", ExpectKey: "C17.O4", Edits: []Edit{{File: "creds/creds.go", Find: "			buf.Write([]byte(item))\n			buf.Write([]byte(\"\\n\"))", Repl: "			buf.Write([]byte(item))\n			buf.Write([]byte(\";\"))"}}},
}

// c17URLPrecedence (O7): whether CR protection is on for a URL is looked up as credential.<url>.protectProtocol with
// Git's URL matching: a configuration entry whose host matches less exactly never overrides one whose host matches
// more exactly, however long its path match. Decided on the matcher: inside the loop over the configured keys the
// best match so far is replaced only on paths where the candidate's host score was tested not to be lower than the
// best one's.
func c17URLPrecedence(c *Ctx) {
	p := c.P
	fn := p.Fn("config", "(*URLConfig).getAll")
	if fn == nil {
		c.Missing("O7", "(*config.URLConfig).getAll", "not found")
		return
	}
	// whole-struct assignments best = candidate
	type asg struct {
		st        *ssa.Store
		best, cnd ssa.Value
	}
	var asgs []asg
	for _, b := range fn.Blocks {
		for _, in := range b.Instrs {
			st, ok := in.(*ssa.Store)
			if !ok {
				continue
			}
			dst, isAl := st.Addr.(*ssa.Alloc)
			ld, isLd := st.Val.(*ssa.UnOp)
			if !isAl || !isLd || ld.Op != token.MUL {
				continue
			}
			src, isAl2 := ld.X.(*ssa.Alloc)
			if !isAl2 || !strings.HasSuffix(short(dst.Type().String()), "urlMatch") {
				continue
			}
			asgs = append(asgs, asg{st, dst, src})
		}
	}
	if !c.AtLeast("O7", "assignments of a new best match", len(asgs), 1) {
		return
	}
	loops := Loops(fn)
	for i, a := range asgs {
		isScore := func(v ssa.Value, base ssa.Value) bool {
			ld, ok := v.(*ssa.UnOp)
			if !ok || ld.Op != token.MUL {
				return false
			}
			fa, ok := ld.X.(*ssa.FieldAddr)
			if !ok || fa.X != base {
				return false
			}
			_, f := fieldAddrName(fa)
			return f == "hostScore"
		}
		pass := PassEdges(fn, func(cond ssa.Value) (bool, bool) {
			op, x, y, ok := BinCmp(cond)
			if !ok {
				return false, false
			}
			switch {
			case isScore(x, a.cnd) && isScore(y, a.best): // cand OP best
				switch op {
				case token.LSS:
					return false, true
				case token.GEQ, token.GTR, token.EQL:
					return true, true
				}
			case isScore(x, a.best) && isScore(y, a.cnd): // best OP cand
				switch op {
				case token.GTR:
					return false, true
				case token.LEQ, token.LSS, token.EQL:
					return true, true
				}
			}
			return false, false
		})
		entry := fn.Blocks[0]
		if l := LoopOf(loops, a.st.Block()); l != nil {
			entry = l.Body
		}
		g, path := Guarded(entry, a.st, pass, nil)
		c.Check(g && nonVacuous(pass), "O7", fmt.Sprintf("best-match-replaced-only-by-no-worse-host#%d", i), p.InstrPos(a.st), "a candidate replaces the best match only when its host matches at least as exactly",
			"a configuration entry whose host matches LESS exactly can replace the best match (e.g. through a longer path match): credential.<wildcard-host>/path.protectProtocol=false then switches CR protection off for a host that has its own protectProtocol=true: "+path)
	}
}

// c17FlagAlwaysSet (O5, every path): the command helper is a long-lived object whose protection flag is assigned
// right before it is handed out for a URL. The assignment must lie on every path to that hand-out: a path that
// skips it leaves the flag at the zero value (false) or at whatever an earlier URL set — CR protection silently off.
func c17FlagAlwaysSet(c *Ctx) {
	p := c.P
	n := 0
	for _, fn := range p.RepoFuncs(func(s string) bool { return s == Mod+"/creds" }) {
		var stores []*ssa.Store
		for _, b := range fn.Blocks {
			for _, in := range b.Instrs {
				if st, ok := in.(*ssa.Store); ok {
					if fa, ok := st.Addr.(*ssa.FieldAddr); ok {
						if _, f := fieldAddrName(fa); f == "protectProtocol" {
							stores = append(stores, st)
						}
					}
				}
			}
		}
		if len(stores) == 0 {
			continue
		}
		// hand-outs: the helper value used as an element of a helper list or returned
		cut := map[Edge]bool{}
		for _, st := range stores {
			for i := range st.Block().Succs {
				cut[Edge{st.Block(), i}] = true
			}
		}
		for _, b := range fn.Blocks {
			for _, in := range b.Instrs {
				mi, ok := in.(*ssa.MakeInterface)
				if !ok {
					continue
				}
				if _, f, _, isF := FieldOf(mi.X); !isF || f != "commandCredHelper" {
					continue
				}
				n++
				storeHere := false
				for _, st := range stores {
					if st.Block() == b && InstrIndex(st) < InstrIndex(in) {
						storeHere = true
					}
				}
				reach := !storeHere && InstrReachable(fn.Blocks[0], in, cut, nil)
				c.Check(!reach, "O5", fmt.Sprintf("%s:flag-set-on-every-path#%d", FnName(fn), n), p.InstrPos(in), "the protection flag is assigned on every path before the helper is handed out",
					"the command credential helper can be handed out without its protection flag having been assigned for this URL (the assignment is conditional): the flag keeps its zero value false, and a value with a carriage return is written to `git credential`")
			}
		}
	}
	c.AtLeast("O5", "hand-outs of the command credential helper", n, 1)
}
