package main

// norm.go — semantics-preserving source normalisation applied (as a go/packages overlay, never on disk)
// before the rules run, so that routine refactors do not move the anchors the rules are written against:
//
//   (1) RENAMES.  The inventory (inventory.json, frozen from the tree the rules were written on) lists every
//       function, method, struct field and package-level name of the product packages with its type. A name
//       that is missing today while exactly one unknown name of the same kind, in the same package / receiver /
//       struct, with the same type exists, is a rename; the identifier is renamed back in the overlay.
//   (2) EXTRACTED HELPERS.  A private function that is not in the inventory, is only ever called directly and
//       from its own package, is not recursive and has no defer/recover, is a helper extracted from some
//       function the rules know; its calls are expanded back in place:
//
//           var a0 T0 = arg0 ...; var r0 R0 ...
//           { p0 := a0; L: for { body with `return e` => `{ r0 = e; break L }`; break L } }
//           <the original statement with the call replaced by r0>
//
//       which is exactly the meaning of the call (arguments evaluated once and first, body run once, early
//       returns leave the body). Call sites where hoisting the call in front of its statement could change
//       the evaluation order (right operand of && / ||, loop conditions, after another call in the same
//       expression) are left alone.
//
// Both steps are skipped when the set of names equals the inventory (a purely syntactic comparison), which is
// the case for the unchanged tree. The normalised program must type-check; otherwise the step is dropped.

import (
	"bytes"
	"encoding/json"
	"fmt"
	"go/ast"
	"go/parser"
	"go/printer"
	"go/token"
	"go/types"
	"golang.org/x/tools/go/ast/astutil"
	"os"
	"path/filepath"
	"sort"
	"strings"

	"golang.org/x/tools/go/packages"
)

type Inventory struct {
	Comment string            `json:"comment"`
	Funcs   map[string]string `json:"funcs"`  // "pkg|recv|name" -> signature
	Fields  map[string]string `json:"fields"` // "pkg|Struct|field" -> type
	Vars    map[string]string `json:"vars"`   // "pkg|name" -> "var|const|type <type>"
	Params  map[string]string `json:"params"` // "pkg|recv|name" -> "recv;p1,p2;r1,r2" (declared names)
	Std     map[string]int    `json:"std"`    // "pkg/file.go|slices.Contains" -> number of calls (library helpers that replace loops)
}

type NormReport struct {
	Renamed []string
	Inlined []string
	Skipped []string
	Failed  string
}

func relPkg(path string) string {
	return strings.TrimPrefix(strings.TrimPrefix(path, Mod), "/")
}

func recvString(fd *ast.FuncDecl) string {
	if fd.Recv == nil || len(fd.Recv.List) == 0 {
		return ""
	}
	t := fd.Recv.List[0].Type
	ptr := false
	for {
		switch x := t.(type) {
		case *ast.StarExpr:
			ptr = true
			t = x.X
			continue
		case *ast.ParenExpr:
			t = x.X
			continue
		case *ast.IndexExpr:
			t = x.X
			continue
		case *ast.IndexListExpr:
			t = x.X
			continue
		}
		break
	}
	id, ok := t.(*ast.Ident)
	if !ok {
		return "?"
	}
	if ptr {
		return "*" + id.Name
	}
	return id.Name
}

// scanParams, when non-nil, collects the declared parameter names during a scan (single-threaded use).
var scanParams map[string]map[string]bool

// scanStd, when non-nil, counts per file the calls of library helpers that stand for a hand-written loop.
var scanStd map[string]int

var stdLoopHelpers = map[string]bool{"slices.Contains": true}

func countStd(rel string, fname string, f *ast.File) {
	if scanStd == nil {
		return
	}
	ast.Inspect(f, func(x ast.Node) bool {
		if c, ok := x.(*ast.CallExpr); ok {
			if se, ok := c.Fun.(*ast.SelectorExpr); ok {
				if id, ok := se.X.(*ast.Ident); ok && stdLoopHelpers[id.Name+"."+se.Sel.Name] {
					scanStd[rel+"/"+filepath.Base(fname)+"|"+id.Name+"."+se.Sel.Name]++
				}
			}
		}
		return true
	})
}

// syntacticNames lists the names of one parsed file in the inventory's key format.
func syntacticNames(rel string, f *ast.File, funcs, fields, vars map[string]bool) {
	for _, d := range f.Decls {
		switch d := d.(type) {
		case *ast.FuncDecl:
			if d.Name.Name == "init" || d.Name.Name == "_" {
				continue
			}
			funcs[rel+"|"+recvString(d)+"|"+d.Name.Name] = true
			if scanParams != nil {
				k := rel + "|" + recvString(d) + "|" + d.Name.Name
				if scanParams[k] == nil {
					scanParams[k] = map[string]bool{}
				}
				scanParams[k][paramNames(d)] = true // one variant per platform file
			}
		case *ast.GenDecl:
			for _, sp := range d.Specs {
				switch sp := sp.(type) {
				case *ast.TypeSpec:
					vars[rel+"|"+sp.Name.Name] = true
					if st, ok := sp.Type.(*ast.StructType); ok && st.Fields != nil {
						for _, fl := range st.Fields.List {
							for _, n := range fl.Names {
								fields[rel+"|"+sp.Name.Name+"|"+n.Name] = true
							}
						}
					}
				case *ast.ValueSpec:
					for _, n := range sp.Names {
						if n.Name != "_" {
							vars[rel+"|"+n.Name] = true
						}
					}
				}
			}
		}
	}
}

// scanNames parses (no type checking) every non-test file of the package directories named in pkgs.
func scanNames(dir string, overlay map[string][]byte, pkgs map[string]bool) (funcs, fields, vars map[string]bool, err error) {
	funcs, fields, vars = map[string]bool{}, map[string]bool{}, map[string]bool{}
	fset := token.NewFileSet()
	for rel := range pkgs {
		d := filepath.Join(dir, rel)
		ents, e := os.ReadDir(d)
		if e != nil {
			continue // package directory gone: its names are simply missing
		}
		for _, en := range ents {
			n := en.Name()
			if en.IsDir() || !strings.HasSuffix(n, ".go") || strings.HasSuffix(n, "_test.go") {
				continue
			}
			full := filepath.Join(d, n)
			var src interface{}
			if b, ok := overlay[full]; ok {
				src = b
			}
			f, e := parser.ParseFile(fset, full, src, parser.SkipObjectResolution)
			if e != nil {
				return nil, nil, nil, e
			}
			if f.Name.Name == "main" && rel != "" {
				// helper programs living in a package directory (go:build ignore) are not part of it
				if rel != "lfshttp/standalone" && !strings.HasPrefix(rel, "cmd") {
					continue
				}
			}
			syntacticNames(rel, f, funcs, fields, vars)
			countStd(rel, full, f)
		}
	}
	return
}

func invPkgs(inv *Inventory) map[string]bool {
	out := map[string]bool{}
	for k := range inv.Funcs {
		out[k[:strings.Index(k, "|")]] = true
	}
	for k := range inv.Vars {
		out[k[:strings.Index(k, "|")]] = true
	}
	return out
}

// MakeInventory freezes the names of the product packages of the tree at dir.
func MakeInventory(dir string) (*Inventory, error) {
	p, err := Load(LoadOpts{Dir: dir, NoSSA: true})
	if err != nil {
		return nil, err
	}
	inv := &Inventory{Comment: "names and types of the product packages on the tree the rules were written against; used only to undo renames and helper extraction before analysis (norm.go). Regenerate with `lfscheck -mk-inventory` after reviewing that the rules still describe the tree.",
		Funcs: map[string]string{}, Fields: map[string]string{}, Vars: map[string]string{}, Params: map[string]string{}}
	pk := map[string]bool{}
	for _, pkg := range p.Pkgs {
		if productPkg(pkg.PkgPath) {
			pk[relPkg(pkg.PkgPath)] = true
		}
	}
	scanStd = map[string]int{}
	funcs, fields, vars, err := scanNames(dir, nil, pk)
	inv.Std = scanStd
	scanStd = nil
	if err != nil {
		return nil, err
	}
	for k := range funcs {
		inv.Funcs[k] = ""
	}
	for k := range fields {
		inv.Fields[k] = ""
	}
	for k := range vars {
		inv.Vars[k] = ""
	}
	// types, where the current platform sees the declaration
	for _, pkg := range p.Pkgs {
		if !productPkg(pkg.PkgPath) {
			continue
		}
		rel := relPkg(pkg.PkgPath)
		fillTypes(rel, pkg, inv.Funcs, inv.Fields, inv.Vars)
		for _, f := range pkg.Syntax {
			for _, d := range f.Decls {
				if fd, ok := d.(*ast.FuncDecl); ok {
					k := rel + "|" + recvString(fd) + "|" + fd.Name.Name
					if _, want := inv.Funcs[k]; want {
						inv.Params[k] = paramNames(fd)
					}
				}
			}
		}
	}
	return inv, nil
}

func fullQual(p *types.Package) string { return p.Path() }

func fillTypes(rel string, pkg *packages.Package, funcs, fields, vars map[string]string) {
	for _, f := range pkg.Syntax {
		for _, d := range f.Decls {
			switch d := d.(type) {
			case *ast.FuncDecl:
				if obj, ok := pkg.TypesInfo.Defs[d.Name].(*types.Func); ok {
					k := rel + "|" + recvString(d) + "|" + d.Name.Name
					if _, want := funcs[k]; want {
						funcs[k] = sigString(obj)
					}
				}
			case *ast.GenDecl:
				for _, sp := range d.Specs {
					switch sp := sp.(type) {
					case *ast.TypeSpec:
						k := rel + "|" + sp.Name.Name
						if _, want := vars[k]; want {
							if obj := pkg.TypesInfo.Defs[sp.Name]; obj != nil {
								vars[k] = "type " + types.TypeString(obj.Type().Underlying(), fullQual)
								if len(vars[k]) > 300 {
									vars[k] = vars[k][:300]
								}
							}
						}
						if st, ok := sp.Type.(*ast.StructType); ok && st.Fields != nil {
							for _, fl := range st.Fields.List {
								for _, n := range fl.Names {
									fk := rel + "|" + sp.Name.Name + "|" + n.Name
									if _, want := fields[fk]; want {
										if obj := pkg.TypesInfo.Defs[n]; obj != nil {
											fields[fk] = types.TypeString(obj.Type(), fullQual)
										}
									}
								}
							}
						}
					case *ast.ValueSpec:
						for _, n := range sp.Names {
							k := rel + "|" + n.Name
							if _, want := vars[k]; want {
								if obj := pkg.TypesInfo.Defs[n]; obj != nil {
									kind := "var "
									if _, isC := obj.(*types.Const); isC {
										kind = "const "
									}
									vars[k] = kind + types.TypeString(obj.Type(), fullQual)
								}
							}
						}
					}
				}
			}
		}
	}
}

// paramNames lists the declared names of receiver, parameters and results: "recv;p1,p2;r1,r2".
func paramNames(fd *ast.FuncDecl) string {
	fl := func(l *ast.FieldList) string {
		var out []string
		if l != nil {
			for _, f := range l.List {
				if len(f.Names) == 0 {
					out = append(out, "")
				}
				for _, n := range f.Names {
					out = append(out, n.Name)
				}
			}
		}
		return strings.Join(out, ",")
	}
	return fl(fd.Recv) + ";" + fl(fd.Type.Params) + ";" + fl(fd.Type.Results)
}

// sigString prints the parameter and result types of f without their names (a rename of the function often
// comes with renamed parameters).
func sigString(f *types.Func) string {
	sig := f.Type().(*types.Signature)
	anon := func(t *types.Tuple) *types.Tuple {
		var vs []*types.Var
		for i := 0; i < t.Len(); i++ {
			vs = append(vs, types.NewVar(token.NoPos, nil, "", t.At(i).Type()))
		}
		return types.NewTuple(vs...)
	}
	return types.TypeString(types.NewSignatureType(nil, nil, nil, anon(sig.Params()), anon(sig.Results()), sig.Variadic()), fullQual)
}

// pairByName resolves an ambiguous rename (several old names gone, as many new names of the same type) by
// name similarity: each new name must have one clearly best old name, and no two may choose the same.
func pairByName(olds, news []string) map[string]string {
	if len(olds) != len(news) || len(olds) < 2 || len(olds) > 4 {
		return nil
	}
	lcs := func(a, b string) int {
		a, b = strings.ToLower(a), strings.ToLower(b)
		best := 0
		for i := range a {
			for j := range b {
				k := 0
				for i+k < len(a) && j+k < len(b) && a[i+k] == b[j+k] {
					k++
				}
				if k > best {
					best = k
				}
			}
		}
		return best
	}
	out := map[string]string{}
	taken := map[string]bool{}
	for _, nw := range news {
		best, second, who := 0, 0, ""
		for _, od := range olds {
			sc := lcs(nw, od)
			if sc > best {
				best, second, who = sc, best, od
			} else if sc > second {
				second = sc
			}
		}
		if best < 3 || best == second || taken[who] {
			return nil
		}
		taken[who] = true
		out[nw] = who
	}
	return out
}

func loadInventory() *Inventory {
	inv := &Inventory{}
	if err := json.Unmarshal(inventoryJSON, inv); err != nil {
		return nil
	}
	return inv
}

// Normalise returns the overlay to analyse (the given overlay plus the normalised files) and a report.
func Normalise(o LoadOpts, inv *Inventory) (map[string][]byte, *NormReport) {
	rep := &NormReport{}
	if inv == nil || len(inv.Funcs) == 0 || os.Getenv("LFSCHECK_NO_NORMALISE") != "" {
		return o.Overlay, rep
	}
	pk := invPkgs(inv)
	scanParams = map[string]map[string]bool{}
	scanStd = map[string]int{}
	funcs, fields, vars, err := scanNames(o.Dir, o.Overlay, pk)
	params := scanParams
	std := scanStd
	scanParams, scanStd = nil, nil
	if err != nil {
		return o.Overlay, rep // the real load reports the syntax error
	}
	unknown := 0
	stdFiles := map[string]bool{} // "pkg/file.go" with more loop-replacing library calls than the inventory knows
	for k, n := range std {
		if n > inv.Std[k] {
			unknown++
			stdFiles[k[:strings.Index(k, "|")]] = true
		}
	}
	for k, v := range params {
		if w, ok := inv.Params[k]; ok && !v[w] {
			unknown++
		}
	}
	for k := range funcs {
		if _, ok := inv.Funcs[k]; !ok {
			unknown++
		}
	}
	for k := range fields {
		if _, ok := inv.Fields[k]; !ok {
			unknown++
		}
	}
	for k := range vars {
		if _, ok := inv.Vars[k]; !ok {
			unknown++
		}
	}
	if unknown == 0 {
		return o.Overlay, rep
	}
	lo := o
	lo.NoSSA = true
	p, err := Load(lo)
	if err != nil {
		return o.Overlay, rep
	}
	n := &normaliser{p: p, inv: inv, rep: rep, modified: map[ast.Node]bool{}, addImports: map[*ast.File]map[string]string{}, stdFiles: stdFiles}
	n.run()
	if len(rep.Renamed) == 0 && len(rep.Inlined) == 0 {
		return o.Overlay, rep
	}
	out := map[string][]byte{}
	for k, v := range o.Overlay {
		out[k] = v
	}
	for _, pkg := range p.Pkgs {
		for i, f := range pkg.Syntax {
			if !n.fileTouched(f) || i >= len(pkg.CompiledGoFiles) {
				continue
			}
			name := pkg.CompiledGoFiles[i]
			src, ok := o.Overlay[name]
			if !ok {
				src, err = os.ReadFile(name)
				if err != nil {
					rep.Failed = err.Error()
					return o.Overlay, rep
				}
			}
			b, err := n.render(f, name, src)
			if err != nil {
				rep.Failed = err.Error()
				return o.Overlay, rep
			}
			out[name] = b
		}
	}
	// the normalised program must type-check
	chk := o
	chk.Overlay = out
	chk.NoSSA = true
	if _, err := Load(chk); err != nil {
		rep.Failed = "normalised source does not type-check, analysing the tree as it is: " + err.Error()
		if os.Getenv("LFSCHECK_DEBUG_NORM") != "" {
			for k, v := range out {
				if _, was := o.Overlay[k]; !was {
					os.WriteFile(filepath.Join(os.TempDir(), "norm-"+filepath.Base(k)), v, 0o644)
				}
			}
		}
		rep.Renamed, rep.Inlined = nil, nil
		return o.Overlay, rep
	}
	if os.Getenv("LFSCHECK_DEBUG_NORM") != "" {
		for k, v := range out {
			if _, was := o.Overlay[k]; !was {
				os.WriteFile(filepath.Join(os.TempDir(), "norm-"+filepath.Base(k)), v, 0o644)
			}
		}
	}
	return out, rep
}

type normaliser struct {
	p           *Prog
	inv         *Inventory
	rep         *NormReport
	modified    map[ast.Node]bool               // top-level declarations that must be re-printed
	addImports  map[*ast.File]map[string]string // file -> import path -> name
	removed     map[ast.Decl]bool               // fully expanded helpers
	stdFiles    map[string]bool                 // files in which library loop helpers are expanded
	stdExpanded map[*ast.File]bool
	methodised  []*types.Func
	counter     int
}

func (n *normaliser) fileTouched(f *ast.File) bool {
	if len(n.addImports[f]) > 0 {
		return true
	}
	for _, d := range f.Decls {
		if n.modified[d] {
			return true
		}
	}
	return false
}

type declInfo struct {
	pkg  *packages.Package
	file *ast.File
	decl ast.Decl
}

func (n *normaliser) run() {
	// ---- collect today's declarations ------------------------------------------------------------------
	type fn struct {
		key string
		obj *types.Func
		fd  *ast.FuncDecl
		di  declInfo
	}
	type fld struct {
		key string
		obj *types.Var
		id  *ast.Ident
		di  declInfo
	}
	type pv struct {
		key string
		obj types.Object
		id  *ast.Ident
		di  declInfo
	}
	var fns []fn
	var flds []fld
	var pvs []pv
	declOf := map[types.Object]declInfo{}
	for _, pkg := range n.p.Pkgs {
		if !productPkg(pkg.PkgPath) {
			continue
		}
		rel := relPkg(pkg.PkgPath)
		for _, f := range pkg.Syntax {
			for _, d := range f.Decls {
				di := declInfo{pkg, f, d}
				switch d := d.(type) {
				case *ast.FuncDecl:
					if obj, ok := pkg.TypesInfo.Defs[d.Name].(*types.Func); ok && d.Name.Name != "init" && d.Name.Name != "_" {
						fns = append(fns, fn{rel + "|" + recvString(d) + "|" + d.Name.Name, obj, d, di})
						declOf[obj] = di
					}
				case *ast.GenDecl:
					for _, sp := range d.Specs {
						switch sp := sp.(type) {
						case *ast.TypeSpec:
							if obj := pkg.TypesInfo.Defs[sp.Name]; obj != nil {
								pvs = append(pvs, pv{rel + "|" + sp.Name.Name, obj, sp.Name, di})
								declOf[obj] = di
							}
							if st, ok := sp.Type.(*ast.StructType); ok && st.Fields != nil {
								for _, fl := range st.Fields.List {
									for _, nm := range fl.Names {
										if obj, ok := pkg.TypesInfo.Defs[nm].(*types.Var); ok {
											flds = append(flds, fld{rel + "|" + sp.Name.Name + "|" + nm.Name, obj, nm, di})
											declOf[obj] = di
										}
									}
								}
							}
						case *ast.ValueSpec:
							for _, nm := range sp.Names {
								if obj := pkg.TypesInfo.Defs[nm]; obj != nil && nm.Name != "_" {
									pvs = append(pvs, pv{rel + "|" + nm.Name, obj, nm, di})
									declOf[obj] = di
								}
							}
						}
					}
				}
			}
		}
	}
	have := map[string]bool{}
	for _, f := range fns {
		have[f.key] = true
	}
	for _, f := range flds {
		have[f.key] = true
	}
	for _, v := range pvs {
		have[v.key] = true
	}
	prefix := func(k string) string { return k[:strings.LastIndex(k, "|")] }

	// ---- renames --------------------------------------------------------------------------------------
	renames := map[types.Object]string{}
	// functions / methods
	{
		missing := map[string][]string{} // prefix+sig -> old names
		for k, sig := range n.inv.Funcs {
			if !have[k] && sig != "" {
				missing[prefix(k)+"#"+sig] = append(missing[prefix(k)+"#"+sig], k[strings.LastIndex(k, "|")+1:])
			}
		}
		cand := map[string][]fn{}
		for _, f := range fns {
			if _, known := n.inv.Funcs[f.key]; !known {
				k := prefix(f.key) + "#" + sigString(f.obj)
				cand[k] = append(cand[k], f)
			}
		}
		for k, olds := range missing {
			if len(olds) == 1 && len(cand[k]) == 1 {
				renames[cand[k][0].obj] = olds[0]
				n.rep.Renamed = append(n.rep.Renamed, fmt.Sprintf("func %s -> %s (same receiver and signature; the old name is gone)", short(cand[k][0].obj.FullName()), olds[0]))
			} else if len(cand[k]) > 1 {
				var news []string
				for _, c := range cand[k] {
					news = append(news, c.obj.Name())
				}
				if m := pairByName(olds, news); m != nil {
					for _, c := range cand[k] {
						renames[c.obj] = m[c.obj.Name()]
						n.rep.Renamed = append(n.rep.Renamed, fmt.Sprintf("func %s -> %s (same receiver and signature, closest name)", short(c.obj.FullName()), m[c.obj.Name()]))
					}
				}
			}
		}
	}
	// struct fields
	{
		missing := map[string][]string{}
		for k, t := range n.inv.Fields {
			if !have[k] && t != "" {
				missing[prefix(k)+"#"+t] = append(missing[prefix(k)+"#"+t], k[strings.LastIndex(k, "|")+1:])
			}
		}
		cand := map[string][]fld{}
		for _, f := range flds {
			if _, known := n.inv.Fields[f.key]; !known {
				k := prefix(f.key) + "#" + types.TypeString(f.obj.Type(), fullQual)
				cand[k] = append(cand[k], f)
			}
		}
		for k, olds := range missing {
			if len(olds) == 1 && len(cand[k]) == 1 {
				renames[cand[k][0].obj] = olds[0]
				n.rep.Renamed = append(n.rep.Renamed, fmt.Sprintf("field %s.%s -> %s (same struct and type; the old name is gone)", strings.ReplaceAll(prefix(cand[k][0].key), "|", "."), cand[k][0].obj.Name(), olds[0]))
			} else if len(cand[k]) > 1 {
				var news []string
				for _, c := range cand[k] {
					news = append(news, c.obj.Name())
				}
				if m := pairByName(olds, news); m != nil {
					for _, c := range cand[k] {
						renames[c.obj] = m[c.obj.Name()]
						n.rep.Renamed = append(n.rep.Renamed, fmt.Sprintf("field %s.%s -> %s (same struct and type, closest name)", strings.ReplaceAll(prefix(c.key), "|", "."), c.obj.Name(), m[c.obj.Name()]))
					}
				}
			}
		}
	}
	// package-level vars / consts (not types: a renamed type changes every signature that mentions it)
	{
		missing := map[string][]string{}
		for k, t := range n.inv.Vars {
			if !have[k] && t != "" && !strings.HasPrefix(t, "type ") {
				missing[prefix(k)+"#"+t] = append(missing[prefix(k)+"#"+t], k[strings.LastIndex(k, "|")+1:])
			}
		}
		cand := map[string][]pv{}
		for _, v := range pvs {
			if _, known := n.inv.Vars[v.key]; !known {
				if _, isT := v.obj.(*types.TypeName); isT {
					continue
				}
				kind := "var "
				if _, isC := v.obj.(*types.Const); isC {
					kind = "const "
				}
				k := prefix(v.key) + "#" + kind + types.TypeString(v.obj.Type(), fullQual)
				cand[k] = append(cand[k], v)
			}
		}
		for k, olds := range missing {
			if len(olds) == 1 && len(cand[k]) == 1 {
				renames[cand[k][0].obj] = olds[0]
				n.rep.Renamed = append(n.rep.Renamed, fmt.Sprintf("%s %s -> %s (same type; the old name is gone)", strings.Fields(k[strings.Index(k, "#")+1:])[0], cand[k][0].key, olds[0]))
			}
		}
	}
	sort.Strings(n.rep.Renamed)

	// ---- a method that became a plain function taking the old receiver first (or got a new name on the way) ----
	// missing:  pkg|*T|m  with signature S      unknown:  pkg||f  with signature func(*T, S.params...) S.results
	// The declaration is turned back into the method and every call f(x, a...) into x.m(a...).
	{
		type cand struct {
			f    fn
			rest string // signature without the first parameter
			recv string
		}
		var cands []cand
		for _, f := range fns {
			if _, known := n.inv.Funcs[f.key]; known || renames[f.obj] != "" || f.fd.Recv != nil {
				continue
			}
			sig := f.obj.Type().(*types.Signature)
			if sig.Params().Len() == 0 || sig.Variadic() && sig.Params().Len() == 1 || sig.TypeParams().Len() > 0 {
				continue
			}
			var ps []*types.Var
			for i := 1; i < sig.Params().Len(); i++ {
				ps = append(ps, types.NewVar(token.NoPos, nil, "", sig.Params().At(i).Type()))
			}
			var rs []*types.Var
			for i := 0; i < sig.Results().Len(); i++ {
				rs = append(rs, types.NewVar(token.NoPos, nil, "", sig.Results().At(i).Type()))
			}
			rest := types.TypeString(types.NewSignatureType(nil, nil, nil, types.NewTuple(ps...), types.NewTuple(rs...), sig.Variadic()), fullQual)
			rt := sig.Params().At(0).Type()
			recv := ""
			if pt, ok := rt.(*types.Pointer); ok {
				if nt, ok := pt.Elem().(*types.Named); ok && nt.Obj().Pkg() == f.obj.Pkg() {
					recv = "*" + nt.Obj().Name()
				}
			} else if nt, ok := rt.(*types.Named); ok && nt.Obj().Pkg() == f.obj.Pkg() {
				recv = nt.Obj().Name()
			}
			if recv == "" || len(f.fd.Type.Params.List) == 0 || len(f.fd.Type.Params.List[0].Names) != 1 {
				continue
			}
			cands = append(cands, cand{f, rest, recv})
		}
		for k, sig := range n.inv.Funcs {
			if have[k] || sig == "" {
				continue
			}
			parts := strings.Split(k, "|")
			if len(parts) != 3 || parts[1] == "" {
				continue
			}
			var match []cand
			for _, c := range cands {
				if relPkg(c.f.di.pkg.PkgPath) == parts[0] && c.recv == parts[1] && c.rest == sig {
					match = append(match, c)
				}
			}
			if len(match) > 1 {
				var same []cand
				for _, c := range match {
					if c.f.obj.Name() == parts[2] {
						same = append(same, c)
					}
				}
				match = same
			}
			if len(match) != 1 {
				continue
			}
			c := match[0]
			if n.methodise(c.f.obj, c.f.fd, c.f.di, parts[2]) {
				have[k] = true
				renames[c.f.obj] = "" // handled: neither a rename nor a helper
				delete(renames, c.f.obj)
				n.methodised = append(n.methodised, c.f.obj)
				n.rep.Renamed = append(n.rep.Renamed, fmt.Sprintf("func %s -> method (%s).%s (same parameters after the receiver; the method is gone)", short(c.f.obj.FullName()), parts[1], parts[2]))
			}
		}
	}

	// ---- parameter names of known functions (rules may refer to a parameter by its name) -------------------
	for _, f := range fns {
		key := f.key
		if nn, ok := renames[f.obj]; ok {
			key = prefix(f.key) + "|" + nn
		}
		want, known := n.inv.Params[key]
		if !known || n.inv.Funcs[key] != sigString(f.obj) {
			continue
		}
		have := paramNames(f.fd)
		if want == have {
			continue
		}
		wn, hn := strings.Split(strings.ReplaceAll(want, ";", ","), ","), strings.Split(strings.ReplaceAll(have, ";", ","), ",")
		if len(wn) != len(hn) {
			continue
		}
		// the identifiers of the declaration, in the same order
		var ids []*ast.Ident
		for _, l := range []*ast.FieldList{f.fd.Recv, f.fd.Type.Params, f.fd.Type.Results} {
			if l == nil {
				ids = append(ids, nil)
				continue
			}
			cnt := 0
			for _, fl := range l.List {
				if len(fl.Names) == 0 {
					ids = append(ids, nil)
					cnt++
				}
				for _, nm := range fl.Names {
					ids = append(ids, nm)
					cnt++
				}
			}
			if cnt == 0 {
				ids = append(ids, nil)
			}
		}
		if len(ids) != len(wn) {
			continue
		}
		used := map[string]bool{}
		ast.Inspect(f.fd, func(x ast.Node) bool {
			if id, ok := x.(*ast.Ident); ok {
				used[id.Name] = true
			}
			return true
		})
		for i, id := range ids {
			if id == nil || wn[i] == "" || wn[i] == "_" || id.Name == "_" || id.Name == wn[i] {
				continue
			}
			if used[wn[i]] {
				continue // the old name means something else in this function now
			}
			if obj := f.di.pkg.TypesInfo.Defs[id]; obj != nil {
				renames[obj] = wn[i]
				n.rep.Renamed = append(n.rep.Renamed, fmt.Sprintf("parameter %s of %s -> %s", id.Name, short(f.obj.FullName()), wn[i]))
			}
		}
	}
	// ---- values threaded through a new parameter ----------------------------------------------------------
	// A known function that gained a parameter, every caller passing the same package-level variable or constant,
	// or the same field of the receiver / of another argument: the parameter stands for that expression. An
	// assignment `param = <expression>` is put in front of the body, so that the rules see what they saw when the
	// function read the value itself.
	threaded := map[*types.Func]map[string]string{} // function -> new parameter -> package-level expression it stands for
	unthreaded := map[*types.Func]bool{}
	for pass := 0; pass < 2; pass++ {
		for _, f := range fns {
			if unthreaded[f.obj] {
				continue
			}
			key := f.key
			if nn, ok := renames[f.obj]; ok {
				key = prefix(f.key) + "|" + nn
			}
			want, known := n.inv.Params[key]
			if !known || f.fd.Body == nil || f.fd.Type.Params == nil {
				continue
			}
			wantParts := strings.Split(want, ";")
			if len(wantParts) != 3 {
				continue
			}
			oldNames := map[string]bool{}
			nOld := 0
			for _, nm := range strings.Split(wantParts[1], ",") {
				if nm != "" {
					oldNames[nm] = true
				}
				nOld++
			}
			if wantParts[1] == "" {
				nOld = 0
			}
			type prm struct {
				name string
				idx  int
			}
			var cur []prm
			idx := 0
			for _, fl := range f.fd.Type.Params.List {
				if len(fl.Names) == 0 {
					cur = append(cur, prm{"", idx})
					idx++
				}
				for _, nm := range fl.Names {
					cur = append(cur, prm{nm.Name, idx})
					idx++
				}
			}
			if len(cur) <= nOld {
				continue
			}
			var added []prm
			for _, c := range cur {
				if c.name != "" && c.name != "_" && !oldNames[c.name] {
					added = append(added, c)
				}
			}
			if len(added) == 0 || len(added) != len(cur)-nOld {
				continue
			}
			recvName := ""
			if f.fd.Recv != nil && len(f.fd.Recv.List) == 1 && len(f.fd.Recv.List[0].Names) == 1 {
				recvName = f.fd.Recv.List[0].Names[0].Name
			}
			// call sites (direct calls anywhere in the product packages)
			type site struct {
				call *ast.CallExpr
				pkg  *packages.Package
				encl *types.Func
			}
			var sites []site
			okAll := true
			for _, pkg := range n.p.Pkgs {
				if !productPkg(pkg.PkgPath) {
					continue
				}
				for _, file0 := range pkg.Syntax {
					for _, file := range file0.Decls {
						var encl *types.Func
						if efd, ok := file.(*ast.FuncDecl); ok {
							encl, _ = pkg.TypesInfo.Defs[efd.Name].(*types.Func)
						}
						called := map[*ast.Ident]*ast.CallExpr{}
						ast.Inspect(file, func(x ast.Node) bool {
							if c, ok := x.(*ast.CallExpr); ok {
								switch fun := c.Fun.(type) {
								case *ast.Ident:
									called[fun] = c
								case *ast.SelectorExpr:
									called[fun.Sel] = c
								}
							}
							return true
						})
						ast.Inspect(file, func(x ast.Node) bool {
							if id, ok := x.(*ast.Ident); ok && pkg.TypesInfo.Uses[id] == types.Object(f.obj) {
								if c := called[id]; c != nil && !c.Ellipsis.IsValid() {
									sites = append(sites, site{c, pkg, encl})
								} else {
									okAll = false
								}
							}
							return true
						})
					}
				}
			}
			if !okAll || len(sites) == 0 {
				continue
			}
			var pre []ast.Stmt
			var notes []string
			for _, a := range added {
				text := ""
				for _, st := range sites {
					if a.idx >= len(st.call.Args) {
						text = ""
						break
					}
					arg := st.call.Args[a.idx]
					repl := ""
					switch x := arg.(type) {
					case *ast.Ident:
						if o := st.pkg.TypesInfo.Uses[x]; o != nil && o.Parent() == o.Pkg().Scope() && o.Pkg() == f.di.pkg.Types {
							if _, isFn := o.(*types.Func); !isFn {
								repl = x.Name
							}
						}
						// handed on: the caller's own new parameter, which stands for a package-level expression
						if repl == "" && st.encl != nil && st.pkg == f.di.pkg {
							if t, ok := threaded[st.encl][x.Name]; ok {
								repl = t
							}
						}
					case *ast.SelectorExpr:
						base := types.ExprString(x.X)
						// rooted at a package-level variable of the callee's package
						if id, ok := x.X.(*ast.Ident); ok {
							if o := st.pkg.TypesInfo.Uses[id]; o != nil && o.Pkg() == f.di.pkg.Types && o.Parent() == o.Pkg().Scope() {
								if _, isVar := o.(*types.Var); isVar {
									repl = base + "." + x.Sel.Name
								}
							}
						}
						// a field of the receiver of the call
						if repl == "" && recvName != "" {
							if se, ok := st.call.Fun.(*ast.SelectorExpr); ok && types.ExprString(se.X) == base {
								repl = recvName + "." + x.Sel.Name
							}
						}
						// a field of another argument
						if repl == "" {
							for _, c := range cur {
								if c.idx != a.idx && c.idx < len(st.call.Args) && c.name != "" && c.name != "_" && types.ExprString(st.call.Args[c.idx]) == base {
									repl = c.name + "." + x.Sel.Name
								}
							}
						}
					}
					if repl == "" || (text != "" && text != repl) {
						text = ""
						break
					}
					text = repl
				}
				if text == "" {
					pre = nil
					break
				}
				// built by hand (no positions), as the other synthesised nodes are
				var ex ast.Expr
				for i, part := range strings.Split(text, ".") {
					if i == 0 {
						ex = ident(part)
					} else {
						ex = &ast.SelectorExpr{X: ex, Sel: ident(part)}
					}
				}
				pre = append(pre, &ast.AssignStmt{Lhs: []ast.Expr{ident(a.name)}, Tok: token.ASSIGN, Rhs: []ast.Expr{ex}})
				notes = append(notes, fmt.Sprintf("parameter %s of %s stands for %s at every call site", a.name, short(f.obj.FullName()), text))
			}
			if len(pre) == 0 {
				continue
			}
			f.fd.Body.List = append(pre, f.fd.Body.List...)
			n.modified[f.di.decl] = true
			n.rep.Renamed = append(n.rep.Renamed, notes...)
			unthreaded[f.obj] = true
			for _, st := range pre {
				as := st.(*ast.AssignStmt)
				text := types.ExprString(as.Rhs[0])
				root := strings.Split(text, ".")[0]
				if o := f.di.pkg.Types.Scope().Lookup(root); o != nil {
					if threaded[f.obj] == nil {
						threaded[f.obj] = map[string]string{}
					}
					threaded[f.obj][as.Lhs[0].(*ast.Ident).Name] = text
				}
			}
		}
	}
	// ---- results packed into a small struct -------------------------------------------------------------------
	// A known function whose results (A, B, error) became (T, error) with T a new unexported struct{A; B}: the
	// results are unpacked again — composite literals at the returns become separate values, `res, err := f()` at the
	// call sites becomes `res_a, res_b, err := f()` and `res.a` becomes `res_a`. Anything else (T used as a whole,
	// assignment to existing variables, a zero value that cannot be written down) leaves the function as it is.
	for _, f := range fns {
		key := f.key
		if nn, ok := renames[f.obj]; ok {
			key = prefix(f.key) + "|" + nn
		}
		invSig, known := n.inv.Funcs[key]
		if !known || f.fd.Body == nil || f.fd.Type.Results == nil || sigString(f.obj) == invSig {
			continue
		}
		if n.unpackResultStruct(f.obj, f.fd, f.di, invSig) {
			n.rep.Renamed = append(n.rep.Renamed, fmt.Sprintf("results of %s: the small result struct is unpacked into separate results again", short(f.obj.FullName())))
		}
	}
	sort.Strings(n.rep.Renamed)

	// ---- helpers to inline -------------------------------------------------------------------------------
	helpers := map[*types.Func]*ast.FuncDecl{}
	helperPkg := map[*types.Func]*packages.Package{}
	for _, f := range fns {
		if _, known := n.inv.Funcs[f.key]; known {
			continue
		}
		if _, ren := renames[f.obj]; ren {
			continue
		}
		skipM := false
		for _, mo := range n.methodised {
			if mo == f.obj {
				skipM = true
			}
		}
		if skipM {
			continue
		}
		if f.obj.Exported() || f.fd.Body == nil {
			continue
		}
		sig := f.obj.Type().(*types.Signature)
		if sig.Variadic() || sig.TypeParams().Len() > 0 || sig.RecvTypeParams().Len() > 0 {
			n.rep.Skipped = append(n.rep.Skipped, f.key+": variadic or generic")
			continue
		}
		if why := unsuitableBody(f.fd, f.di.pkg.TypesInfo, f.obj); why != "" {
			n.rep.Skipped = append(n.rep.Skipped, f.key+": "+why)
			continue
		}
		helpers[f.obj] = f.fd
		helperPkg[f.obj] = f.di.pkg
	}
	// every use must be a direct call from the same package
	for _, pkg := range n.p.Pkgs {
		if !productPkg(pkg.PkgPath) {
			continue
		}
		calls := map[*ast.Ident]bool{}
		for _, f := range pkg.Syntax {
			ast.Inspect(f, func(x ast.Node) bool {
				if c, ok := x.(*ast.CallExpr); ok {
					switch fun := c.Fun.(type) {
					case *ast.Ident:
						calls[fun] = true
					case *ast.SelectorExpr:
						calls[fun.Sel] = true
					}
				}
				return true
			})
		}
		for id, obj := range pkg.TypesInfo.Uses {
			if fo, ok := obj.(*types.Func); ok {
				if _, isH := helpers[fo]; isH && (!calls[id] || helperPkg[fo] != pkg) {
					delete(helpers, fo)
					n.rep.Skipped = append(n.rep.Skipped, short(fo.FullName())+": used as a value or from another package")
				}
			}
		}
	}

	// ---- apply renames (identifier by identifier, through the type information) ---------------------------
	if len(renames) > 0 {
		for _, pkg := range n.p.Pkgs {
			if !productPkg(pkg.PkgPath) {
				continue
			}
			for _, f := range pkg.Syntax {
				for _, d := range f.Decls {
					ast.Inspect(d, func(x ast.Node) bool {
						id, ok := x.(*ast.Ident)
						if !ok {
							return true
						}
						var obj types.Object
						if o := pkg.TypesInfo.Uses[id]; o != nil {
							obj = o
						} else if o := pkg.TypesInfo.Defs[id]; o != nil {
							obj = o
						}
						if obj == nil {
							return true
						}
						if fo, ok := obj.(*types.Func); ok {
							obj = fo.Origin()
						}
						if vo, ok := obj.(*types.Var); ok {
							obj = vo.Origin()
						}
						if nn, ok := renames[obj]; ok {
							id.Name = nn
							n.modified[d] = true
						}
						return true
					})
				}
			}
		}
	}

	// ---- inline the helpers -----------------------------------------------------------------------------
	if len(helpers) > 0 || len(n.stdFiles) > 0 {
		// bottom-up: helpers that call other helpers are expanded first (bounded)
		for round := 0; round < 3; round++ {
			for _, pkg := range n.p.Pkgs {
				if !productPkg(pkg.PkgPath) {
					continue
				}
				for _, f := range pkg.Syntax {
					for _, d := range f.Decls {
						fd, ok := d.(*ast.FuncDecl)
						if !ok || fd.Body == nil {
							continue
						}
						isHelperDecl := false
						if obj, ok := pkg.TypesInfo.Defs[fd.Name].(*types.Func); ok {
							_, isHelperDecl = helpers[obj]
						}
						if (round < 2) != isHelperDecl {
							continue // rounds 0,1: expand inside helper bodies; round 2: everywhere else
						}
						il := &inliner{n: n, pkg: pkg, file: f, helpers: helpers, decl: fd}
						if i := fileIndex(pkg, f); i >= 0 {
							il.std = n.stdFiles[relPkg(pkg.PkgPath)+"/"+filepath.Base(pkg.CompiledGoFiles[i])]
						}
						fd.Body.List = il.list(fd.Body.List)
						if il.changed {
							n.modified[d] = true
						}
					}
				}
			}
		}
	}
	// a helper whose every call was expanded is dead code now: drop its declaration, so that the rules see
	// its statements only where they run
	if len(helpers) > 0 {
		n.removed = map[ast.Decl]bool{}
		for changed := true; changed; {
			changed = false
			remaining := map[*types.Func]int{}
			for _, pkg := range n.p.Pkgs {
				if !productPkg(pkg.PkgPath) {
					continue
				}
				for _, f := range pkg.Syntax {
					for _, d := range f.Decls {
						if n.removed[d] {
							continue
						}
						ast.Inspect(d, func(x ast.Node) bool {
							if id, ok := x.(*ast.Ident); ok {
								if fo, ok := pkg.TypesInfo.Uses[id].(*types.Func); ok {
									if _, isH := helpers[fo]; isH {
										remaining[fo]++
									}
								}
							}
							return true
						})
					}
				}
			}
			for fo, fd := range helpers {
				if remaining[fo] == 0 && !n.removed[fd] {
					n.removed[fd] = true
					n.modified[fd] = true
					changed = true
				}
			}
		}
	}
	sort.Strings(n.rep.Inlined)
	sort.Strings(n.rep.Skipped)
}

// unsuitableBody explains why a function cannot be expanded in place ("" when it can).
func unsuitableBody(fd *ast.FuncDecl, info *types.Info, self *types.Func) string {
	why := ""
	var walk func(x ast.Node, inLit bool)
	walk = func(x ast.Node, inLit bool) {
		ast.Inspect(x, func(y ast.Node) bool {
			if why != "" {
				return false
			}
			switch y := y.(type) {
			case *ast.FuncLit:
				if y != x {
					walk(y.Body, true)
					return false
				}
			case *ast.DeferStmt:
				if !inLit {
					why = "has a defer"
				}
			case *ast.CallExpr:
				if id, ok := y.Fun.(*ast.Ident); ok {
					if id.Name == "recover" {
						why = "calls recover"
					}
					if info.Uses[id] == types.Object(self) {
						why = "recursive"
					}
				}
				if se, ok := y.Fun.(*ast.SelectorExpr); ok && info.Uses[se.Sel] == types.Object(self) {
					why = "recursive"
				}
			case *ast.BranchStmt:
				if y.Tok == token.GOTO {
					why = "uses goto"
				}
			}
			return true
		})
	}
	walk(fd.Body, false)
	return why
}

// ---------------------------------------------------------------------------------------------------------
// the inliner

func fileIndex(pkg *packages.Package, f *ast.File) int {
	for i, x := range pkg.Syntax {
		if x == f && i < len(pkg.CompiledGoFiles) {
			return i
		}
	}
	return -1
}

type inliner struct {
	std     bool // expand slices.Contains in this file
	n       *normaliser
	pkg     *packages.Package
	file    *ast.File
	helpers map[*types.Func]*ast.FuncDecl
	decl    *ast.FuncDecl
	changed bool
}

// list processes a statement list: nested statement lists first, then the helper calls of each statement.
func (il *inliner) list(in []ast.Stmt) []ast.Stmt {
	var out []ast.Stmt
	for _, s := range in {
		il.nested(s)
		pre, repl := il.stmt(s)
		out = append(out, pre...)
		if repl != nil {
			out = append(out, repl)
		}
	}
	return out
}

// nested descends into the statement lists contained in s (including function literals anywhere in s).
func (il *inliner) nested(s ast.Stmt) {
	switch s := s.(type) {
	case *ast.BlockStmt:
		s.List = il.list(s.List)
		return
	case *ast.IfStmt:
		s.Body.List = il.list(s.Body.List)
		switch e := s.Else.(type) {
		case *ast.BlockStmt:
			e.List = il.list(e.List)
		case *ast.IfStmt:
			// `else if` cannot take statements in front of it: make it `else { if ... }`
			blk := &ast.BlockStmt{List: []ast.Stmt{e}}
			blk.List = il.list(blk.List)
			if len(blk.List) == 1 {
				s.Else = blk.List[0]
			} else {
				s.Else = blk
			}
		}
		il.lits(s.Init)
		il.litsExpr(s.Cond)
		return
	case *ast.ForStmt:
		s.Body.List = il.list(s.Body.List)
	case *ast.RangeStmt:
		s.Body.List = il.list(s.Body.List)
	case *ast.SwitchStmt:
		for _, c := range s.Body.List {
			cc := c.(*ast.CaseClause)
			cc.Body = il.list(cc.Body)
		}
	case *ast.TypeSwitchStmt:
		for _, c := range s.Body.List {
			cc := c.(*ast.CaseClause)
			cc.Body = il.list(cc.Body)
		}
	case *ast.SelectStmt:
		for _, c := range s.Body.List {
			cc := c.(*ast.CommClause)
			cc.Body = il.list(cc.Body)
		}
	case *ast.LabeledStmt:
		il.nested(s.Stmt)
		return
	}
	il.lits(s)
}

// lits processes the bodies of function literals that occur in the expressions of s (not in nested lists,
// which list() reaches by itself).
func (il *inliner) lits(s ast.Stmt) {
	if s == nil {
		return
	}
	ast.Inspect(s, func(x ast.Node) bool {
		switch x := x.(type) {
		case *ast.BlockStmt:
			return x == ast.Node(s)
		case *ast.FuncLit:
			x.Body.List = il.list(x.Body.List)
			return false
		}
		return true
	})
}

func (il *inliner) litsExpr(e ast.Expr) {
	if e == nil {
		return
	}
	ast.Inspect(e, func(x ast.Node) bool {
		if fl, ok := x.(*ast.FuncLit); ok {
			fl.Body.List = il.list(fl.Body.List)
			return false
		}
		return true
	})
}

// helperCall: is c a direct call of a helper?
func (il *inliner) helperCall(c *ast.CallExpr) (*types.Func, *ast.FuncDecl, ast.Expr) {
	switch fun := c.Fun.(type) {
	case *ast.Ident:
		if fo, ok := il.pkg.TypesInfo.Uses[fun].(*types.Func); ok {
			if fd, ok := il.helpers[fo]; ok {
				return fo, fd, nil
			}
		}
	case *ast.SelectorExpr:
		if fo, ok := il.pkg.TypesInfo.Uses[fun.Sel].(*types.Func); ok {
			if fd, ok := il.helpers[fo]; ok {
				if sel := il.pkg.TypesInfo.Selections[fun]; sel != nil && sel.Kind() == types.MethodVal && len(sel.Index()) == 1 {
					return fo, fd, fun.X
				}
			}
		}
	}
	return nil, nil, nil
}

// simple: evaluating e has no side effect and cannot observe one (no calls, receives, or function literals).
func (il *inliner) simple(e ast.Expr) bool {
	ok := true
	ast.Inspect(e, func(x ast.Node) bool {
		switch x := x.(type) {
		case *ast.CallExpr:
			if tv, has := il.pkg.TypesInfo.Types[x.Fun]; has && tv.IsType() {
				return true // conversion
			}
			if id, isId := x.Fun.(*ast.Ident); isId && (id.Name == "len" || id.Name == "cap") {
				if _, isB := il.pkg.TypesInfo.Uses[id].(*types.Builtin); isB {
					return true
				}
			}
			ok = false
		case *ast.UnaryExpr:
			if x.Op == token.ARROW {
				ok = false
			}
		case *ast.FuncLit:
			ok = false
		}
		return ok
	})
	return ok
}

// find returns the first helper call inside e that may be hoisted in front of the statement: everything
// evaluated before it in the statement is simple and it is not evaluated conditionally.
func (il *inliner) find(e ast.Expr, safe *bool) *ast.CallExpr {
	if e == nil || !*safe {
		return nil
	}
	switch x := e.(type) {
	case *ast.ParenExpr:
		return il.find(x.X, safe)
	case *ast.UnaryExpr:
		if x.Op == token.ARROW {
			c := il.find(x.X, safe)
			*safe = false
			return c
		}
		return il.find(x.X, safe)
	case *ast.StarExpr:
		return il.find(x.X, safe)
	case *ast.SelectorExpr:
		return il.find(x.X, safe)
	case *ast.BinaryExpr:
		if c := il.find(x.X, safe); c != nil {
			return c
		}
		if x.Op == token.LAND || x.Op == token.LOR {
			*safe = false
			return nil
		}
		return il.find(x.Y, safe)
	case *ast.IndexExpr:
		if c := il.find(x.X, safe); c != nil {
			return c
		}
		return il.find(x.Index, safe)
	case *ast.SliceExpr:
		for _, y := range []ast.Expr{x.X, x.Low, x.High, x.Max} {
			if c := il.find(y, safe); c != nil {
				return c
			}
		}
		return nil
	case *ast.TypeAssertExpr:
		return il.find(x.X, safe)
	case *ast.KeyValueExpr:
		if c := il.find(x.Key, safe); c != nil {
			return c
		}
		return il.find(x.Value, safe)
	case *ast.CompositeLit:
		for _, el := range x.Elts {
			if c := il.find(el, safe); c != nil {
				return c
			}
		}
		return nil
	case *ast.CallExpr:
		fo, _, _ := il.helperCall(x)
		if fo == nil && il.std {
			if sf := il.stdLoopCall(x); sf != nil {
				fo = sf
			}
		}
		if se, ok := x.Fun.(*ast.SelectorExpr); ok {
			if c := il.find(se.X, safe); c != nil {
				return c
			}
		} else if _, ok := x.Fun.(*ast.Ident); !ok {
			if c := il.find(x.Fun, safe); c != nil {
				return c
			}
		}
		if !*safe {
			return nil
		}
		for _, a := range x.Args {
			if c := il.find(a, safe); c != nil {
				return c
			}
			if !*safe {
				break
			}
		}
		if fo != nil {
			// the whole call, with the evaluation of its receiver and arguments, moves in front of the
			// statement; everything evaluated before it in the statement was simple
			*safe = true
			return x
		}
		if !*safe {
			return nil
		}
		if tv, has := il.pkg.TypesInfo.Types[x.Fun]; has && tv.IsType() {
			return nil // conversion: no side effect
		}
		if id, isId := x.Fun.(*ast.Ident); isId && (id.Name == "len" || id.Name == "cap") {
			return nil
		}
		*safe = false // some other call happens here: nothing after it may be hoisted in front of it
		return nil
	case *ast.FuncLit:
		return nil
	}
	return nil
}

// replaceExpr replaces the node old by the expression(s) repl inside the expression tree rooted at *root.
func replaceExpr(root *ast.Expr, old ast.Expr, repl ast.Expr) bool {
	if *root == old {
		*root = repl
		return true
	}
	done := false
	var visit func(e *ast.Expr)
	visit = func(e *ast.Expr) {
		if done || *e == nil {
			return
		}
		if *e == old {
			*e = repl
			done = true
			return
		}
		switch x := (*e).(type) {
		case *ast.ParenExpr:
			visit(&x.X)
		case *ast.UnaryExpr:
			visit(&x.X)
		case *ast.StarExpr:
			visit(&x.X)
		case *ast.SelectorExpr:
			visit(&x.X)
		case *ast.BinaryExpr:
			visit(&x.X)
			visit(&x.Y)
		case *ast.IndexExpr:
			visit(&x.X)
			visit(&x.Index)
		case *ast.SliceExpr:
			visit(&x.X)
			visit(&x.Low)
			visit(&x.High)
			visit(&x.Max)
		case *ast.TypeAssertExpr:
			visit(&x.X)
		case *ast.KeyValueExpr:
			visit(&x.Key)
			visit(&x.Value)
		case *ast.CompositeLit:
			for i := range x.Elts {
				visit(&x.Elts[i])
			}
		case *ast.CallExpr:
			visit(&x.Fun)
			for i := range x.Args {
				visit(&x.Args[i])
			}
		}
	}
	visit(root)
	return done
}

func ident(name string) *ast.Ident { return &ast.Ident{Name: name} }

// stmt expands the hoistable helper calls of one statement. It returns the statements to put in front and
// the (possibly rewritten) statement, or nil if the statement disappears.
func (il *inliner) stmt(s ast.Stmt) (pre []ast.Stmt, repl ast.Stmt) {
	repl = s
	for iter := 0; iter < 8; iter++ {
		// the expressions of s that are evaluated once, first, and unconditionally when s is reached
		var slots []*ast.Expr
		var multi *[]ast.Expr // a slot list where a multi-value call may stand alone
		switch x := repl.(type) {
		case *ast.ExprStmt:
			slots = []*ast.Expr{&x.X}
		case *ast.AssignStmt:
			for i := range x.Rhs {
				slots = append(slots, &x.Rhs[i])
			}
			if len(x.Rhs) == 1 {
				multi = &x.Rhs
			}
		case *ast.ReturnStmt:
			for i := range x.Results {
				slots = append(slots, &x.Results[i])
			}
			if len(x.Results) == 1 {
				multi = &x.Results
			}
		case *ast.DeclStmt:
			if gd, ok := x.Decl.(*ast.GenDecl); ok && gd.Tok == token.VAR && len(gd.Specs) == 1 {
				vs := gd.Specs[0].(*ast.ValueSpec)
				for i := range vs.Values {
					slots = append(slots, &vs.Values[i])
				}
				if len(vs.Values) == 1 {
					multi = &vs.Values
				}
			}
		case *ast.IfStmt:
			if x.Init != nil {
				switch in := x.Init.(type) {
				case *ast.AssignStmt:
					for i := range in.Rhs {
						slots = append(slots, &in.Rhs[i])
					}
					if len(in.Rhs) == 1 {
						multi = &in.Rhs
					}
				case *ast.ExprStmt:
					slots = append(slots, &in.X)
				}
				// the condition is evaluated after the init statement's assignment: not hoistable past it
			} else {
				slots = []*ast.Expr{&x.Cond}
			}
		case *ast.SwitchStmt:
			if x.Init == nil && x.Tag != nil {
				slots = []*ast.Expr{&x.Tag}
			} else if x.Init != nil {
				if in, ok := x.Init.(*ast.AssignStmt); ok {
					for i := range in.Rhs {
						slots = append(slots, &in.Rhs[i])
					}
					if len(in.Rhs) == 1 {
						multi = &in.Rhs
					}
				}
			}
		case *ast.RangeStmt:
			slots = []*ast.Expr{&x.X}
		case *ast.LabeledStmt:
			p, r := il.stmt(x.Stmt)
			if r == nil {
				r = &ast.EmptyStmt{}
			}
			x.Stmt = r
			return p, x
		default:
			return pre, repl
		}
		var call *ast.CallExpr
		var slot *ast.Expr
		safe := true
		for _, sl := range slots {
			if c := il.find(*sl, &safe); c != nil {
				call, slot = c, sl
				break
			}
			if !safe {
				break
			}
		}
		if call == nil {
			// a helper call under && / ||: `a && h(x)` becomes  c := a; if c { c = h(x) }  (and dually for ||),
			// which evaluates exactly what the original evaluates, in the same order; the assignment is then
			// expanded like any other statement
			if len(slots) == 1 && il.firstEvaluated(repl, slots[0]) {
				if p2, ok := il.shortCircuit(slots[0]); ok {
					pre = append(pre, p2...)
					il.changed = true
					continue
				}
			}
			return pre, repl
		}
		if sf := il.stdLoopCall(call); sf != nil && il.std {
			exp, res, ok := il.expandContains(call)
			if !ok {
				return pre, repl
			}
			pre = append(pre, exp...)
			il.changed = true
			if il.n.stdExpanded == nil {
				il.n.stdExpanded = map[*ast.File]bool{}
			}
			il.n.stdExpanded[il.file] = true
			il.n.rep.Inlined = append(il.n.rep.Inlined, fmt.Sprintf("slices.Contains (as the loop it stands for) in %s", il.declName()))
			if !replaceExpr(slot, call, ident(res)) {
				return pre, repl
			}
			continue
		}
		fo, fd, recv := il.helperCall(call)
		sig := fo.Type().(*types.Signature)
		nres := sig.Results().Len()
		standalone := *slot == ast.Expr(call)
		if nres != 1 && !(standalone && (multi != nil || nres == 0)) {
			if _, isExpr := repl.(*ast.ExprStmt); !(isExpr && standalone) {
				il.n.rep.Skipped = append(il.n.rep.Skipped, short(fo.FullName())+": multi-value call in an unsupported position")
				return pre, repl
			}
		}
		exp, results, ok := il.expand(call, fo, fd, recv)
		if !ok {
			return pre, repl
		}
		pre = append(pre, exp...)
		il.changed = true
		il.n.rep.Inlined = append(il.n.rep.Inlined, fmt.Sprintf("%s into %s", short(fo.FullName()), il.declName()))
		// put the results where the call stood
		if es, isExpr := repl.(*ast.ExprStmt); isExpr && es.X == ast.Expr(call) {
			if len(results) > 0 {
				var l, r []ast.Expr
				for _, rn := range results {
					l = append(l, ident("_"))
					r = append(r, ident(rn))
				}
				pre = append(pre, &ast.AssignStmt{Lhs: l, Tok: token.ASSIGN, Rhs: r})
			}
			return pre, nil
		}
		if standalone && multi != nil && nres != 1 {
			var rs []ast.Expr
			for _, r := range results {
				rs = append(rs, ident(r))
			}
			*multi = rs
			continue
		}
		if !replaceExpr(slot, call, ident(results[0])) {
			il.n.rep.Failed = "internal: call not found for replacement"
			return pre, repl
		}
	}
	return pre, repl
}

// firstEvaluated: is *slot the first thing the statement evaluates (so that statements may be put in front)?
func (il *inliner) firstEvaluated(s ast.Stmt, slot *ast.Expr) bool {
	switch x := s.(type) {
	case *ast.IfStmt:
		return x.Init == nil && slot == &x.Cond
	case *ast.ReturnStmt:
		return len(x.Results) == 1
	case *ast.AssignStmt:
		if len(x.Rhs) != 1 {
			return false
		}
		for _, l := range x.Lhs {
			if !il.simple(l) {
				return false
			}
		}
		return true
	case *ast.ExprStmt:
		return true
	}
	return false
}

func (il *inliner) containsHelper(e ast.Expr) bool {
	found := false
	ast.Inspect(e, func(x ast.Node) bool {
		if _, ok := x.(*ast.FuncLit); ok {
			return false
		}
		if c, ok := x.(*ast.CallExpr); ok {
			if fo, _, _ := il.helperCall(c); fo != nil {
				found = true
			}
		}
		return !found
	})
	return found
}

// shortCircuit rewrites *slot when it is (a possibly negated, parenthesised) `X && Y` or `X || Y` whose right
// operand calls a helper: the value is computed into a fresh variable by statements placed in front.
func (il *inliner) shortCircuit(slot *ast.Expr) ([]ast.Stmt, bool) {
	// locate the outermost && / || on the spine of !, ( )
	holder := slot
	for {
		switch x := (*holder).(type) {
		case *ast.ParenExpr:
			holder = &x.X
			continue
		case *ast.UnaryExpr:
			if x.Op == token.NOT {
				holder = &x.X
				continue
			}
		}
		break
	}
	be, ok := (*holder).(*ast.BinaryExpr)
	if !ok || (be.Op != token.LAND && be.Op != token.LOR) || !il.containsHelper(be.Y) {
		return nil, false
	}
	il.n.counter++
	cv := fmt.Sprintf("_inl%d_c", il.n.counter)
	var out []ast.Stmt
	// c := X   (X is evaluated first in the original as well; helper calls inside X are expanded by stmt)
	first := ast.Stmt(&ast.AssignStmt{Lhs: []ast.Expr{ident(cv)}, Tok: token.DEFINE, Rhs: []ast.Expr{be.X}})
	p1, r1 := il.stmt(first)
	out = append(out, p1...)
	if r1 != nil {
		out = append(out, r1)
	}
	// if c { c = Y }   /   if !c { c = Y }
	inner := ast.Stmt(&ast.AssignStmt{Lhs: []ast.Expr{ident(cv)}, Tok: token.ASSIGN, Rhs: []ast.Expr{be.Y}})
	p2, r2 := il.stmt(inner)
	body := append([]ast.Stmt{}, p2...)
	if r2 != nil {
		body = append(body, r2)
	}
	var cond ast.Expr = ident(cv)
	if be.Op == token.LOR {
		cond = &ast.UnaryExpr{Op: token.NOT, X: ident(cv)}
	}
	out = append(out, &ast.IfStmt{Cond: cond, Body: &ast.BlockStmt{List: body}})
	*holder = ident(cv)
	return out, true
}

// stdLoopCall: is c a call of a library helper that stands for a loop (slices.Contains)?
func (il *inliner) stdLoopCall(c *ast.CallExpr) *types.Func {
	se, ok := c.Fun.(*ast.SelectorExpr)
	if !ok {
		return nil
	}
	fo, ok := il.pkg.TypesInfo.Uses[se.Sel].(*types.Func)
	if !ok || fo.Pkg() == nil || fo.Pkg().Path() != "slices" || fo.Name() != "Contains" || len(c.Args) != 2 {
		return nil
	}
	return fo
}

// expandContains writes slices.Contains(xs, v) as the loop it stands for:
//
//	var a0 = xs; var a1 = v; var r bool
//	{ L: for _, e := range a0 { if e == a1 { r = true; break L } } }
func (il *inliner) expandContains(call *ast.CallExpr) ([]ast.Stmt, string, bool) {
	info := il.pkg.TypesInfo
	t0, t1 := info.TypeOf(call.Args[0]), info.TypeOf(call.Args[1])
	if t0 == nil || t1 == nil {
		return nil, "", false
	}
	// the element type, for an untyped constant operand
	if sl, ok := t0.Underlying().(*types.Slice); ok {
		if b, isB := t1.(*types.Basic); isB && b.Info()&types.IsUntyped != 0 {
			t1 = sl.Elem()
		}
	}
	e0, e1 := il.typeExpr(t0), il.typeExpr(t1)
	if e0 == nil || e1 == nil {
		return nil, "", false
	}
	il.n.counter++
	tag := fmt.Sprintf("_inl%d", il.n.counter)
	mk := func(name string, t ast.Expr, val ast.Expr) ast.Stmt {
		vs := &ast.ValueSpec{Names: []*ast.Ident{ident(name)}, Type: t}
		if val != nil {
			vs.Values = []ast.Expr{val}
		}
		return &ast.DeclStmt{Decl: &ast.GenDecl{Tok: token.VAR, Specs: []ast.Spec{vs}}}
	}
	res := tag + "_r0"
	loop := &ast.RangeStmt{Key: ident("_"), Value: ident(tag + "_e"), Tok: token.DEFINE, X: ident(tag + "_a0"),
		Body: &ast.BlockStmt{List: []ast.Stmt{&ast.IfStmt{
			Cond: &ast.BinaryExpr{X: ident(tag + "_e"), Op: token.EQL, Y: ident(tag + "_a1")},
			Body: &ast.BlockStmt{List: []ast.Stmt{
				&ast.AssignStmt{Lhs: []ast.Expr{ident(res)}, Tok: token.ASSIGN, Rhs: []ast.Expr{ident("true")}},
				&ast.BranchStmt{Tok: token.BREAK, Label: ident(tag)},
			}},
		}}}}
	out := []ast.Stmt{
		mk(tag+"_a0", e0, call.Args[0]),
		mk(tag+"_a1", e1, call.Args[1]),
		mk(res, ident("bool"), nil),
		&ast.BlockStmt{List: []ast.Stmt{&ast.LabeledStmt{Label: ident(tag), Stmt: loop}}},
	}
	return out, res, true
}

func (il *inliner) declName() string {
	if il.decl.Recv != nil {
		return "(" + recvString(il.decl) + ")." + il.decl.Name.Name
	}
	return il.decl.Name.Name
}

// qualifier for printing types inside il.file; records imports that have to be added.
func (il *inliner) qual(p *types.Package) string {
	if p == il.pkg.Types {
		return ""
	}
	for _, im := range il.file.Imports {
		path := strings.Trim(im.Path.Value, `"`)
		if path == p.Path() {
			if im.Name != nil {
				if im.Name.Name == "." || im.Name.Name == "_" {
					break
				}
				return im.Name.Name
			}
			return p.Name()
		}
	}
	m := il.n.addImports[il.file]
	if m == nil {
		m = map[string]string{}
		il.n.addImports[il.file] = m
	}
	if nm, ok := m[p.Path()]; ok {
		return nm
	}
	nm := "_inlpkg_" + p.Name()
	m[p.Path()] = nm
	return nm
}

func (il *inliner) typeExpr(t types.Type) ast.Expr {
	s := types.TypeString(t, il.qual)
	e, err := parser.ParseExpr(s)
	if err != nil {
		return nil
	}
	return e
}

// expand builds the statements that stand for one call of helper fd.
func (il *inliner) expand(call *ast.CallExpr, fo *types.Func, fd *ast.FuncDecl, recv ast.Expr) ([]ast.Stmt, []string, bool) {
	skip := func(why string) ([]ast.Stmt, []string, bool) {
		il.n.rep.Skipped = append(il.n.rep.Skipped, short(fo.FullName())+" in "+il.declName()+": "+why)
		return nil, nil, false
	}
	sig := fo.Type().(*types.Signature)
	if len(call.Args) != sig.Params().Len() {
		return skip("argument count differs from parameter count (multi-value argument)")
	}
	if call.Ellipsis.IsValid() {
		return skip("variadic call")
	}
	// free names of the helper body must mean the same thing at the call site
	info := il.pkg.TypesInfo
	scope := il.pkg.Types.Scope().Innermost(call.Pos())
	if scope == nil {
		return skip("no scope information at the call site")
	}
	bad := ""
	ast.Inspect(fd.Body, func(x ast.Node) bool {
		id, ok := x.(*ast.Ident)
		if !ok || bad != "" {
			return bad == ""
		}
		obj := info.Uses[id]
		if obj == nil {
			return true
		}
		switch o := obj.(type) {
		case *types.PkgName:
			_, found := scope.LookupParent(id.Name, call.Pos())
			if pn, ok := found.(*types.PkgName); ok && pn.Imported() == o.Imported() {
				return true
			}
			if found == nil {
				m := il.n.addImports[il.file]
				if m == nil {
					m = map[string]string{}
					il.n.addImports[il.file] = m
				}
				if prev, has := m[o.Imported().Path()]; has && prev != id.Name {
					bad = "import " + id.Name + " needed under two names"
				}
				m[o.Imported().Path()] = id.Name
				return true
			}
			bad = "name " + id.Name + " means something else at the call site"
		default:
			if obj.Parent() == il.pkg.Types.Scope() || obj.Parent() == types.Universe {
				_, found := scope.LookupParent(id.Name, call.Pos())
				if found != obj {
					bad = "name " + id.Name + " is shadowed at the call site"
				}
			}
		}
		return true
	})
	if bad != "" {
		return skip(bad)
	}
	il.n.counter++
	tag := fmt.Sprintf("_inl%d", il.n.counter)
	var out []ast.Stmt
	varDecl := func(name string, t ast.Expr, val ast.Expr) ast.Stmt {
		vs := &ast.ValueSpec{Names: []*ast.Ident{ident(name)}, Type: t}
		if val != nil {
			vs.Values = []ast.Expr{val}
		}
		return &ast.DeclStmt{Decl: &ast.GenDecl{Tok: token.VAR, Specs: []ast.Spec{vs}}}
	}
	useAll := func(names []string) ast.Stmt {
		var l, r []ast.Expr
		for _, nm := range names {
			l = append(l, ident("_"))
			r = append(r, ident(nm))
		}
		return &ast.AssignStmt{Lhs: l, Tok: token.ASSIGN, Rhs: r}
	}
	// arguments (receiver first), evaluated once, in order, in the caller's scope
	var bindL, bindR []ast.Expr
	var bound []string
	if recv != nil && fd.Recv != nil && len(fd.Recv.List) == 1 {
		rt := sig.Recv().Type()
		at := info.TypeOf(recv)
		var val ast.Expr = recv
		if at != nil {
			_, wantPtr := rt.(*types.Pointer)
			_, havePtr := at.Underlying().(*types.Pointer)
			if wantPtr && !havePtr {
				val = &ast.UnaryExpr{Op: token.AND, X: recv}
			} else if !wantPtr && havePtr {
				val = &ast.StarExpr{X: recv}
			}
		}
		te := il.typeExpr(rt)
		if te == nil {
			return skip("cannot print the receiver type")
		}
		out = append(out, varDecl(tag+"_recv", te, val))
		bound = append(bound, tag+"_recv")
		if len(fd.Recv.List[0].Names) == 1 && fd.Recv.List[0].Names[0].Name != "_" {
			bindL = append(bindL, ident(fd.Recv.List[0].Names[0].Name))
			bindR = append(bindR, ident(tag+"_recv"))
		}
	}
	pi := 0
	if fd.Type.Params != nil {
		for _, fl := range fd.Type.Params.List {
			names := fl.Names
			if len(names) == 0 {
				names = []*ast.Ident{ident("_")}
			}
			for _, nm := range names {
				te := il.typeExpr(sig.Params().At(pi).Type())
				if te == nil {
					return skip("cannot print a parameter type")
				}
				an := fmt.Sprintf("%s_a%d", tag, pi)
				out = append(out, varDecl(an, te, call.Args[pi]))
				bound = append(bound, an)
				if nm.Name != "_" {
					bindL = append(bindL, ident(nm.Name))
					bindR = append(bindR, ident(an))
				}
				pi++
			}
		}
	}
	// results
	var results []string
	for i := 0; i < sig.Results().Len(); i++ {
		te := il.typeExpr(sig.Results().At(i).Type())
		if te == nil {
			return skip("cannot print a result type")
		}
		rn := fmt.Sprintf("%s_r%d", tag, i)
		out = append(out, varDecl(rn, te, nil))
		results = append(results, rn)
	}
	if len(bound) > 0 {
		out = append(out, useAll(bound))
	}
	// the body: a private copy, parsed back from its printed form
	var buf bytes.Buffer
	buf.WriteString("package p\nfunc _() ")
	if err := printer.Fprint(&buf, token.NewFileSet(), fd.Body); err != nil {
		return skip("cannot print the helper body")
	}
	cf, err := parser.ParseFile(token.NewFileSet(), "", buf.Bytes(), parser.SkipObjectResolution)
	if err != nil {
		return skip("cannot re-parse the helper body: " + err.Error())
	}
	body := cf.Decls[0].(*ast.FuncDecl).Body
	clearPos(body)
	// named results become locals of the block
	var inner []ast.Stmt
	var namedRes []string
	if fd.Type.Results != nil {
		ri := 0
		for _, fl := range fd.Type.Results.List {
			if len(fl.Names) == 0 {
				ri++
				continue
			}
			for _, nm := range fl.Names {
				te := il.typeExpr(sig.Results().At(ri).Type())
				name := nm.Name
				if name == "_" {
					name = fmt.Sprintf("%s_nr%d", tag, ri)
				}
				inner = append(inner, varDecl(name, te, nil))
				namedRes = append(namedRes, name)
				ri++
			}
		}
	}
	if len(bindL) > 0 {
		inner = append([]ast.Stmt{&ast.AssignStmt{Lhs: bindL, Tok: token.DEFINE, Rhs: bindR}}, inner...)
		var ns []string
		for _, l := range bindL {
			ns = append(ns, l.(*ast.Ident).Name)
		}
		inner = append(inner, useAll(ns))
	}
	if len(namedRes) > 0 {
		inner = append(inner, useAll(namedRes))
	}
	label := tag
	rewriteReturns(body, label, results, namedRes)
	renameLabels(body, tag)
	loopBody := &ast.BlockStmt{List: append(body.List, &ast.BranchStmt{Tok: token.BREAK, Label: ident(label)})}
	inner = append(inner, &ast.LabeledStmt{Label: ident(label), Stmt: &ast.ForStmt{Body: loopBody}})
	out = append(out, &ast.BlockStmt{List: inner})
	return out, results, true
}

// rewriteReturns turns every return of the helper body (not those of nested function literals) into an
// assignment to the result temporaries followed by leaving the body.
func rewriteReturns(body *ast.BlockStmt, label string, results, named []string) {
	mk := func(r *ast.ReturnStmt) ast.Stmt {
		brk := &ast.BranchStmt{Tok: token.BREAK, Label: ident(label)}
		if len(results) == 0 {
			return brk
		}
		var lhs []ast.Expr
		for _, rn := range results {
			lhs = append(lhs, ident(rn))
		}
		rhs := r.Results
		if len(rhs) == 0 {
			for _, nn := range named {
				rhs = append(rhs, ident(nn))
			}
		}
		return &ast.BlockStmt{List: []ast.Stmt{&ast.AssignStmt{Lhs: lhs, Tok: token.ASSIGN, Rhs: rhs}, brk}}
	}
	var fixList func(l []ast.Stmt)
	var fix func(s ast.Stmt) ast.Stmt
	fix = func(s ast.Stmt) ast.Stmt {
		switch x := s.(type) {
		case *ast.ReturnStmt:
			return mk(x)
		case *ast.BlockStmt:
			fixList(x.List)
		case *ast.IfStmt:
			fixList(x.Body.List)
			if x.Else != nil {
				x.Else = fix(x.Else)
			}
		case *ast.ForStmt:
			fixList(x.Body.List)
		case *ast.RangeStmt:
			fixList(x.Body.List)
		case *ast.SwitchStmt:
			for _, c := range x.Body.List {
				fixList(c.(*ast.CaseClause).Body)
			}
		case *ast.TypeSwitchStmt:
			for _, c := range x.Body.List {
				fixList(c.(*ast.CaseClause).Body)
			}
		case *ast.SelectStmt:
			for _, c := range x.Body.List {
				fixList(c.(*ast.CommClause).Body)
			}
		case *ast.LabeledStmt:
			x.Stmt = fix(x.Stmt)
		}
		return s
	}
	fixList = func(l []ast.Stmt) {
		for i := range l {
			l[i] = fix(l[i])
		}
	}
	fixList(body.List)
}

// renameLabels makes the labels of a copied body unique (the same helper may be expanded twice in one function).
func renameLabels(body *ast.BlockStmt, tag string) {
	own := map[string]bool{}
	ast.Inspect(body, func(x ast.Node) bool {
		if _, ok := x.(*ast.FuncLit); ok {
			return false
		}
		if l, ok := x.(*ast.LabeledStmt); ok {
			own[l.Label.Name] = true
		}
		return true
	})
	if len(own) == 0 {
		return
	}
	ast.Inspect(body, func(x ast.Node) bool {
		switch x := x.(type) {
		case *ast.FuncLit:
			return false
		case *ast.LabeledStmt:
			if own[x.Label.Name] {
				x.Label = ident(x.Label.Name + tag)
			}
		case *ast.BranchStmt:
			if x.Label != nil && own[x.Label.Name] {
				x.Label = ident(x.Label.Name + tag)
			}
		}
		return true
	})
}

// clearPos is a no-op placeholder: nodes re-parsed from a private file set carry positions that mean nothing
// in the target file; the renderer prints modified declarations with an empty file set, which ignores them.
func clearPos(ast.Node) {}

// ---------------------------------------------------------------------------------------------------------
// rendering: unmodified declarations are copied byte for byte (so their line numbers stay true), modified
// ones are printed from the syntax tree; a //line directive after each printed declaration re-synchronises
// the positions of what follows with the file on disk.

func (n *normaliser) render(f *ast.File, name string, src []byte) ([]byte, error) {
	fset := n.p.Fset
	tf := fset.File(f.Pos())
	if tf == nil {
		return nil, fmt.Errorf("no position information for %s", name)
	}
	off := func(p token.Pos) int { return tf.Offset(p) }
	start := func(d ast.Decl) token.Pos {
		switch d := d.(type) {
		case *ast.FuncDecl:
			if d.Doc != nil {
				return d.Doc.Pos()
			}
		case *ast.GenDecl:
			if d.Doc != nil {
				return d.Doc.Pos()
			}
		}
		return d.Pos()
	}
	var out bytes.Buffer
	cur := 0
	needSync := false
	addImp := n.addImports[f]
	impDone := len(addImp) == 0
	emitImports := func() {
		var paths []string
		for p := range addImp {
			paths = append(paths, p)
		}
		sort.Strings(paths)
		for _, p := range paths {
			fmt.Fprintf(&out, "import %s %q\n", addImp[p], p)
		}
		impDone = true
		needSync = true
	}
	for _, d := range f.Decls {
		s, e := off(start(d)), off(d.End())
		if gd, ok := d.(*ast.GenDecl); !impDone && !(ok && gd.Tok == token.IMPORT) {
			// first non-import declaration: the extra imports go right before it
			out.Write(src[cur:s])
			cur = s
			emitImports()
		}
		out.Write(src[cur:s])
		if needSync {
			if out.Len() > 0 && out.Bytes()[out.Len()-1] != '\n' {
				out.WriteByte('\n')
			}
			fmt.Fprintf(&out, "//line %s:%d\n", name, tf.Line(start(d)))
			needSync = false
		}
		if n.removed[d] {
			needSync = true
		} else if n.modified[d] {
			switch x := d.(type) {
			case *ast.FuncDecl:
				x.Doc = nil
			case *ast.GenDecl:
				x.Doc = nil
			}
			var b bytes.Buffer
			if err := printer.Fprint(&b, token.NewFileSet(), d); err != nil {
				return nil, err
			}
			out.Write(b.Bytes())
			out.WriteByte('\n')
			needSync = true
		} else {
			out.Write(src[s:e])
		}
		cur = e
	}
	if !impDone {
		out.Write(src[cur:])
		cur = len(src)
		out.WriteByte('\n')
		emitImports()
	}
	out.Write(src[cur:])
	// an import whose only uses were expanded away must stay used
	if n.stdExpanded[f] {
		out.WriteString("\nvar _ = slices.Contains[[]string, string]\n")
	}
	return out.Bytes(), nil
}

// methodise turns `func f(recv T, ps...) rs` back into `func (recv T) name(ps...) rs` and every direct call
// f(x, a...) into x.name(a...). It refuses (and changes nothing) when f is used other than in direct calls.
func (n *normaliser) methodise(obj *types.Func, fd *ast.FuncDecl, di declInfo, name string) bool {
	pkg := di.pkg
	// all uses must be direct calls within the package
	type site struct {
		call *ast.CallExpr
		decl ast.Decl
	}
	var sites []site
	okAll := true
	for _, f := range pkg.Syntax {
		for _, d := range f.Decls {
			calls := map[*ast.Ident]*ast.CallExpr{}
			ast.Inspect(d, func(x ast.Node) bool {
				if c, ok := x.(*ast.CallExpr); ok {
					if id, ok := c.Fun.(*ast.Ident); ok {
						calls[id] = c
					}
				}
				return true
			})
			ast.Inspect(d, func(x ast.Node) bool {
				if id, ok := x.(*ast.Ident); ok && pkg.TypesInfo.Uses[id] == types.Object(obj) {
					c := calls[id]
					if c == nil || len(c.Args) == 0 || c.Ellipsis.IsValid() && len(c.Args) == 1 {
						okAll = false
					} else {
						sites = append(sites, site{c, d})
					}
				}
				return true
			})
		}
	}
	for _, p2 := range n.p.Pkgs {
		if p2 == pkg || !productPkg(p2.PkgPath) {
			continue
		}
		for _, o := range p2.TypesInfo.Uses {
			if o == types.Object(obj) {
				okAll = false
			}
		}
	}
	if !okAll {
		return false
	}
	first := fd.Type.Params.List[0]
	fd.Recv = &ast.FieldList{List: []*ast.Field{{Names: first.Names, Type: first.Type}}}
	fd.Type.Params.List = fd.Type.Params.List[1:]
	fd.Name = ident(name)
	n.modified[di.decl] = true
	for _, s := range sites {
		recv := s.call.Args[0]
		switch recv.(type) {
		case *ast.Ident, *ast.SelectorExpr, *ast.CallExpr, *ast.IndexExpr, *ast.ParenExpr:
		default:
			recv = &ast.ParenExpr{X: recv}
		}
		s.call.Fun = &ast.SelectorExpr{X: recv, Sel: ident(name)}
		s.call.Args = s.call.Args[1:]
		n.modified[s.decl] = true
	}
	return true
}

// unpackResultStruct undoes "return a small struct instead of several values" for fn (see run). It reports
// whether it rewrote the declaration and all call sites.
func (n *normaliser) unpackResultStruct(obj *types.Func, fd *ast.FuncDecl, di declInfo, invSig string) bool {
	pkg := di.pkg
	sig := obj.Type().(*types.Signature)
	res := sig.Results()
	pos := -1
	var st *types.Struct
	var named *types.Named
	for i := 0; i < res.Len(); i++ {
		nt, ok := res.At(i).Type().(*types.Named)
		if !ok {
			continue
		}
		s, ok := nt.Underlying().(*types.Struct)
		if !ok || nt.Obj().Exported() || nt.Obj().Pkg() != pkg.Types {
			continue
		}
		if _, knownT := n.inv.Vars[relPkg(pkg.PkgPath)+"|"+nt.Obj().Name()]; knownT {
			continue
		}
		if pos >= 0 {
			return false
		}
		pos, st, named = i, s, nt
	}
	if pos < 0 || st.NumFields() == 0 || st.NumFields() > 6 {
		return false
	}
	anon := func(t *types.Tuple) []*types.Var {
		var vs []*types.Var
		for i := 0; i < t.Len(); i++ {
			vs = append(vs, types.NewVar(token.NoPos, nil, "", t.At(i).Type()))
		}
		return vs
	}
	var flat []*types.Var
	for i := 0; i < res.Len(); i++ {
		if i == pos {
			for j := 0; j < st.NumFields(); j++ {
				flat = append(flat, types.NewVar(token.NoPos, nil, "", st.Field(j).Type()))
			}
		} else {
			flat = append(flat, types.NewVar(token.NoPos, nil, "", res.At(i).Type()))
		}
	}
	flatSig := types.NewSignatureType(nil, nil, nil, types.NewTuple(anon(sig.Params())...), types.NewTuple(flat...), sig.Variadic())
	if types.TypeString(flatSig, fullQual) != invSig {
		return false
	}
	// the struct's declaration: field names and type expressions
	var fieldNames []string
	var fieldTypes []ast.Expr
	for _, file := range pkg.Syntax {
		for _, d := range file.Decls {
			gd, ok := d.(*ast.GenDecl)
			if !ok {
				continue
			}
			for _, sp := range gd.Specs {
				ts, ok := sp.(*ast.TypeSpec)
				if !ok || pkg.TypesInfo.Defs[ts.Name] != types.Object(named.Obj()) {
					continue
				}
				stx, ok := ts.Type.(*ast.StructType)
				if !ok {
					return false
				}
				for _, fl := range stx.Fields.List {
					if len(fl.Names) == 0 {
						return false
					}
					for _, nm := range fl.Names {
						fieldNames = append(fieldNames, nm.Name)
						fieldTypes = append(fieldTypes, fl.Type)
					}
				}
			}
		}
	}
	if len(fieldNames) != st.NumFields() {
		return false
	}
	// result list: unnamed results only
	var resFields []*ast.Field
	for _, fl := range fd.Type.Results.List {
		if len(fl.Names) > 0 {
			return false
		}
		resFields = append(resFields, fl)
	}
	if len(resFields) != res.Len() {
		return false
	}
	zero := func(t types.Type) ast.Expr {
		switch u := t.Underlying().(type) {
		case *types.Basic:
			switch {
			case u.Info()&types.IsBoolean != 0:
				return ident("false")
			case u.Info()&types.IsString != 0:
				return &ast.BasicLit{Kind: token.STRING, Value: `""`}
			case u.Info()&types.IsNumeric != 0:
				return &ast.BasicLit{Kind: token.INT, Value: "0"}
			}
		case *types.Pointer, *types.Slice, *types.Map, *types.Chan, *types.Signature, *types.Interface:
			return ident("nil")
		}
		return nil
	}
	// returns of the function itself (not of nested function literals)
	type retEdit struct {
		ret   *ast.ReturnStmt
		exprs []ast.Expr
	}
	var retEdits []retEdit
	okRet := true
	var walk func(x ast.Node) bool
	walk = func(x ast.Node) bool {
		switch y := x.(type) {
		case *ast.FuncLit:
			return false
		case *ast.ReturnStmt:
			if len(y.Results) != res.Len() {
				okRet = false
				return false
			}
			cl, ok := y.Results[pos].(*ast.CompositeLit)
			if !ok || !types.Identical(pkg.TypesInfo.TypeOf(cl), named) {
				okRet = false
				return false
			}
			vals := make([]ast.Expr, len(fieldNames))
			for i, e := range cl.Elts {
				if kv, ok := e.(*ast.KeyValueExpr); ok {
					k, ok := kv.Key.(*ast.Ident)
					if !ok {
						okRet = false
						return false
					}
					for j, fnm := range fieldNames {
						if fnm == k.Name {
							vals[j] = kv.Value
						}
					}
				} else if i < len(vals) {
					vals[i] = e
				}
			}
			for j := range vals {
				if vals[j] == nil {
					vals[j] = zero(st.Field(j).Type())
					if vals[j] == nil {
						okRet = false
						return false
					}
				}
			}
			var out []ast.Expr
			out = append(out, y.Results[:pos]...)
			out = append(out, vals...)
			out = append(out, y.Results[pos+1:]...)
			retEdits = append(retEdits, retEdit{y, out})
			return false
		}
		return true
	}
	ast.Inspect(fd.Body, walk)
	if !okRet || len(retEdits) == 0 {
		return false
	}
	// call sites
	type siteEdit struct {
		assign  *ast.AssignStmt
		decl    ast.Decl
		base    string
		resObj  types.Object
		sels    map[*ast.SelectorExpr]string
		used    map[string]bool
		varSpec *ast.ValueSpec
	}
	var sites []siteEdit
	for _, p2 := range n.p.Pkgs {
		if !productPkg(p2.PkgPath) {
			continue
		}
		for _, file := range p2.Syntax {
			for _, d := range file.Decls {
				var uses []*ast.Ident
				ast.Inspect(d, func(x ast.Node) bool {
					if id, ok := x.(*ast.Ident); ok && p2.TypesInfo.Uses[id] == types.Object(obj) {
						uses = append(uses, id)
					}
					return true
				})
				if len(uses) == 0 {
					continue
				}
				if p2 != pkg {
					return false
				}
				found := 0
				bad := false
				ast.Inspect(d, func(x ast.Node) bool {
					as, ok := x.(*ast.AssignStmt)
					if !ok || len(as.Rhs) != 1 {
						return true
					}
					call, ok := as.Rhs[0].(*ast.CallExpr)
					if !ok {
						return true
					}
					var fid *ast.Ident
					switch fun := call.Fun.(type) {
					case *ast.Ident:
						fid = fun
					case *ast.SelectorExpr:
						fid = fun.Sel
					}
					if fid == nil || pkg.TypesInfo.Uses[fid] != types.Object(obj) {
						return true
					}
					found++
					if len(as.Lhs) != res.Len() {
						bad = true
						return true
					}
					lid, ok := as.Lhs[pos].(*ast.Ident)
					if !ok {
						bad = true
						return true
					}
					se := siteEdit{assign: as, decl: d, base: lid.Name, sels: map[*ast.SelectorExpr]string{}, used: map[string]bool{}}
					if lid.Name != "_" {
						if as.Tok == token.DEFINE {
							se.resObj = pkg.TypesInfo.Defs[lid]
						} else {
							// `var res T` declared for this one assignment
							se.resObj = pkg.TypesInfo.Uses[lid]
							ast.Inspect(d, func(y ast.Node) bool {
								if vs, ok := y.(*ast.ValueSpec); ok && len(vs.Names) == 1 && len(vs.Values) == 0 && pkg.TypesInfo.Defs[vs.Names[0]] == se.resObj && se.resObj != nil {
									se.varSpec = vs
								}
								return true
							})
							if se.varSpec == nil {
								se.resObj = nil
							}
						}
						if se.resObj == nil {
							bad = true // re-used variable
							return true
						}
						nUses := 0
						ast.Inspect(d, func(y ast.Node) bool {
							if id, ok := y.(*ast.Ident); ok && pkg.TypesInfo.Uses[id] == se.resObj {
								nUses++
							}
							if sel, ok := y.(*ast.SelectorExpr); ok {
								if id, ok := sel.X.(*ast.Ident); ok && pkg.TypesInfo.Uses[id] == se.resObj {
									for _, fnm := range fieldNames {
										if fnm == sel.Sel.Name {
											se.sels[sel] = fnm
											se.used[fnm] = true
										}
									}
								}
							}
							return true
						})
						if as.Tok != token.DEFINE {
							nUses-- // the assignment's own left-hand side
						}
						if nUses != len(se.sels) {
							bad = true // the struct is used as a whole somewhere
						}
					}
					sites = append(sites, se)
					return true
				})
				if bad || found != len(uses) {
					return false
				}
			}
		}
	}
	// ---- apply ---------------------------------------------------------------------------------------------
	var newRes []*ast.Field
	for i, fl := range resFields {
		if i == pos {
			for _, t := range fieldTypes {
				newRes = append(newRes, &ast.Field{Type: t})
			}
		} else {
			newRes = append(newRes, fl)
		}
	}
	fd.Type.Results.List = newRes
	for _, re := range retEdits {
		re.ret.Results = re.exprs
	}
	n.modified[di.decl] = true
	for _, se := range sites {
		var lhs []ast.Expr
		lhs = append(lhs, se.assign.Lhs[:pos]...)
		for _, fnm := range fieldNames {
			if se.base == "_" || !se.used[fnm] {
				lhs = append(lhs, ident("_"))
			} else {
				lhs = append(lhs, ident(se.base+"_"+fnm))
			}
		}
		lhs = append(lhs, se.assign.Lhs[pos+1:]...)
		se.assign.Lhs = lhs
		if se.varSpec != nil {
			// var res T  ->  var res_a A (the first used field; the others are declared by further specs below)
			var names []*ast.Ident
			var typ ast.Expr
			firstDone := false
			var extra []ast.Spec
			for j, fnm := range fieldNames {
				if !se.used[fnm] {
					continue
				}
				if !firstDone {
					names, typ, firstDone = []*ast.Ident{ident(se.base + "_" + fnm)}, fieldTypes[j], true
					continue
				}
				extra = append(extra, &ast.ValueSpec{Names: []*ast.Ident{ident(se.base + "_" + fnm)}, Type: fieldTypes[j]})
			}
			if firstDone {
				se.varSpec.Names, se.varSpec.Type = names, typ
				ast.Inspect(se.decl, func(y ast.Node) bool {
					if gd, ok := y.(*ast.GenDecl); ok {
						for i, sp := range gd.Specs {
							if sp == ast.Spec(se.varSpec) && len(extra) > 0 {
								gd.Specs = append(append(append([]ast.Spec{}, gd.Specs[:i+1]...), extra...), gd.Specs[i+1:]...)
								if !gd.Lparen.IsValid() {
									gd.Lparen, gd.Rparen = 1, 1
								}
								return false
							}
						}
					}
					return true
				})
			} else {
				se.varSpec.Names = []*ast.Ident{ident("_")}
			}
		}
		sels, base := se.sels, se.base
		astutil.Apply(se.decl, func(c *astutil.Cursor) bool {
			if sel, ok := c.Node().(*ast.SelectorExpr); ok {
				if fnm, hit := sels[sel]; hit {
					c.Replace(ident(base + "_" + fnm))
					return false
				}
			}
			return true
		}, nil)
		n.modified[se.decl] = true
	}
	return true
}
