package main

import (
	"fmt"
	"go/constant"
	"go/token"
	"go/types"
	"strings"

	"golang.org/x/tools/go/ssa"
)

// C20 — install / update / uninstall never destroy user hooks or filter settings.

func init() {
	register(&PropDef{
		ID:    "C20",
		Level: "other",
		Explanation: "Decides structural necessary conditions on the current source of hook and filter-configuration installation: (R1) a hook file is written only when it does not exist, or --force is given, or its content was recognised as one Git LFS generated and differs from the current one, and it is removed only when recognised — explored under assumed outcomes of the recognition; a hook is recognised only through equality with the current script, emptiness, or equality with a historical script; (R2) the recognition compares the whole file, not a prefix; (R3) the script templates are in the normal form the comparison produces; " +
			"(R4) a filter.lfs.* value is written only under --force or when the current value is empty or a known historical value, a differing value otherwise yields an error, and the value inspected and the value written belong to the same configuration scope for every scope flag; (R5) every implicit hook installation passes force=false and the explicit force comes only from the --force flags. Sequences of operations, core.hooksPath resolution by Git and symlinked hooks are not decided.",
		Assumptions: []string{
			"os.WriteFile replaces the named file; git config scopes behave as documented",
		},
		Run:      runC20,
		Canaries: c20Canaries,
	})
}

func runC20(c *Ctx) {
	p := c.P
	hookUpgradeablesPerType(c, "R1")
	configSectionsRemovedOnlyByAttribute(c, "R4")
	configFileNamedVerbatim(c, "R4")
	inst := p.Fn("lfs", "(*Hook).Install")
	upg := p.Fn("lfs", "(*Hook).Upgrade")
	unin := p.Fn("lfs", "(*Hook).Uninstall")
	wr := p.Fn("lfs", "(*Hook).write")
	mc := p.Fn("lfs", "(*Hook).matchesCurrent")
	for n, f := range map[string]*ssa.Function{"Install": inst, "Upgrade": upg, "Uninstall": unin, "write": wr, "matchesCurrent": mc} {
		if f == nil {
			c.Missing("R1", "(*lfs.Hook)."+n, "not found")
			return
		}
	}
	reach := func(fn *ssa.Function, assume func(v ssa.Value) (*ssa.Const, bool), target string) bool {
		hit := false
		ExploreX(fn.Blocks[0], nil, nil, noReturnCommands, nil, assume, func(in ssa.Instruction, st PState) bool {
			if cc := AsCall(in); cc != nil && CalleeName(cc) == target {
				hit = true
				return false
			}
			return true
		})
		return hit
	}
	// ---- R1 ---------------------------------------------------------------------------------------
	var force *ssa.Parameter
	for _, prm := range inst.Params {
		if prm.Name() == "force" {
			force = prm
		}
	}
	r := reach(inst, func(v ssa.Value) (*ssa.Const, bool) {
		if callNamed(v, "(*lfs.Hook).Exists") {
			return boolConst(true, v.Type()), true
		}
		if force != nil && v == ssa.Value(force) {
			return boolConst(false, v.Type()), true
		}
		return nil, false
	}, "(*lfs.Hook).write")
	c.Check(!r, "R1", "Install:existing-hook-not-overwritten-without-force", p.Pos(inst.Pos()), "an existing hook is not written directly unless --force (it goes through the upgrade test)", "Install writes over an existing hook without --force and without the recognition test")
	var mcCall *ssa.Call
	for _, ci := range CallsIn(upg, "(*lfs.Hook).matchesCurrent") {
		mcCall, _ = ci.(*ssa.Call)
	}
	upgScenario := func(name string, upgradable, match bool, desc string) {
		r := reach(upg, func(v ssa.Value) (*ssa.Const, bool) {
			if mcCall != nil {
				if idx, ok := CallComponent(v, mcCall); ok && short(v.Type().String()) == "bool" {
					switch idx {
					case 0:
						return boolConst(upgradable, v.Type()), true
					case 1:
						return boolConst(match, v.Type()), true
					}
				}
			}
			return nil, false
		}, "(*lfs.Hook).write")
		c.Check(!r, "R1", "Upgrade:"+name, p.Pos(upg.Pos()), "the hook is left alone when "+desc, "Upgrade rewrites the hook although "+desc)
	}
	upgScenario("foreign-hook-kept", false, false, "its content is not one Git LFS generated")
	upgScenario("current-hook-untouched", true, true, "it already is the current script")
	var mcCall2 *ssa.Call
	for _, ci := range CallsIn(unin, "(*lfs.Hook).matchesCurrent") {
		mcCall2, _ = ci.(*ssa.Call)
	}
	r = reach(unin, func(v ssa.Value) (*ssa.Const, bool) {
		if mcCall2 != nil {
			if idx, ok := CallComponent(v, mcCall2); ok && idx == 0 && short(v.Type().String()) == "bool" {
				return boolConst(false, v.Type()), true
			}
		}
		return nil, false
	}, "os.RemoveAll")
	r2 := reach(unin, func(v ssa.Value) (*ssa.Const, bool) {
		if mcCall2 != nil {
			if idx, ok := CallComponent(v, mcCall2); ok && idx == 0 && short(v.Type().String()) == "bool" {
				return boolConst(false, v.Type()), true
			}
		}
		return nil, false
	}, "os.Remove")
	c.Check(!r && !r2, "R1", "Uninstall:foreign-hook-kept", p.Pos(unin.Pos()), "a hook that is not ours is not removed", "Uninstall removes a hook whose content is not one Git LFS generated")
	// the existence test that routes an existing hook to the recognition test: it may answer "absent" only
	// when stat-ing the hook's own path reports not-exist (a symlink, an unreadable file, a directory are present)
	if ex := p.Fn("lfs", "(*Hook).Exists"); ex != nil {
		nret := 0
		for _, r := range ReturnsOf(ex) {
			for _, v := range ReturnValues(r, 0) {
				nret++
				ok, why := c20ExistsVerdict(p, v)
				c.Check(ok, "R1", fmt.Sprintf("Exists:absent-only-if-stat-says-so#%d", nret), p.InstrPos(r), "`absent` is answered only for a not-exist error of stat on the hook's path",
					"Hook.Exists can answer false for a hook that is present ("+why+"): Install then skips the recognition test and writes over the user's hook without --force")
			}
		}
		c.AtLeast("R1", "return values of Hook.Exists", nret, 1)
	} else {
		c.Missing("R1", "(*lfs.Hook).Exists", "not found")
	}
	// the error of matchesCurrent is propagated (conflict reported)
	if mcCall != nil {
		errPropagates(c, "R1", "Upgrade:conflict-reported", upg, mcCall, mcCall.Call.Signature().Results().Len()-1)
	}
	// who may write / remove hook files
	for _, fn := range p.RepoFuncs(productPkg) {
		for _, ci := range CallsIn(fn, "(*lfs.Hook).write") {
			c.Check(fn == inst || fn == upg, "R1", "write-caller:"+FnName(fn), p.InstrPos(ci), "hook files are written only by Install/Upgrade", "Hook.write is called from an unexpected function")
		}
	}
	for _, f := range p.RepoFuncs(func(s string) bool { return s == Mod+"/lfs" }) {
		for _, ci := range CallsIn(f, "os.WriteFile", "os.Create", "os.RemoveAll", "os.Remove") {
			arg := ci.Common().Args[0]
			if pc, _, ok := CallResult(arg); ok && CalleeName(pc.Common()) == "(*lfs.Hook).Path" {
				c.Check(f == wr || f == unin, "R1", "hook-file-mutation:"+FnName(f), p.InstrPos(ci), "hook files are touched only by write/Uninstall", "a hook file is written or removed at an unexpected site")
			}
		}
	}
	// recognition: upgradable=true only via the three conditions
	var readCall *ssa.Call
	for _, ci := range CallsIn(mc, "io.ReadAll", "os.ReadFile") {
		readCall, _ = ci.(*ssa.Call)
	}
	isContents := func(v ssa.Value) bool {
		// the normalised text, or a variable holding nothing but it (and the "" of an error path)
		some := false
		for _, l := range p.LeavesNoFields(v, func(x ssa.Value) FlowAct {
			if _, _, ok := CallResult(x); ok {
				return Stop
			}
			return Descend
		}) {
			if cc, _, ok := CallResult(l); ok && CalleeName(cc.Common()) == "strings.TrimSpace" {
				some = true
			} else if s, isC := ConstString(l); !isC || s != "" {
				return false
			}
		}
		return some
	}
	allowed := PassEdges(mc, func(cond ssa.Value) (bool, bool) {
		op, x, y, ok := BinCmp(cond)
		if !ok {
			return false, false
		}
		if op == token.EQL {
			// contents == h.Contents ; u == contents
			fieldContents := func(v ssa.Value) bool { _, f, _, ok := FieldOf(v); return ok && f == "Contents" }
			elemUp := func(v ssa.Value) bool {
				for _, l := range p.LeavesNoFields(v, func(x ssa.Value) FlowAct {
					if _, f, _, ok := FieldOf(x); ok && f == "upgradeables" {
						return Stop
					}
					return Descend
				}) {
					if _, f, _, ok := FieldOf(l); ok && f == "upgradeables" {
						return true
					}
				}
				return false
			}
			if isContents(x) && (fieldContents(y) || elemUp(y)) || isContents(y) && (fieldContents(x) || elemUp(x)) {
				return true, true
			}
			// contents == ""
			if sv, isS := ConstString(y); isS && sv == "" && isContents(x) {
				return true, true
			}
			if sv, isS := ConstString(x); isS && sv == "" && isContents(y) {
				return true, true
			}
			// len(contents) == 0
			if k, isK := ConstInt(y); isK && k == 0 {
				if lc, ok := x.(*ssa.Call); ok {
					if bi, ok := lc.Call.Value.(*ssa.Builtin); ok && bi.Name() == "len" && isContents(lc.Call.Args[0]) {
						return true, true
					}
				}
			}
		}
		return false, false
	})
	nTrue := 0
	var countTrue func(v ssa.Value, d int)
	countTrue = func(v ssa.Value, d int) {
		if ph, ok := v.(*ssa.Phi); ok && d < 5 {
			for _, e := range ph.Edges {
				countTrue(e, d+1)
			}
			return
		}
		if u, ok := v.(*ssa.UnOp); ok && u.Op == token.MUL {
			for _, dv := range ReachingDefs(u) {
				if bv, isC := ConstBool(dv); isC && bv {
					nTrue++
				}
			}
			return
		}
		if bv, isC := ConstBool(v); isC && bv {
			nTrue++
		}
	}
	for _, ret := range ReturnsOf(mc) {
		countTrue(ResultComponents(ret)[0], 0)
	}
	// on every path that crosses none of the three accepted comparisons the verdict is the constant false
	badAt, badWhy := "", ""
	before := ExploreOverflow
	ExploreOverflow = false
	ExploreX(mc.Blocks[0], nil, nil, nil, EdgeSet(allowed), nil, func(in ssa.Instruction, st PState) bool {
		ret, ok := in.(*ssa.Return)
		if !ok {
			return true
		}
		cv, isC := EvalConst(ResultComponents(ret)[0], st)
		if !isC || cv.Value == nil || cv.Value.Kind() != constant.Bool {
			badAt, badWhy = p.InstrPos(ret), "the verdict is not a constant on a path that made none of the accepted comparisons"
		} else if constant.BoolVal(cv.Value) {
			badAt, badWhy = p.InstrPos(ret), "the verdict is true on a path that made none of the accepted comparisons"
		}
		return false
	})
	over := ExploreOverflow
	ExploreOverflow = before || over
	if badAt == "" {
		badAt = p.Pos(mc.Pos())
	}
	c.Check(badWhy == "" && !over && nonVacuous(allowed), "R1", "matchesCurrent:recognised-only-if-ours", badAt, "a hook counts as ours only if it equals the current script, is empty, or equals a historical script",
		"a hook file can be recognised as generated by git-lfs without being compared with the current or a historical script ("+badWhy+"): install/update overwrite it and uninstall deletes it")
	c.AtLeast("R1", "positive recognitions in matchesCurrent", nTrue, 2)
	// ---- R2 whole file ----------------------------------------------------------------------------
	if readCall == nil {
		c.Bad("R2", "matchesCurrent:reads-hook", p.Pos(mc.Pos()), "the existing hook is not read")
	} else {
		whole := false
		if CalleeName(readCall.Common()) == "os.ReadFile" {
			whole = true
		} else {
			arg := Unwrap(readCall.Call.Args[0])
			if oc, _, ok := CallResult(arg); ok && nameIn(CalleeName(oc.Common()), []string{"os.Open", "os.OpenFile"}) {
				whole = true
			}
		}
		c.Check(whole, "R2", "matchesCurrent:compares-whole-file", p.InstrPos(readCall), "the whole hook file is read for the comparison", "only a prefix of the existing hook is read (limited reader): a user hook that merely begins like a Git LFS hook is treated as ours and overwritten or deleted")
		// the compared contents derive from that read
		okSrc := false
		for _, ci := range CallsIn(mc, "strings.TrimSpace") {
			for _, l := range p.LeavesNoFields(ci.Common().Args[0], func(v ssa.Value) FlowAct {
				if v == ssa.Value(readCall) {
					return Stop
				}
				return Descend
			}) {
				if cc, _, ok := CallResult(l); ok && cc == readCall {
					okSrc = true
				}
			}
		}
		c.Check(okSrc, "R2", "matchesCurrent:compares-what-was-read", p.InstrPos(readCall), "the text compared is the file's content (undented, trimmed)", "the text compared with the known scripts is not the content read from the hook file")
	}
	// ---- R3 templates in normal form ------------------------------------------------------------------
	for _, name := range []string{"hookBaseContent", "hookOldContent", "hookOldContent2", "hookOldContent3"} {
		vals, pos, ok := globalInitStrings(p, "lfs", name)
		if !ok || len(vals) != 1 {
			c.Missing("R3", "lfs."+name, "hook template not found as a constant")
			continue
		}
		s := vals[0]
		lines := strings.Split(s, "\n")
		normal := strings.TrimSpace(s) == s
		for _, l := range lines {
			if strings.TrimLeft(l, " \t") != l {
				normal = false // Undent would change it
			}
		}
		c.Check(normal && strings.HasPrefix(s, "#!/bin/sh\n") && strings.Contains(s, "git lfs {{Command}}"), "R3", "template:"+name, p.Pos(pos), "template is a /bin/sh script calling git lfs <type>, already trimmed and undented", "hook template "+name+" is not in the normal form the comparison produces (trimmed, undented, #!/bin/sh, git lfs {{Command}}): an installed hook would never be recognised again")
	}

	c20Attributes(c)

	// ---- R5 implicit installs never force -----------------------------------------------------------------
	n := 0
	for _, fn := range p.RepoFuncs(func(s string) bool { return s == Mod+"/commands" }) {
		for _, ci := range CallsIn(fn, "commands.installHooks") {
			n++
			arg := ci.Common().Args[0]
			if bv, isC := ConstBool(arg); isC {
				c.Check(!bv, "R5", "installHooks:"+FnName(fn), p.InstrPos(ci), "implicit installation passes force=false", FnName(fn)+" installs hooks with force=true: a user's hook is overwritten as a side effect of an unrelated command")
				continue
			}
			isFlag := false
			if u, ok := arg.(*ssa.UnOp); ok {
				if g, ok := u.X.(*ssa.Global); ok && g.Name() == "updateForce" {
					isFlag = true
				}
			}
			c.Check(isFlag && FnName(fn) == "commands.updateCommand", "R5", "installHooks:"+FnName(fn), p.InstrPos(ci), "force comes from the --force flag of update/install", "hooks are installed with a force value that is not the --force flag")
		}
	}
	c.AtLeast("R5", "installHooks call sites", n, 8)
	// writers of updateForce: only from forceInstall (the install --force flag)
	for _, fn := range p.RepoFuncs(func(s string) bool { return s == Mod+"/commands" }) {
		for _, b := range fn.Blocks {
			for _, in := range b.Instrs {
				if st, ok := in.(*ssa.Store); ok {
					if g, ok := st.Addr.(*ssa.Global); ok && g.Name() == "updateForce" {
						okv := false
						if u, ok := st.Val.(*ssa.UnOp); ok {
							if g2, ok := u.X.(*ssa.Global); ok && g2.Name() == "forceInstall" {
								okv = true
							}
						}
						if bv, isC := ConstBool(st.Val); isC && !bv {
							okv = true
						}
						c.Check(okv, "R5", "updateForce-writer:"+FnName(fn), p.InstrPos(in), "set only from install's --force flag", "the hook force flag is set from something other than a --force flag")
					}
				}
			}
		}
	}
}

func c20Attributes(c *Ctx) {
	p := c.P
	c20InstallReportsEveryConflict(c)
	set := p.Fn("lfs", "(*Attribute).set")
	if set == nil {
		c.Missing("R4", "(*lfs.Attribute).set", "not found")
		return
	}
	// the lookups that inspect the current value follow include directives: a value that lives in an included
	// file is a user value all the same
	if gc := p.Fn("git", "(*Configuration).gitConfig"); gc != nil {
		n := 0
		for _, ci := range CallsIn(gc, "subprocess.ExecCommand") {
			n++
			consts := map[string]bool{}
			for _, a := range ci.Common().Args[1:] {
				for _, l := range p.LeavesNoFields(a, nil) {
					if s, ok := ConstString(l); ok {
						consts[s] = true
					}
				}
			}
			c.Check(consts["config"] && consts["--includes"], "R4", "lookup-follows-includes", p.InstrPos(ci), "every `git config` lookup is run with --includes",
				"`git config` is run without --includes: with a scope or file option Git then ignores include directives, so a user's filter.lfs.* value in an included file is not seen and a shadowing value is written without --force")
		}
		c.AtLeast("R4", "git config spawn in gitConfig", n, 1)
		for _, sc := range []string{"Local", "Worktree", "System", "File", "Global"} {
			f := p.Fn("git", "(*Configuration).Find"+sc)
			if f == nil {
				c.Missing("R4", "(*git.Configuration).Find"+sc, "not found")
				continue
			}
			c.Check(len(CallsIn(f, "(*git.Configuration).gitConfig")) == 1 && len(CallsIn(f, "subprocess.ExecCommand")) == 0, "R4", "lookup-through-gitConfig:Find"+sc, p.Pos(f.Pos()), "scope lookup goes through gitConfig", "Find"+sc+" does not run through gitConfig (whose --includes flag is what makes included values visible)")
		}
	} else {
		c.Missing("R4", "(*git.Configuration).gitConfig", "not found")
	}
	scopes := []string{"Local", "Worktree", "System", "File", "Global"}
	scopeAssume := func(active string, force, reset bool) func(v ssa.Value) (*ssa.Const, bool) {
		return func(v ssa.Value) (*ssa.Const, bool) {
			if t, f, _, ok := FieldOf(v); ok && t == "lfs.FilterOptions" {
				switch f {
				case "Local", "Worktree", "System":
					return boolConst(f == active, v.Type()), true
				case "Force":
					return boolConst(force, v.Type()), true
				}
			}
			// opt.File != ""
			if op, x, y, ok := BinCmp(v); ok && (op == token.NEQ || op == token.EQL) {
				if s, isC := ConstString(y); isC && s == "" {
					if _, f, _, isF := FieldOf(x); isF && f == "File" {
						return boolConst((active == "File") == (op == token.NEQ), v.Type()), true
					}
				}
			}
			if callNamed(v, "lfs.shouldReset") {
				return boolConst(reset, v.Type()), true
			}
			return nil, false
		}
	}
	for _, sc := range scopes {
		finds, sets := map[string]bool{}, map[string]bool{}
		ExploreX(set.Blocks[0], nil, nil, noReturnCommands, nil, scopeAssume(sc, true, true), func(in ssa.Instruction, st PState) bool {
			if cc := AsCall(in); cc != nil {
				n := CalleeName(cc)
				if strings.HasPrefix(n, "(*git.Configuration).Find") {
					finds[strings.TrimPrefix(n, "(*git.Configuration).Find")] = true
				}
				if strings.HasPrefix(n, "(*git.Configuration).Set") {
					sets[strings.TrimPrefix(n, "(*git.Configuration).Set")] = true
				}
			}
			return true
		})
		c.Check(len(finds) == 1 && len(sets) == 1 && finds[sc] && sets[sc], "R4", "scope-consistent:"+sc, p.Pos(set.Pos()), "the value inspected and the value written are both in the "+sc+" scope",
			fmt.Sprintf("for the %s scope the current value is read from scope(s) %v but written to scope(s) %v: a differing value in the written scope is not seen and gets replaced without --force", sc, SortedKeys(finds), SortedKeys(sets)))
	}
	// guarded write: without force and without reset no Set*; and a differing value is an error
	wrote := false
	nilRet := ""
	ExploreX(set.Blocks[0], nil, nil, noReturnCommands, nil, scopeAssume("Global", false, false), func(in ssa.Instruction, st PState) bool {
		if cc := AsCall(in); cc != nil && strings.HasPrefix(CalleeName(cc), "(*git.Configuration).Set") {
			wrote = true
		}
		return true
	})
	c.Check(!wrote, "R4", "set:not-without-force-or-reset", p.Pos(set.Pos()), "a filter setting is written only under --force or when the current value is empty/known", "a filter.lfs.* value is written although --force is off and the current value is neither empty nor a known historical value")
	// differing value -> error
	differs := func(v ssa.Value) (*ssa.Const, bool) {
		if cst, ok := scopeAssume("Global", false, false)(v); ok {
			return cst, true
		}
		if op, x, y, ok := BinCmp(v); ok && (op == token.NEQ || op == token.EQL) {
			isCur := func(z ssa.Value) bool {
				for _, l := range p.LeavesNoFields(z, func(v ssa.Value) FlowAct {
					if cc, _, ok := CallResult(v); ok && strings.HasPrefix(CalleeName(cc.Common()), "(*git.Configuration).Find") {
						return Stop
					}
					return Descend
				}) {
					if cc, _, ok := CallResult(l); ok && strings.HasPrefix(CalleeName(cc.Common()), "(*git.Configuration).Find") {
						return true
					}
				}
				return false
			}
			isVal := func(z ssa.Value) bool { prm, ok := Unwrap(z).(*ssa.Parameter); return ok && prm.Name() == "value" }
			if isCur(x) && isVal(y) || isCur(y) && isVal(x) {
				return boolConst(op == token.NEQ, v.Type()), true
			}
		}
		return nil, false
	}
	ExploreX(set.Blocks[0], nil, nil, noReturnCommands, nil, differs, func(in ssa.Instruction, st PState) bool {
		if r, ok := in.(*ssa.Return); ok {
			for _, v := range ReturnValues(r, 0) {
				if cst, ok := EvalConst(v, st); ok && cst.Value == nil {
					nilRet = p.InstrPos(r)
				}
			}
			return false
		}
		return true
	})
	c.Check(nilRet == "", "R4", "set:differing-value-is-reported", p.Pos(set.Pos()), "a differing user value yields an error (conflict reported)", "a differing filter.lfs.* value is silently accepted without --force ("+nilRet+"): the conflict is not reported")
	if sr := p.Fn("lfs", "shouldReset"); sr != nil {
		pass := PassEdges(sr, func(cond ssa.Value) (bool, bool) {
			op, x, y, ok := BinCmp(cond)
			if !ok || op != token.EQL {
				return false, false
			}
			if k, isK := ConstInt(y); isK && k == 0 {
				if lc, ok := x.(*ssa.Call); ok {
					if bi, ok := lc.Call.Value.(*ssa.Builtin); ok && bi.Name() == "len" {
						if _, isPrm := Unwrap(lc.Call.Args[0]).(*ssa.Parameter); isPrm {
							return true, true
						}
					}
				}
			}
			_, p1 := Unwrap(x).(*ssa.Parameter)
			_, p2 := Unwrap(y).(*ssa.Parameter)
			if p1 != p2 {
				return true, true // value == u
			}
			return false, false
		})
		for _, r := range ReturnsOf(sr) {
			if bv, isC := ConstBool(r.Results[0]); isC && bv {
				g, path := Guarded(sr.Blocks[0], r, pass, nil)
				c.Check(g && len(pass) >= 2, "R4", "shouldReset:empty-or-known", p.InstrPos(r), "resettable only when empty or equal to a known historical value", "shouldReset answers true for a value that is neither empty nor a known historical value: "+path)
			}
		}
	}
}

var c20Canaries = []Canary{
	{Name: "r6-config-file-name-rewritten", ExpectKey: "C20.R4#config-file:name-passed-verbatim", Edits: []Edit{{File: "git/config.go", Find: "\n// SetFile sets the git config value for the key in the given configuration file\nfunc (c *Configuration) SetFile(file, key, val string) (string, error) {\n\treturn c.gitConfigWrite(\"--file\", file, \"--replace-all\", key, val)\n}\n\n// UnsetGlobalSection removes the entire named section from the global config\n", Repl: "\n// SetFile sets the git config value for the key in the given configuration file\nfunc (c *Configuration) SetFile(file, key, val string) (string, error) {\n\treturn c.gitConfigWrite(\"--file\", absConfigFile(file), \"--replace-all\", key, val)\n}\n\n// UnsetGlobalSection removes the entire named section from the global config\n"}, {File: "git/config.go", Find: "\n// UnsetFileSection removes the entire named section from the given configuration file\nfunc (c *Configuration) UnsetFileSection(file, key string) (string, error) {\n\treturn c.gitConfigWrite(\"--file\", file, \"--remove-section\", key)\n}\n\n// UnsetLocalKey removes the git config value for the key from the specified config file\n", Repl: "\n// UnsetFileSection removes the entire named section from the given configuration file\nfunc (c *Configuration) UnsetFileSection(file, key string) (string, error) {\n\treturn c.gitConfigWrite(\"--file\", absConfigFile(file), \"--remove-section\", key)\n}\n\n// absConfigFile resolves a configuration file named on the command line\n// against the caller's working directory. \"git config\" itself is run from\n// inside the Git directory, so a relative path would otherwise end up there\n// instead of where the user asked for it.\nfunc absConfigFile(file string) string {\n\tif abs, err := filepath.Abs(file); err == nil {\n\t\treturn abs\n\t}\n\treturn file\n}\n\n// UnsetLocalKey removes the git config value for the key from the specified config file\n"}}},
	{Name: "r5-uninstall-touches-local-scope", ExpectKey: "C20.R4#section-removal-site", Edits: []Edit{{File: "commands/command_uninstall.go", Find: "\tif err := cmdInstallOptions().Uninstall(); err != nil {", Repl: "\tcmdInstallOptions().GitConfig.UnsetLocalSection(\"filter.lfs\")\n\tif err := cmdInstallOptions().Uninstall(); err != nil {"}}},
	{Name: "install-ignores-force", ExpectKey: "C20.R1#Install", Edits: []Edit{{File: "lfs/hook.go", Find: "	if h.Exists() && !force {\n		tracerx.Printf(msg + \", upgrading...\")\n		return h.Upgrade()\n	}", Repl: "	if h.Exists() && !force && h.Type != \"pre-push\" {\n		tracerx.Printf(msg + \", upgrading...\")\n		return h.Upgrade()\n	}"}}},
	{Name: "upgrade-writes-foreign", ExpectKey: "C20.R1#Upgrade:foreign-hook-kept", Edits: []Edit{{File: "lfs/hook.go", Find: "	if !upgradable || match {\n		return nil\n	}\n\n	return h.write()", Repl: "	if !upgradable && match {\n		return nil\n	}\n\n	return h.write()"}}},
	{Name: "uninstall-removes-foreign", ExpectKey: "C20.R1#Uninstall", Edits: []Edit{{File: "lfs/hook.go", Find: "	if !upgradable {\n		tracerx.Printf(msg + \", doesn't match...\")\n		return nil\n	}", Repl: "	if !upgradable {\n		tracerx.Printf(msg + \", doesn't match...\")\n	}"}}},
	{Name: "comment-only-is-blank", ExpectKey: "C20.R1#matchesCurrent:recognised-only-if-ours", Edits: []Edit{{File: "lfs/hook.go", Find: "	} else if len(contents) == 0 {\n		return true, false, nil\n	}", Repl: "	} else if len(contents) == 0 || strings.Count(contents, \"\\n\") == strings.Count(contents, \"\\n#\") {\n		return true, false, nil\n	}"}}},
	{Name: "prefix-compare", ExpectKey: "C20.R2#matchesCurrent:compares-whole-file", Edits: []Edit{{File: "lfs/hook.go", Find: "	by, err := io.ReadAll(file)", Repl: "	by, err := io.ReadAll(io.LimitReader(file, 1024))"}}},
	{Name: "read-local-write-worktree", ExpectKey: "C20.R4#scope-consistent:Worktree", Edits: []Edit{{File: "lfs/attribute.go", Find: "	if opt.Local {\n		currentValue = gitConfig.FindLocal(key)\n	} else if opt.Worktree {\n		currentValue = gitConfig.FindWorktree(key)\n	} else if opt.System {", Repl: "	if opt.Local || opt.Worktree {\n		currentValue = gitConfig.FindLocal(key)\n	} else if opt.System {"}}},
	{Name: "no-conflict-error", ExpectKey: "C20.R4#set:differing-value-is-reported", Edits: []Edit{{File: "lfs/attribute.go", Find: "	} else if currentValue != value {\n		return errors.New(", Repl: "	} else if currentValue != value && opt.Local {\n		return errors.New("}}},
	{Name: "track-forces-hooks", ExpectKey: "C20.R5#installHooks:commands.trackCommand", Edits: []Edit{{File: "commands/command_track.go", Find: "		installHooks(false)", Repl: "		installHooks(true)"}}},
	{Name: "reset-any-lfs-value", ExpectKey: "C20.R4#shouldReset", Edits: []Edit{{File: "lfs/attribute.go", Find: "	if len(value) == 0 {\n		return true\n	}\n\n	for _, u := range upgradeables {", Repl: "	if len(value) == 0 || strings.HasPrefix(value, \"git-lfs \") {\n		return true\n	}\n\n	for _, u := range upgradeables {"}}},
}

// c20ExistsVerdict accepts `true` and `!os.IsNotExist(err)` where err is the error of os.Stat/os.Lstat on
// the hook's own path; anything else can deny the existence of a present file.
func c20ExistsVerdict(p *Prog, v ssa.Value) (bool, string) {
	if bv, ok := ConstBool(v); ok {
		if bv {
			return true, ""
		}
		return false, "constant false"
	}
	if ph, ok := v.(*ssa.Phi); ok {
		for _, e := range ph.Edges {
			if ok, why := c20ExistsVerdict(p, e); !ok {
				return false, why
			}
		}
		return true, ""
	}
	un, ok := v.(*ssa.UnOp)
	if !ok || un.Op != token.NOT {
		return false, "the answer is " + describeValue(p, v) + ", not the negated not-exist test"
	}
	call, ok := un.X.(*ssa.Call)
	if !ok || (CalleeName(&call.Call) != "os.IsNotExist" && CalleeName(&call.Call) != "errors.Is") {
		return false, "the answer negates " + describeValue(p, un.X) + ", not os.IsNotExist"
	}
	if CalleeName(&call.Call) == "errors.Is" {
		if g, ok := Unwrap(call.Call.Args[1]).(*ssa.UnOp); !ok || !strings.Contains(g.X.Name(), "ErrNotExist") {
			return false, "errors.Is against something other than ErrNotExist"
		}
	}
	sc, idx, ok := CallResult(call.Call.Args[0])
	if !ok || idx != 1 {
		return false, "the error tested is not a stat result"
	}
	n := CalleeName(sc.Common())
	if n != "os.Stat" && n != "os.Lstat" {
		return false, "the error tested comes from " + n
	}
	if pc, _, ok := CallResult(sc.Common().Args[0]); !ok || CalleeName(pc.Common()) != "(*lfs.Hook).Path" {
		return false, "the path examined is not the hook's own path"
	}
	return true, ""
}

// c20InstallReportsEveryConflict (R4, all keys): Install sets the four filter.lfs.* keys one after the other; a
// conflict on any of them has to come back as the error of Install. The error of each set call is returned before
// the next key is tried (or at least never overwritten by a later success).
func c20InstallReportsEveryConflict(c *Ctx) {
	p := c.P
	fn := p.Fn("lfs", "(*Attribute).Install")
	if fn == nil {
		c.Missing("R4", "(*lfs.Attribute).Install", "not found")
		return
	}
	n := 0
	for _, ci := range CallsIn(fn, "(*lfs.Attribute).set") {
		call, ok := ci.(*ssa.Call)
		if !ok {
			continue
		}
		n++
		// after this call failed, every feasible continuation returns a non-nil error — whatever later calls answer
		escaped := ""
		init := PState{nonNil{call}: boolConst(true, types.Typ[types.Bool])}
		ExploreX(nil, call, init, nil, nil, nil, func(in ssa.Instruction, st PState) bool {
			r, isRet := in.(*ssa.Return)
			if !isRet || r.Block().Comment == "recover" {
				return escaped == ""
			}
			ev := Base(Resolve(r.Results[len(r.Results)-1], st), st)
			if _, nn := st[nonNil{ev}]; nn || NeverNil(ev) {
				return false
			}
			escaped = p.InstrPos(r)
			return false
		})
		c.Check(escaped == "", "R4", fmt.Sprintf("Install:conflict-is-returned#%d", n), p.InstrPos(ci), "a conflict on any key is what Install returns",
			"after one filter.lfs.* key reported a conflict Install can still return no error ("+escaped+"): the error is overwritten by the next key's success, `git lfs install` prints success and exits 0 while the user's value is still in place")
	}
	c.AtLeast("R4", "set calls in Attribute.Install", n, 1)
}
