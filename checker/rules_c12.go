package main

import (
	"fmt"
	"go/constant"
	"go/token"
	"go/types"
	"sort"
	"strings"

	"golang.org/x/tools/go/ssa"
)

// C12 — migrate import/export rewrites history without changing any file's content.

func init() {
	register(&PropDef{
		ID:    "C12",
		Level: "other",
		Explanation: "Decides structural necessary conditions on the current source of the history rewriter and the migrate commands: (R1) the rewritten commit sets every field of the commit type (enumerated from go/types, so a new upstream field is noticed), author, committer, extra headers and message come from the same field of the original, and exactly one parent is appended per original parent (the rewritten one or the original); (R2) in a rewritten tree exactly one entry is emitted per original entry, carrying the original entry's name and the original entry's mode — also when a cached rewrite of the same blob is reused; " +
			"(R3) a rewritten annotated tag sets every field of the tag type from the original and points at the rewritten object; (R4) import replaces a blob only with what clean produced for that blob's own contents and size, returns the blob itself for unselected paths, and with --fixup the last applicable filter attribute decides (no early exit); export replaces a pointer blob only with the object named by the pointer decoded from that blob; (R5) synthesised .gitattributes touch only the root tree; (R6) every error stops the rewrite before refs are updated and only the ref updater moves refs. Content equality after resolving pointers, which paths a pattern selects and graph isomorphism over all histories are not decided.",
		Assumptions: []string{
			"gitobj encodes/decodes commits, trees and tags faithfully",
			"commits are visited parents-first (reverse topological order) as the rewriter's comment states",
		},
		Run:      runC12,
		Canaries: c12Canaries,
	})
}

// literalFields: for an allocation of a struct (composite literal), field name -> stored value.
func literalFields(al *ssa.Alloc) map[string]ssa.Value {
	out := map[string]ssa.Value{}
	for _, r := range Referrers(al) {
		fa, ok := r.(*ssa.FieldAddr)
		if !ok {
			continue
		}
		_, f := fieldAddrName(fa)
		for _, rr := range Referrers(fa) {
			if st, ok := rr.(*ssa.Store); ok && st.Addr == ssa.Value(fa) {
				out[f] = st.Val
			}
		}
	}
	return out
}

func structFieldNames(t types.Type) []string {
	st, _ := structOf(t)
	if st == nil {
		return nil
	}
	var out []string
	for i := 0; i < st.NumFields(); i++ {
		out = append(out, st.Field(i).Name())
	}
	return out
}

func allocsOf(fn *ssa.Function, typ string) []*ssa.Alloc {
	var out []*ssa.Alloc
	for _, b := range fn.Blocks {
		for _, in := range b.Instrs {
			if al, ok := in.(*ssa.Alloc); ok {
				if pt, ok := al.Type().(*types.Pointer); ok && isNamed(pt.Elem()) && typeName(pt.Elem()) == typ {
					out = append(out, al)
				}
			}
		}
	}
	return out
}

func runC12(c *Ctx) {
	p := c.P
	// shared rule: an object counts as present only together with its size (rules_c09.go)
	objectPresenceRule(c, "R7", getStoreFlow(p))
	c12Order(c)
	c12CommitReuse(c)
	c12ExactNames(c)
	c12NestedTag(c, "R3")
	exportReplacesEveryPointer(c, "R5")
	everythingIncludesTags(c, "R3")
	// import cleans blobs through the same code as `git add`: what counts as already-a-pointer is decided there (C08)
	{
		saved := c.RulePrefix
		c.RulePrefix = saved + "C08/"
		runC08(c)
		c.RulePrefix = saved
	}
	fixupAttributesPerCommit(c, "R2")
	noFetchIncludeIn(c, "R2", "which paths migrate rewrites is decided by --include/--exclude alone: with lfs.fetchinclude/fetchexclude configured, selected paths stay unconverted (or unselected ones are converted) and .gitattributes gets lines nobody asked for", "getHistoryRewriter", "migrateImportCommand", "migrateExportCommand", "migrateInfoCommand")
	c12NoRewriteAccumulates(c, "R2")
	rw := p.Fn("git/githistory", "(*Rewriter).Rewrite")
	rt := p.Fn("git/githistory", "(*Rewriter).rewriteTree")
	if rw == nil || rt == nil {
		c.Missing("R1", "(*githistory.Rewriter).Rewrite / rewriteTree", "not found")
		return
	}
	// ---- R1 commit literal -------------------------------------------------------------------
	commits := allocsOf(rw, "github.com/git-lfs/gitobj/v2.Commit")
	if c.AtLeast("R1", "commit literals in Rewrite", len(commits), 1) {
		for _, al := range commits {
			set := literalFields(al)
			all := structFieldNames(al.Type())
			for _, f := range all {
				v, ok := set[f]
				if !ok {
					c.Bad("R1", "commit-field:"+f, p.InstrPos(al), "the rewritten commit does not set field "+f+" of the commit type: that part of the original commit is lost in the rewrite")
					continue
				}
				switch f {
				case "Author", "Committer", "ExtraHeaders", "Message":
					_, f2, _, isF := FieldOf(v)
					c.Check(isF && f2 == f, "R1", "commit-field:"+f, p.InstrPos(al), f+" carried over from the original commit", "the rewritten commit's "+f+" is not taken from the original commit's "+f)
				case "TreeID":
					c.Check(ResultOfCallNamed(v, "(*git/githistory.Rewriter).rewriteTree"), "R1", "commit-field:TreeID", p.InstrPos(al), "tree is the rewritten tree", "the rewritten commit's tree is not the result of rewriting the original tree")
				case "ParentIDs":
					c.OK("R1", "commit-field:ParentIDs", p.InstrPos(al), "set (parent list checked below)")
				default:
					c.Undecided("R1", "commit-field:"+f, p.InstrPos(al), "the commit type has a field this rule does not know; check that it is carried over")
				}
			}
		}
	}
	// parents: one append per original parent
	nPar := 0
	for _, l := range Loops(rw) {
		ro := l.RangedOperand()
		if ro == nil {
			continue
		}
		if _, f, _, ok := FieldOf(ro); !ok || f != "ParentIDs" {
			continue
		}
		nPar++
		good := true
		for _, e := range RunCount(CountQuery{Fn: rw, Entry: l.Body, Region: l.Region, Header: l.Header, Event: func(in ssa.Instruction) CSet {
			if cc, ok := in.(*ssa.Call); ok {
				if bi, ok := cc.Call.Value.(*ssa.Builtin); ok && bi.Name() == "append" && short(cc.Type().String()) == "[][]byte" {
					return C1
				}
			}
			return C0
		}}) {
			if e.Kind != "return" && e.Set != C1 {
				good = false
			}
		}
		c.Check(good, "R1", "parents:one-per-original-parent", p.InstrPos(firstPositioned(l.Body)), "exactly one parent is emitted per original parent, in order", "the rewritten commit does not get exactly one parent per original parent (merge structure would change)")
		// the appended value is the cached rewrite or the original parent
		for b := range l.Region {
			for _, in := range b.Instrs {
				cc, ok := in.(*ssa.Call)
				if !ok {
					continue
				}
				if bi, ok := cc.Call.Value.(*ssa.Builtin); !ok || bi.Name() != "append" {
					continue
				}
				els := variadicElems(cc.Call.Args[1])
				okv := len(els) == 1
				if okv {
					for _, lf := range p.LeavesNoFields(els[0], func(v ssa.Value) FlowAct {
						if uc, _, ok := CallResult(v); ok && CalleeName(uc.Common()) == "(*git/githistory.Rewriter).uncacheCommit" {
							return Stop
						}
						if _, f, _, isF := FieldOf(v); isF && f == "ParentIDs" {
							return Stop
						}
						return Descend
					}) {
						if uc, _, ok := CallResult(lf); ok && CalleeName(uc.Common()) == "(*git/githistory.Rewriter).uncacheCommit" {
							continue
						}
						if _, f, _, isF := FieldOf(lf); isF && f == "ParentIDs" {
							continue
						}
						if _, isNext := lf.(*ssa.Next); isNext {
							continue
						}
						if lf.Type().String() == "int" {
							continue
						}
						okv = false
					}
				}
				c.Check(okv, "R1", "parents:value", p.InstrPos(in), "each parent is the rewritten parent or, outside the migrated range, the original", "a parent of the rewritten commit is neither the rewritten nor the original parent")
			}
		}
	}
	c.AtLeast("R1", "parent loops", nPar, 1)

	// ---- R2 tree entries -------------------------------------------------------------------------
	var entryLoop *Loop
	loops := Loops(rt)
	for i := range loops {
		if _, f, _, ok := FieldOf(loops[i].RangedOperand()); ok && f == "Entries" {
			entryLoop = &loops[i]
		}
	}
	if entryLoop == nil {
		c.Missing("R2", "entry loop of rewriteTree", "loop over tree.Entries not found")
	} else {
		l := *entryLoop
		isEntryAppend := func(in ssa.Instruction) bool { return isAppendOf(in, "github.com/git-lfs/gitobj/v2.TreeEntry") }
		good := true
		why := ""
		for _, e := range RunCount(CountQuery{Fn: rt, Entry: l.Body, Region: l.Region, Header: l.Header, Event: func(in ssa.Instruction) CSet {
			if isEntryAppend(in) {
				return C1
			}
			return C0
		}}) {
			if e.Kind == "return" {
				continue // error exits
			}
			if e.Set != C1 {
				good = false
				why = fmt.Sprintf("an original entry yields %s entries on the path ending in %s", e.Set, e.Desc(p))
			}
		}
		c.Check(good, "R2", "tree:one-entry-per-original-entry", p.InstrPos(firstPositioned(l.Body)), "every original tree entry yields exactly one entry of the rewritten tree", why+": paths would be dropped or duplicated")
		// the loop element
		var entry ssa.Value
		for _, in := range l.Body.Instrs {
			if u, ok := in.(*ssa.UnOp); ok && u.Op == token.MUL {
				if _, isIA := u.X.(*ssa.IndexAddr); isIA {
					entry = u
				}
			}
		}
		isCurrent := func(v ssa.Value) bool { return entry != nil && SameVar(v, entry) }
		modeOfCurrent := func(v ssa.Value) bool {
			_, f, base, ok := FieldOf(v)
			return ok && f == "Filemode" && isCurrent(base)
		}
		nameOfCurrent := func(v ssa.Value) bool {
			_, f, base, ok := FieldOf(v)
			return ok && f == "Name" && isCurrent(base)
		}
		n := 0
		for _, b := range rt.Blocks {
			if !l.Region[b] {
				continue
			}
			for _, in := range b.Instrs {
				if !isEntryAppend(in) {
					continue
				}
				els := variadicElems(in.(*ssa.Call).Call.Args[1])
				if len(els) != 1 {
					n++
					c.Undecided("R2", "tree:entry-value", p.InstrPos(in), "cannot see the appended entry")
					continue
				}
				// one append may emit an entry computed on several paths (φ): each live source is judged
				for _, v := range liveSources(els[0]) {
					n++
					okMode, okName := false, false
					desc := describeValue(p, v)
					if cc, _, ok := CallResult(v); ok {
						switch CalleeName(cc.Common()) {
						case "git/githistory.copyEntry":
							okMode = isCurrent(cc.Call.Args[0])
							okName = okMode
							if okMode {
								desc = "copyEntry(entry)"
							} else {
								desc = "copyEntry(other)"
							}
						case "git/githistory.copyEntryMode":
							okMode = modeOfCurrent(cc.Call.Args[1])
							okName = true // a cached entry of the same path
							desc = "copyEntryMode(…)"
						case "(*git/githistory.Rewriter).cacheEntry":
							// third argument: the literal
							if al, ok := Unwrap(cc.Call.Args[3]).(*ssa.Alloc); ok {
								flds := literalFields(al)
								okMode = flds["Filemode"] != nil && modeOfCurrent(flds["Filemode"])
								okName = flds["Name"] != nil && nameOfCurrent(flds["Name"])
								desc = "cacheEntry(…, &TreeEntry{…})"
							}
						}
					}
					c.Check(okMode, "R2", fmt.Sprintf("tree:entry-mode#%d(%s)", n, desc), p.InstrPos(in), "the emitted entry carries the mode of the original entry at this path in this commit", "the emitted tree entry ("+desc+") does not take its file mode from the original entry of this commit (e.g. a cached rewrite is reused with the mode it had in an earlier commit): a chmod-only commit is lost")
					c.Check(okName, "R2", fmt.Sprintf("tree:entry-name#%d(%s)", n, desc), p.InstrPos(in), "the emitted entry carries the original entry's name", "the emitted tree entry does not carry the original entry's name")
				}
			}
		}
		c.AtLeast("R2", "entry appends in rewriteTree", n, 4)
		// symlinks are copied unchanged
		symlink := false
		for b := range l.Region {
			if ifi, ok := lastInstr(b).(*ssa.If); ok {
				if op, x, y, ok := BinCmp(ifi.Cond); ok && op == token.EQL {
					if k, isK := ConstInt(y); isK && k == 0120000 && modeOfCurrent(x) {
						symlink = true
					}
				}
			}
		}
		c.Check(symlink, "R2", "tree:symlinks-untouched", p.Pos(rt.Pos()), "symlink entries are copied, never passed to the blob function", "symlink entries are no longer excluded from blob rewriting")
	}

	// ---- R3 annotated tags ----------------------------------------------------------------------------
	if ut := p.Fn("git/githistory", "(*refUpdater).updateOneTag"); ut != nil {
		tags := allocsOf(ut, "github.com/git-lfs/gitobj/v2.Tag")
		var tagPrm, objPrm *ssa.Parameter
		for _, prm := range ut.Params {
			switch short(prm.Type().String()) {
			case "*github.com/git-lfs/gitobj/v2.Tag":
				tagPrm = prm
			case "[]byte":
				objPrm = prm
			}
		}
		for _, al := range tags {
			set := literalFields(al)
			for _, f := range structFieldNames(al.Type()) {
				v, ok := set[f]
				if !ok {
					c.Bad("R3", "tag-field:"+f, p.InstrPos(al), "the rewritten tag does not set field "+f+": that part of the annotated tag is lost")
					continue
				}
				if f == "Object" {
					c.Check(objPrm != nil && SameVar(v, objPrm), "R3", "tag-field:Object", p.InstrPos(al), "points at the rewritten object", "the rewritten tag does not point at the rewritten object")
					continue
				}
				_, f2, base, isF := FieldOf(v)
				c.Check(isF && f2 == f && tagPrm != nil && SameVar(base, tagPrm), "R3", "tag-field:"+f, p.InstrPos(al), f+" carried over from the original tag", "the rewritten tag's "+f+" is not the original tag's "+f)
			}
		}
		c.AtLeast("R3", "tag literals", len(tags), 1)
	} else {
		c.Missing("R3", "(*githistory.refUpdater).updateOneTag", "not found")
	}

	c12BlobFns(c)

	// ---- R6 errors stop before refs move ------------------------------------------------------------------
	var upd ssa.CallInstruction
	for _, ci := range CallsIn(rw, "(*git/githistory.refUpdater).updateRefs") {
		upd = ci
	}
	if upd == nil {
		c.Bad("R6", "updateRefs-call", p.Pos(rw.Pos()), "Rewrite no longer updates refs through the ref updater")
	} else {
		// the commit loop's done block dominates the ref update
		okDom := false
		for _, l := range Loops(rw) {
			if l.Done != nil && l.Done.Dominates(upd.Block()) {
				okDom = true
			}
		}
		c.Check(okDom, "R6", "refs-updated-after-all-commits", p.InstrPos(upd), "refs move only after every commit was rewritten", "refs can be updated before the commit loop finished")
		n := 0
		for _, b := range rw.Blocks {
			for _, in := range b.Instrs {
				call, ok := in.(*ssa.Call)
				if !ok || !b.Dominates(upd.Block()) && LoopOf(Loops(rw), b) == nil {
					continue
				}
				sig := call.Call.Signature()
				if sig.Results().Len() == 0 || short(sig.Results().At(sig.Results().Len()-1).Type().String()) != "error" {
					continue
				}
				name := CalleeName(&call.Call)
				if name == "fmt.Fprintf" || strings.HasPrefix(name, "errors.") {
					continue
				}
				if call == upd {
					continue
				}
				n++
				errPropagates(c, "R6", "rewrite-error-aborts:"+name, rw, call, sig.Results().Len()-1)
			}
		}
		c.AtLeast("R6", "error-returning steps before the ref update", n, 4)
	}
	for _, fn := range p.RepoFuncs(func(s string) bool { return s == Mod+"/git/githistory" }) {
		for _, ci := range CallsIn(fn, "git.UpdateRef", "git.UpdateRefIn") {
			root := fn
			for root.Parent() != nil {
				root = root.Parent()
			}
			c.Check(strings.HasPrefix(FnName(root), "(*git/githistory.refUpdater)"), "R6", "ref-mover:"+FnName(root), p.InstrPos(ci), "only the ref updater moves refs", "a ref is moved outside the ref updater")
		}
	}
}

func c12BlobFns(c *Ctx) {
	p := c.P
	imp := p.Fn("commands", "migrateImportCommand")
	exp := p.Fn("commands", "migrateExportCommand")
	if imp == nil || exp == nil {
		c.Missing("R4", "commands.migrateImportCommand / migrateExportCommand", "not found")
		return
	}
	blobFn := func(fn *ssa.Function) *ssa.Function {
		for _, af := range fn.AnonFuncs {
			if af.Signature.Params().Len() == 2 && af.Signature.Results().Len() == 2 && short(af.Signature.Params().At(1).Type().String()) == "*github.com/git-lfs/gitobj/v2.Blob" && short(af.Signature.Results().At(0).Type().String()) == "*github.com/git-lfs/gitobj/v2.Blob" {
				return af
			}
		}
		return nil
	}
	// import
	if bf := blobFn(imp); bf != nil {
		b := bf.Params[1]
		pathPrm := bf.Params[0]
		var cleanCall *ssa.Call
		for _, ci := range CallsIn(bf, "commands.clean") {
			cleanCall, _ = ci.(*ssa.Call)
		}
		if cleanCall == nil {
			c.Bad("R4", "import:clean-call", p.Pos(bf.Pos()), "the import blob function no longer calls clean")
		} else {
			a := cleanCall.Call.Args
			_, f1, b1, ok1 := FieldOf(a[2])
			_, f2, b2, ok2 := FieldOf(a[4])
			c.Check(ok1 && f1 == "Contents" && SameVar(b1, b) && ok2 && f2 == "Size" && SameVar(b2, b) && SameVar(a[3], pathPrm), "R4", "import:cleans-this-blob", p.InstrPos(cleanCall), "clean is given this blob's own contents, path and size", "the import blob function does not clean exactly the blob it was given (contents, path and size of the same blob)")
			// the replacement's contents are the buffer clean wrote into
			for _, r := range ReturnsOf(bf) {
				v := r.Results[0]
				if IsNilConst(v) || SameVar(v, b) {
					continue
				}
				al, ok := Unwrap(v).(*ssa.Alloc)
				good := false
				if ok {
					flds := literalFields(al)
					if cv, ok := flds["Contents"]; ok && Unwrap(cv) == Unwrap(a[1]) {
						good = true
					}
				}
				c.Check(good, "R4", "import:replacement-is-clean-output", p.InstrPos(r), "a replaced blob holds what clean wrote for it", "the blob returned by the import function is neither the original blob nor the buffer clean wrote into")
			}
		}
		// --fixup: last applicable filter attribute decides; no early exit
		for _, l := range Loops(bf) {
			ro := l.RangedOperand()
			if ro == nil || !ResultOfCallNamed(ro, "(*git/gitattr.Tree).Applied") {
				continue
			}
			early := false
			for _, e := range RunCount(CountQuery{Fn: bf, Entry: l.Body, Region: l.Region, Header: l.Header, Event: func(in ssa.Instruction) CSet { return C0 }}) {
				if e.Kind == "leave" || e.Kind == "return" {
					early = true
				}
			}
			c.Check(!early, "R4", "import:fixup-last-attribute-wins", p.InstrPos(firstPositioned(l.Body)), "every applicable attribute is examined; the last filter attribute decides", "the --fixup attribute scan stops early (first filter=lfs wins): a later rule that unsets or overrides the filter is ignored and files that must stay plain blobs are converted")
			// ok is assigned from V == "lfs"
			assigned := false
			for b2 := range l.Region {
				for _, in := range b2.Instrs {
					if bo, ok := in.(*ssa.BinOp); ok && (bo.Op == token.EQL || bo.Op == token.NEQ) {
						if s, isC := ConstString(bo.Y); isC && s == "lfs" {
							if _, f, _, isF := FieldOf(bo.X); isF && f == "V" {
								assigned = true
							}
						}
					}
				}
			}
			c.Check(assigned, "R4", "import:fixup-decided-by-filter-value", p.InstrPos(firstPositioned(l.Body)), "selection is attr.V == \"lfs\" of the filter attribute", "the --fixup selection is not decided by the filter attribute's value being lfs")
		}
		// unselected paths return b itself
		nb := 0
		for _, r := range ReturnsOf(bf) {
			if SameVar(r.Results[0], b) {
				nb++
			}
		}
		c.Check(nb >= 2, "R4", "import:unselected-returns-same-blob", p.Pos(bf.Pos()), ".gitattributes and unselected blobs are returned unchanged", "the import blob function no longer returns the original blob for .gitattributes / unselected paths")
	} else {
		c.Missing("R4", "import blob function", "closure with the BlobRewriteFn signature not found in migrateImportCommand")
	}
	// export
	if bf := blobFn(exp); bf != nil {
		b := bf.Params[1]
		var dec *ssa.Call
		for _, ci := range CallsIn(bf, "lfs.DecodePointer", "lfs.DecodePointerFromBlob", "lfs.DecodeFrom") {
			dec, _ = ci.(*ssa.Call)
		}
		if dec == nil {
			c.Bad("R4", "export:decodes-this-blob", p.Pos(bf.Pos()), "the export blob function does not decode the blob as a pointer")
		} else {
			fromThis := false
			for _, l := range p.LeavesNoFields(dec.Call.Args[0], nil) {
				if l == ssa.Value(b) {
					fromThis = true
				}
			}
			c.Check(fromThis, "R4", "export:decodes-this-blob", p.InstrPos(dec), "the pointer is decoded from this blob", "the export blob function decodes something other than the blob it was given")
			for _, ci := range CallsIn(bf, "github.com/git-lfs/gitobj/v2.NewBlobFromFile") {
				arg := ci.Common().Args[0]
				okp := false
				for _, l := range p.LeavesNoFields(arg, func(v ssa.Value) FlowAct {
					if oc, _, ok := CallResult(v); ok && strings.HasSuffix(CalleeName(oc.Common()), ".ObjectPath") {
						return Stop
					}
					return Descend
				}) {
					if oc, _, ok := CallResult(l); ok && strings.HasSuffix(CalleeName(oc.Common()), ".ObjectPath") {
						_, f, base, isF := FieldOf(oc.Call.Args[len(oc.Call.Args)-1])
						if isF && f == "Oid" {
							// the pointer itself, or a variable that holds nothing but it (a helper's result, once expanded)
							only, some := true, false
							for _, bl := range p.LeavesNoFields(base, func(v ssa.Value) FlowAct {
								if _, _, ok := CallResult(v); ok {
									return Stop
								}
								return Descend
							}) {
								if ResultOfCall(bl, dec, 0) {
									some = true
								} else if !IsNilConst(bl) {
									only = false
								}
							}
							if ResultOfCall(base, dec, 0) || (some && only) {
								okp = true
							}
						}
					}
				}
				c.Check(okp, "R4", "export:object-of-decoded-pointer", p.InstrPos(ci), "a pointer blob is replaced by the stored object its own oid names", "the export blob function replaces a pointer with an object other than the one its oid names")
			}
		}
		nb := 0
		for _, r := range ReturnsOf(bf) {
			if SameVar(r.Results[0], b) {
				nb++
			}
		}
		c.Check(nb >= 1, "R4", "export:non-pointers-unchanged", p.Pos(bf.Pos()), "non-pointer blobs are returned unchanged", "the export blob function no longer returns non-pointer blobs unchanged")
	} else {
		c.Missing("R4", "export blob function", "closure with the BlobRewriteFn signature not found in migrateExportCommand")
	}
	// ---- R5 .gitattributes synthesis only at the root ------------------------------------------------------
	var names []string
	for _, cmd := range []*ssa.Function{imp, exp} {
		for _, af := range cmd.AnonFuncs {
			if af.Signature.Params().Len() == 2 && af.Signature.Results().Len() == 2 && short(af.Signature.Params().At(1).Type().String()) == "*github.com/git-lfs/gitobj/v2.Tree" && short(af.Signature.Results().At(0).Type().String()) == "*github.com/git-lfs/gitobj/v2.Tree" {
				t := af.Params[1]
				// every return of a tree other than t is guarded by path == "/"
				pass := PassEdges(af, func(cond ssa.Value) (bool, bool) {
					op, x, y, ok := BinCmp(cond)
					if !ok {
						return false, false
					}
					if s, isC := ConstString(y); isC && s == "/" && SameVar(x, af.Params[0]) {
						if op == token.EQL {
							return true, true
						}
						if op == token.NEQ {
							return false, true
						}
					}
					return false, false
				})
				for _, r := range ReturnsOf(af) {
					v := r.Results[0]
					if IsNilConst(v) || SameVar(v, t) {
						continue
					}
					g, path := Guarded(af.Blocks[0], r, pass, nil)
					names = append(names, FnName(af))
					c.Check(g && nonVacuous(pass), "R5", "attributes-only-at-root:"+FnName(cmd), p.InstrPos(r), "a tree is modified only when it is the root tree", "the tree callback can modify a tree other than the root (path != \"/\"): "+path)
				}
			}
		}
	}
	sort.Strings(names)
	c.AtLeast("R5", "tree callbacks that modify trees", len(names), 1)
}

var c12Canaries = []Canary{
	{Name: "r7-export-keeps-pointer", ExpectKey: "C12.R5#export:blob-kept-only-if-not-a-pointer", Edits: []Edit{{File: "commands/command_migrate_export.go", Find: "\t\"github.com/git-lfs/git-lfs/v3/tools\"\n\t\"github.com/git-lfs/git-lfs/v3/tr\"\n\t\"github.com/git-lfs/gitobj/v2\"\n\t\"github.com/spf13/cobra\"\n)\n\n", Repl: "\t\"github.com/git-lfs/git-lfs/v3/tools\"\n\t\"github.com/git-lfs/git-lfs/v3/tr\"\n\t\"github.com/git-lfs/gitobj/v2\"\n\t\"github.com/rubyist/tracerx\"\n\t\"github.com/spf13/cobra\"\n)\n\n"}, {File: "commands/command_migrate_export.go", Find: "\t\t\t\treturn nil, err\n\t\t\t}\n\n\t\t\treturn gitobj.NewBlobFromFile(downloadPath)\n\t\t},\n\n", Repl: "\t\t\t\treturn nil, err\n\t\t\t}\n\n\t\t\tif _, err := os.Stat(downloadPath); os.IsNotExist(err) {\n\t\t\t\t// There was no remote to fetch this object from.\n\t\t\t\t// Keep the pointer, as the smudge filter does,\n\t\t\t\t// instead of aborting the whole export.\n\t\t\t\ttracerx.Printf(\"migrate export: %s: object %s not found, keeping pointer\", path, ptr.Oid)\n\t\t\t\treturn b, nil\n\t\t\t}\n\n\t\t\treturn gitobj.NewBlobFromFile(downloadPath)\n\t\t},\n\n"}}},
	{Name: "r6-everything-without-tags", ExpectKey: "C12.R3#migrate-everything:includes", Edits: []Edit{{File: "commands/command_migrate.go", Find: "\n\t\tfor _, ref := range refs {\n\t\t\tswitch ref.Type {\n\t\t\tcase git.RefTypeLocalBranch, git.RefTypeLocalTag,\n\t\t\t\tgit.RefTypeRemoteBranch:\n\n\t\t\t\tinclude = append(include, ref.Refspec())\n\t\t\tcase git.RefTypeOther:\n\t\t\t\tif isSpecialGitRef(ref.Refspec()) {\n\t\t\t\t\tcontinue\n", Repl: "\n\t\tfor _, ref := range refs {\n\t\t\tswitch ref.Type {\n\t\t\tcase git.RefTypeLocalBranch, git.RefTypeRemoteBranch:\n\t\t\t\tinclude = append(include, ref.Refspec())\n\t\t\tcase git.RefTypeLocalTag:\n\t\t\t\t// Tags are moved onto the rewritten commits by\n\t\t\t\t// the ref updater once the walk has finished.\n\t\t\t\tcontinue\n\t\t\tcase git.RefTypeOther:\n\t\t\t\tif isSpecialGitRef(ref.Refspec()) {\n\t\t\t\t\tcontinue\n"}}},
	{Name: "r5-migrate-uses-fetch-options", ExpectKey: "C12.R2#no-fetch-options", Edits: []Edit{{File: "commands/command_migrate.go", Find: "buildFilepathFilterWithPatternType(cfg, include, exclude, false, filepathfilter.GitAttributes)", Repl: "buildFilepathFilterWithPatternType(cfg, include, exclude, true, filepathfilter.GitAttributes)"}}},
	{Name: "r4-no-rewrite-restarts", ExpectKey: "C12.R2#no-rewrite", Edits: []Edit{{File: "commands/command_migrate_import.go", Find: "root, err = rewriteTree(gf, db, root, file)", Repl: "root, err = rewriteTree(gf, db, commit.TreeID, file)"}}},
	{Name: "omit-extra-headers", ExpectKey: "C12.R1#commit-field:ExtraHeaders", Edits: []Edit{{File: "git/githistory/rewriter.go", Find: "			ExtraHeaders: original.ExtraHeaders,\n", Repl: ""}}},
	{Name: "committer-from-author", ExpectKey: "C12.R1#commit-field:Committer", Edits: []Edit{{File: "git/githistory/rewriter.go", Find: "			Committer:    original.Committer,", Repl: "			Committer:    original.Author,"}}},
	{Name: "skip-symlink-entry", ExpectKey: "C12.R2#tree:one-entry-per-original-entry", Edits: []Edit{{File: "git/githistory/rewriter.go", Find: "		if entry.Filemode == 0120000 {\n			entries = append(entries, copyEntry(entry))\n			continue\n		}", Repl: "		if entry.Filemode == 0120000 {\n			continue\n		}"}}},
	{Name: "cached-entry-old-mode", ExpectKey: "C12.R2#tree:entry-mode", Edits: []Edit{{File: "git/githistory/rewriter.go", Find: "			entries = append(entries, copyEntryMode(cached,\n				entry.Filemode))", Repl: "			entries = append(entries, copyEntry(cached))"}}},
	{Name: "literal-mode", ExpectKey: "C12.R2#tree:entry-mode", Edits: []Edit{{File: "git/githistory/rewriter.go", Find: "		entries = append(entries, r.cacheEntry(fullpath, entry, &gitobj.TreeEntry{\n			Filemode: entry.Filemode,", Repl: "		entries = append(entries, r.cacheEntry(fullpath, entry, &gitobj.TreeEntry{\n			Filemode: 0100644,"}}},
	{Name: "tag-loses-tagger", ExpectKey: "C12.R3#tag-field:Tagger", Edits: []Edit{{File: "git/githistory/ref_updater.go", Find: "		Tagger:     tag.Tagger,\n", Repl: ""}}},
	{Name: "fixup-first-wins", ExpectKey: "C12.R4#import:fixup-last-attribute-wins", Edits: []Edit{{File: "commands/command_migrate_import.go", Find: "					if attr.K == \"filter\" {\n						ok = attr.V == \"lfs\"\n					}", Repl: "					if attr.K == \"filter\" && attr.V == \"lfs\" {\n						ok = true\n						break\n					}"}}},
	{Name: "import-wrong-size", ExpectKey: "C12.R4#import:cleans-this-blob", Edits: []Edit{{File: "commands/command_migrate_import.go", Find: "			if _, err := clean(gitfilter, &buf, b.Contents, path, b.Size); err != nil {", Repl: "			if _, err := clean(gitfilter, &buf, b.Contents, path, int64(above)); err != nil {"}}},
	{Name: "tree-error-ignored", ExpectKey: "C12.R6#rewrite-error-aborts", Edits: []Edit{{File: "git/githistory/rewriter.go", Find: "		rewrittenTree, err := r.rewriteTree(oid, original.TreeID, \"\", opt.blobFn(), opt.treePreFn(), opt.treeFn(), vPerc)\n		if err != nil {\n			return nil, err\n		}", Repl: "		rewrittenTree, err := r.rewriteTree(oid, original.TreeID, \"\", opt.blobFn(), opt.treePreFn(), opt.treeFn(), vPerc)\n		if err != nil && rewrittenTree == nil {\n			return nil, err\n		}"}}},
}

// c12Order (R8): Rewrite() rewrites commits in the order the scanner yields them and looks every parent up in
// the cache of commits rewritten so far; a parent not found there is taken to lie outside the migration and kept
// as it is. That is only right when every parent comes before its children, which `git rev-list` guarantees with
// --topo-order (--date-order also does; the default order does not under clock skew) together with --reverse.
func c12Order(c *Ctx) {
	p := c.P
	fn := p.Fn("git/githistory", "(*Rewriter).scannerOpts")
	if fn == nil {
		c.Missing("R8", "(*githistory.Rewriter).scannerOpts", "not found")
		return
	}
	set := map[string]ssa.Value{}
	for _, b := range fn.Blocks {
		for _, in := range b.Instrs {
			if st, ok := in.(*ssa.Store); ok {
				if fa, ok := st.Addr.(*ssa.FieldAddr); ok {
					if t, f := fieldAddrName(fa); t == "git.ScanRefsOptions" {
						set[f] = st.Val
					}
				}
			}
		}
	}
	topo, date := int64(-1), int64(-1)
	if pk := p.byPath[PkgPath("git")]; pk != nil {
		for _, nm := range []string{"TopoRevListOrder", "DateRevListOrder"} {
			if obj, ok := pk.Types.Scope().Lookup(nm).(*types.Const); ok {
				if v, ok := constant.Int64Val(obj.Val()); ok {
					if nm == "TopoRevListOrder" {
						topo = v
					} else {
						date = v
					}
				}
			}
		}
	}
	ord, okO := ConstInt(set["Order"])
	if set["Order"] == nil {
		okO = false
	}
	c.Check(okO && (ord == topo || ord == date) && topo >= 0, "R8", "scan-order:parents-first", p.Pos(fn.Pos()), "commits are listed in an order that puts parents before children (topological or date order)",
		"the commits to rewrite are not requested in topological (or date) order: with Git's default order a child committed with an older date than its parent is rewritten first, keeps the ORIGINAL parent, and the migrated history refers to un-migrated commits")
	rev, okR := ConstBool(set["Reverse"])
	if set["Reverse"] == nil {
		okR = false
	}
	c.Check(okR && rev, "R8", "scan-order:reverse", p.Pos(fn.Pos()), "oldest first (--reverse)", "the commits to rewrite are not listed oldest first: children would be rewritten before their parents")
}

// liveSources lists the values a (possibly φ) value can actually be: φ-nodes are expanded, the dead zero values
// of error paths (errorPathEdge) are left out.
func liveSources(v ssa.Value) []ssa.Value {
	var out []ssa.Value
	seen := map[ssa.Value]bool{}
	var walk func(x ssa.Value, d int)
	walk = func(x ssa.Value, d int) {
		if seen[x] || d > 6 {
			return
		}
		seen[x] = true
		if ph, ok := x.(*ssa.Phi); ok {
			for i, e := range ph.Edges {
				if errorPathEdge(ph, i) {
					continue
				}
				walk(e, d+1)
			}
			return
		}
		out = append(out, x)
	}
	walk(v, 0)
	return out
}

// c12CommitReuse (R1, reuse of the original commit): the original commit object is kept only when the rewritten
// commit — tree AND parents and everything else — equals it. Reusing it because its own tree is unchanged keeps a
// commit whose parent was rewritten attached to the un-migrated parent. Decided in Rewrite: every path on which
// the new id is a copy of the old id (no WriteCommit) runs through the true edge of (*Commit).Equal(original,
// rewritten) where `rewritten` is the commit literal built in this iteration.
func c12CommitReuse(c *Ctx) {
	p := c.P
	fn := p.Fn("git/githistory", "(*Rewriter).Rewrite")
	if fn == nil {
		c.Missing("R1", "(*githistory.Rewriter).Rewrite", "not found")
		return
	}
	writes := CallsIn(fn, "(*github.com/git-lfs/gitobj/v2.ObjectDatabase).WriteCommit")
	caches := CallsIn(fn, "(*git/githistory.Rewriter).cacheCommit")
	if len(writes) == 0 || len(caches) == 0 {
		c.Missing("R1", "WriteCommit / cacheCommit in Rewrite", "not found")
		return
	}
	pass := PassEdges(fn, func(cond ssa.Value) (bool, bool) {
		cc, ok := cond.(*ssa.Call)
		if !ok || !strings.HasSuffix(CalleeName(&cc.Call), ".Commit).Equal") {
			return false, false
		}
		// one operand is the literal carrying the rewritten parents and tree
		for _, a := range CallArgs(&cc.Call) {
			if al, isAl := Unwrap(a).(*ssa.Alloc); isAl {
				fl := literalFields(al)
				if fl["ParentIDs"] != nil && fl["TreeID"] != nil {
					return true, true
				}
			}
		}
		return false, false
	})
	// reaching cacheCommit without having written a commit is allowed only through the Equal edge
	cut := EdgeSet(pass)
	for _, w := range writes {
		for i := range w.Block().Succs {
			cut[Edge{w.Block(), i}] = true
		}
	}
	loops := Loops(fn)
	for i, cc := range caches {
		entry := fn.Blocks[0]
		if l := LoopOf(loops, cc.Block()); l != nil {
			entry = l.Body
		}
		reach := InstrReachable(entry, cc, cut, nil)
		c.Check(!reach && nonVacuous(pass), "R1", fmt.Sprintf("commit:original-reused-only-if-equal#%d", i), p.InstrPos(cc), "an original commit is kept only when the whole rewritten commit equals it",
			"the original commit object can be kept without the rewritten commit (parents included) having been compared equal to it: a commit whose own tree is unchanged stays attached to its un-migrated parent, and the migrated branch still reaches the raw blobs")
	}
}

// c12ExactNames (R2, --no-rewrite lookup): tree entries are found by their exact name; a case-insensitive match
// picks a sibling that differs only in case.
func c12ExactNames(c *Ctx) {
	p := c.P
	fn := p.Fn("commands", "findEntry")
	if fn == nil {
		c.Missing("R2", "commands.findEntry", "not found")
		return
	}
	bad := CallsInDeep(fn, "strings.EqualFold", "strings.ToLower", "strings.ToUpper", "strings.HasPrefix", "strings.Contains")
	exact := false
	var blocks []*ssa.BasicBlock
	for _, f := range WithAnon(fn) {
		blocks = append(blocks, f.Blocks...)
	}
	for _, b := range blocks {
		// as a branch condition, or as the value a predicate closure returns (slices.IndexFunc)
		var conds []ssa.Value
		if ifi, ok := lastInstr(b).(*ssa.If); ok {
			conds = append(conds, ifi.Cond)
		}
		if r, ok := lastInstr(b).(*ssa.Return); ok && b.Parent() != fn && len(r.Results) == 1 {
			conds = append(conds, r.Results[0])
		}
		for _, cv := range conds {
			if op, x, y, isCmp := BinCmp(cv); isCmp && op == token.EQL {
				_, f1, _, ok1 := FieldOf(x)
				_, p2 := Unwrap(y).(*ssa.Parameter)
				_, f2, _, ok2 := FieldOf(y)
				_, p1 := Unwrap(x).(*ssa.Parameter)
				isFV := func(v ssa.Value) bool {
					v = Unwrap(v)
					if ld, ok := v.(*ssa.UnOp); ok && ld.Op == token.MUL {
						v = ld.X
					}
					_, ok := v.(*ssa.FreeVar)
					return ok
				}
				fv2, fv1 := isFV(y), isFV(x)
				if ok1 && f1 == "Name" && (p2 || fv2) || ok2 && f2 == "Name" && (p1 || fv1) {
					exact = true
				}
			}
		}
	}
	c.Check(len(bad) == 0 && exact, "R2", "findEntry:exact-name", p.Pos(fn.Pos()), "a tree entry is looked up by exact name equality", "tree entries are not looked up by exact name (case-folding or partial match): with siblings that differ only in case the wrong file is converted and the requested path resolves to another file's content")
}
