package main

import (
	"fmt"
	"sort"
	"strings"

	"golang.org/x/tools/go/ssa"
)

// CSet is a set of event counts, a subset of {0, 1, 2+} (engine COUNT).
type CSet uint8

const (
	C0 CSet = 1 << iota
	C1
	C2
)

func (a CSet) Add(b CSet) CSet {
	var r CSet
	for i := 0; i < 3; i++ {
		if a&(1<<i) == 0 {
			continue
		}
		for j := 0; j < 3; j++ {
			if b&(1<<j) == 0 {
				continue
			}
			k := i + j
			if k > 2 {
				k = 2
			}
			r |= 1 << k
		}
	}
	return r
}

func (a CSet) String() string {
	var s []string
	if a&C0 != 0 {
		s = append(s, "0")
	}
	if a&C1 != 0 {
		s = append(s, "1")
	}
	if a&C2 != 0 {
		s = append(s, "2+")
	}
	return "{" + strings.Join(s, ",") + "}"
}

// CountExit is one way of leaving the counted region.
type CountExit struct {
	Kind  string // "return", "leave", "backedge", "noreturn"
	From  *ssa.BasicBlock
	To    *ssa.BasicBlock // nil for return/noreturn
	Instr ssa.Instruction // the Return or the no-return call
	Set   CSet
}

func (e CountExit) Desc(p *Prog) string {
	switch e.Kind {
	case "return", "noreturn":
		return fmt.Sprintf("%s at %s (b%d)", e.Kind, p.InstrPos(e.Instr), e.From.Index)
	default:
		return fmt.Sprintf("%s b%d->b%d(%s) near %s", e.Kind, e.From.Index, e.To.Index, e.To.Comment, p.InstrPos(firstPositioned(e.From)))
	}
}

func firstPositioned(b *ssa.BasicBlock) ssa.Instruction {
	for i := len(b.Instrs) - 1; i >= 0; i-- {
		if b.Instrs[i].Pos().IsValid() {
			return b.Instrs[i]
		}
	}
	if len(b.Instrs) > 0 {
		return b.Instrs[0]
	}
	return nil
}

// CountQuery describes a counting problem over (part of) one function's CFG.
type CountQuery struct {
	Fn     *ssa.Function
	Entry  *ssa.BasicBlock          // default: Fn.Blocks[0]
	Region map[*ssa.BasicBlock]bool // nil: the whole function
	Header *ssa.BasicBlock          // loop header: edges into it are "backedge" exits
	Event  func(in ssa.Instruction) CSet
	NoRet  NoReturn
	Cut    map[Edge]bool // edges assumed infeasible (exception rows)
}

// RunCount returns the count sets at every exit of the region. It enumerates the feasible paths (branches on
// the same value go the same way, nil-ness learnt from a test holds later: paths.go), merging states that agree;
// if that exploration runs into its bound it falls back to the path-insensitive dataflow, which over-approximates.
func RunCount(q CountQuery) []CountExit {
	if out, ok := runCountPaths(q); ok {
		return out
	}
	return runCountFlow(q)
}

func runCountPaths(q CountQuery) ([]CountExit, bool) {
	entry := q.Entry
	if entry == nil {
		entry = q.Fn.Blocks[0]
	}
	type exitKey struct {
		from *ssa.BasicBlock
		to   *ssa.BasicBlock
		kind string
	}
	exits := map[exitKey]*CountExit{}
	var order []exitKey
	addExit := func(k exitKey, instr ssa.Instruction, n int) {
		s := CSet(1 << n)
		if e, ok := exits[k]; ok {
			e.Set |= s
			return
		}
		exits[k] = &CountExit{Kind: k.kind, From: k.from, To: k.to, Instr: instr, Set: s}
		order = append(order, k)
	}
	type item struct {
		b   *ssa.BasicBlock
		idx int
		st  PState
		n   int
	}
	old := assumeHook
	assumeHook = nil
	defer func() { assumeHook = old }()
	seen := map[string]bool{}
	work := []item{{entry, 0, PState{}, 0}}
	steps := 0
	for len(work) > 0 {
		it := work[len(work)-1]
		work = work[:len(work)-1]
		k := fmt.Sprintf("%d/%d/%d/%s", it.b.Index, it.idx, it.n, it.st.key())
		if seen[k] {
			continue
		}
		seen[k] = true
		steps++
		if steps > 100000 {
			return nil, false
		}
		st := it.st.clone()
		if it.idx == 0 {
			enterBlock(st, it.b)
		}
		cur := it.n
		ended := false
		for i := it.idx; i < len(it.b.Instrs); i++ {
			ins := it.b.Instrs[i]
			if _, isPhi := ins.(*ssa.Phi); isPhi {
				continue
			}
			if stv, ok := ins.(*ssa.Store); ok {
				if al, ok := stv.Addr.(*ssa.Alloc); ok {
					if c, ok := EvalConst(stv.Val, st); ok {
						st[al] = c
					} else {
						st[al] = stv.Val
					}
				}
			}
			var ev CSet = C0
			if q.Event != nil {
				ev = evOrZero(q.Event, ins)
			}
			if ev != C0 {
				// an event that may count 0, 1 or more: continue once per possibility
				var alts []int
				for j := 0; j < 3; j++ {
					if ev&(1<<j) != 0 {
						n := cur + j
						if n > 2 {
							n = 2
						}
						alts = append(alts, n)
					}
				}
				for _, n := range alts[1:] {
					if q.NoRet != nil && q.NoRet(ins) {
						addExit(exitKey{it.b, nil, "noreturn"}, ins, n)
					} else if r, ok := ins.(*ssa.Return); ok {
						addExit(exitKey{it.b, nil, "return"}, r, n)
					} else {
						work = append(work, item{it.b, i + 1, st.clone(), n})
					}
				}
				cur = alts[0]
			}
			if q.NoRet != nil && q.NoRet(ins) {
				addExit(exitKey{it.b, nil, "noreturn"}, ins, cur)
				ended = true
				break
			}
			if r, ok := ins.(*ssa.Return); ok {
				addExit(exitKey{it.b, nil, "return"}, r, cur)
				ended = true
				break
			}
		}
		if ended {
			continue
		}
		for _, sc := range stepSuccs(it.b, st) {
			if q.Cut[Edge{it.b, sc.Idx}] {
				continue
			}
			s := sc.To
			if q.Header != nil && s == q.Header {
				addExit(exitKey{it.b, s, "backedge"}, nil, cur)
				continue
			}
			if q.Region != nil && !q.Region[s] {
				addExit(exitKey{it.b, s, "leave"}, nil, cur)
				continue
			}
			if s == entry && q.Region != nil {
				addExit(exitKey{it.b, s, "backedge"}, nil, cur)
				continue
			}
			work = append(work, item{s, 0, sc.St, cur})
		}
	}
	var out []CountExit
	for _, k := range order {
		out = append(out, *exits[k])
	}
	sort.SliceStable(out, func(i, j int) bool {
		if out[i].From.Index != out[j].From.Index {
			return out[i].From.Index < out[j].From.Index
		}
		ti, tj := -1, -1
		if out[i].To != nil {
			ti = out[i].To.Index
		}
		if out[j].To != nil {
			tj = out[j].To.Index
		}
		return ti < tj
	})
	return out, true
}

// runCountFlow is the path-insensitive forward dataflow.
func runCountFlow(q CountQuery) []CountExit {
	entry := q.Entry
	if entry == nil {
		entry = q.Fn.Blocks[0]
	}
	in := map[*ssa.BasicBlock]CSet{entry: C0}
	work := []*ssa.BasicBlock{entry}
	type exitKey struct {
		from *ssa.BasicBlock
		to   *ssa.BasicBlock
		kind string
	}
	exits := map[exitKey]*CountExit{}
	var order []exitKey
	addExit := func(k exitKey, instr ssa.Instruction, s CSet) {
		if e, ok := exits[k]; ok {
			e.Set |= s
			return
		}
		exits[k] = &CountExit{Kind: k.kind, From: k.from, To: k.to, Instr: instr, Set: s}
		order = append(order, k)
	}
	for len(work) > 0 {
		b := work[len(work)-1]
		work = work[:len(work)-1]
		cur := in[b]
		ended := false
		for _, ins := range b.Instrs {
			if q.NoRet != nil && q.NoRet(ins) {
				if q.Event != nil {
					cur = cur.Add(evOrZero(q.Event, ins))
				}
				addExit(exitKey{b, nil, "noreturn"}, ins, cur)
				ended = true
				break
			}
			if q.Event != nil {
				cur = cur.Add(evOrZero(q.Event, ins))
			}
			if r, ok := ins.(*ssa.Return); ok {
				addExit(exitKey{b, nil, "return"}, r, cur)
				ended = true
			}
		}
		if ended {
			continue
		}
		for i, s := range b.Succs {
			if q.Cut[Edge{b, i}] {
				continue
			}
			if q.Header != nil && s == q.Header {
				addExit(exitKey{b, s, "backedge"}, nil, cur)
				continue
			}
			if q.Region != nil && !q.Region[s] {
				addExit(exitKey{b, s, "leave"}, nil, cur)
				continue
			}
			if s == entry && q.Region != nil {
				addExit(exitKey{b, s, "backedge"}, nil, cur)
				continue
			}
			old := in[s]
			nw := old | cur
			if nw != old {
				in[s] = nw
				work = append(work, s)
			}
		}
	}
	var out []CountExit
	for _, k := range order {
		out = append(out, *exits[k])
	}
	return out
}

func evOrZero(f func(ssa.Instruction) CSet, in ssa.Instruction) CSet {
	s := f(in)
	if s == 0 {
		return C0
	}
	return s
}

// Loop describes a source-level loop found through go/ssa's block comments.
type Loop struct {
	Header *ssa.BasicBlock
	Body   *ssa.BasicBlock
	Done   *ssa.BasicBlock
	Region map[*ssa.BasicBlock]bool // blocks of one iteration (reachable from Body without entering Header)
	Kind   string                   // rangeindex, rangeiter, rangechan, for
}

// Loops finds the loops of fn. For `for range` loops go/ssa names the blocks
// rangeindex.loop/body/done, rangeiter.*, rangechan.*; for plain `for` loops for.loop/body/done
// (and for.post). The header is the block that decides whether another iteration runs.
func Loops(fn *ssa.Function) []Loop {
	var out []Loop
	for _, b := range fn.Blocks {
		if !strings.HasSuffix(b.Comment, ".body") {
			continue
		}
		kind := strings.TrimSuffix(b.Comment, ".body")
		var header *ssa.BasicBlock
		for _, p := range b.Preds {
			if p.Comment == kind+".loop" {
				header = p
			}
		}
		if header == nil {
			// `for {` loops without a condition: the body is its own header
			if kind == "for" {
				header = b
			} else {
				continue
			}
		}
		l := Loop{Header: header, Body: b, Kind: kind}
		for _, s := range header.Succs {
			if s != b && strings.HasSuffix(s.Comment, ".done") {
				l.Done = s
			}
		}
		// region: reachable from body without entering header
		reg := map[*ssa.BasicBlock]bool{b: true}
		st := []*ssa.BasicBlock{b}
		for len(st) > 0 {
			x := st[len(st)-1]
			st = st[:len(st)-1]
			for _, s := range x.Succs {
				if s == header || reg[s] {
					continue
				}
				// stay inside the loop: s must be able to reach header again, or be dominated by body
				if !b.Dominates(s) {
					continue
				}
				reg[s] = true
				st = append(st, s)
			}
		}
		l.Region = reg
		out = append(out, l)
	}
	return out
}

// RangedOperand returns the value a range loop iterates over (slice/map/chan), if any.
func (l Loop) RangedOperand() ssa.Value {
	switch l.Kind {
	case "rangeindex":
		// header: phi, len(x) computed in the predecessor; body: IndexAddr/Index of x
		for _, in := range l.Body.Instrs {
			switch x := in.(type) {
			case *ssa.IndexAddr:
				return x.X
			case *ssa.Index:
				return x.X
			}
		}
		// fall back: find len(x) feeding the header comparison
		for _, in := range l.Header.Instrs {
			if b, ok := in.(*ssa.BinOp); ok {
				if c, ok := b.Y.(*ssa.Call); ok {
					if bi, ok := c.Call.Value.(*ssa.Builtin); ok && bi.Name() == "len" {
						return c.Call.Args[0]
					}
				}
			}
		}
	case "rangeiter":
		for _, in := range l.Header.Instrs {
			if n, ok := in.(*ssa.Next); ok {
				if r, ok := n.Iter.(*ssa.Range); ok {
					return r.X
				}
			}
		}
	case "rangechan":
		for _, in := range l.Header.Instrs {
			if u, ok := in.(*ssa.UnOp); ok && u.CommaOk {
				return u.X
			}
		}
	}
	return nil
}

// LoopOf returns the innermost loop whose region contains block b.
func LoopOf(loops []Loop, b *ssa.BasicBlock) *Loop {
	var best *Loop
	for i := range loops {
		if loops[i].Region[b] {
			if best == nil || len(loops[i].Region) < len(best.Region) {
				best = &loops[i]
			}
		}
	}
	return best
}
