package main

import (
	"fmt"
	"go/constant"
	"go/token"
	"go/types"
	"sort"
	"strings"

	"golang.org/x/tools/go/ssa"
)

// ---------------------------------------------------------------------------------------
// Callee identity

// CalleeName gives the resolved callee of a call instruction as a module-relative string:
//
//	"os.Rename", "(*os.File).Truncate", "tools.RobustRename", "(*tq.TransferQueue).Add"
//
// for interface dispatch "(io.Reader).Read" (the interface method), for calls of closures
// and function values "" (use CalleeValue).
func CalleeName(c *ssa.CallCommon) string {
	if c.IsInvoke() {
		return short(c.Method.FullName())
	}
	if f := c.StaticCallee(); f != nil {
		if f.Origin() != nil {
			f = f.Origin()
		}
		return short(f.String())
	}
	if b, ok := c.Value.(*ssa.Builtin); ok {
		return "builtin." + b.Name()
	}
	return ""
}

// AsCall returns the CallCommon of a Call/Go/Defer instruction.
func AsCall(in ssa.Instruction) *ssa.CallCommon {
	if ci, ok := in.(ssa.CallInstruction); ok {
		return ci.Common()
	}
	return nil
}

// CallArgs returns the arguments including the receiver as element 0 for method calls.
func CallArgs(c *ssa.CallCommon) []ssa.Value {
	if c.IsInvoke() {
		return append([]ssa.Value{c.Value}, c.Args...)
	}
	return c.Args
}

func nameIn(name string, set []string) bool {
	for _, s := range set {
		if s == name {
			return true
		}
	}
	return false
}

// CallsIn lists the call instructions (Call, Go, Defer) in fn (not nested closures) whose
// resolved callee is one of names.
func CallsIn(fn *ssa.Function, names ...string) []ssa.CallInstruction {
	var out []ssa.CallInstruction
	if fn == nil {
		return nil
	}
	for _, b := range fn.Blocks {
		for _, in := range b.Instrs {
			if ci, ok := in.(ssa.CallInstruction); ok {
				if nameIn(CalleeName(ci.Common()), names) {
					out = append(out, ci)
				}
			}
		}
	}
	return out
}

// CallsInDeep is CallsIn over fn and its nested anonymous functions.
func CallsInDeep(fn *ssa.Function, names ...string) []ssa.CallInstruction {
	var out []ssa.CallInstruction
	for _, f := range WithAnon(fn) {
		out = append(out, CallsIn(f, names...)...)
	}
	return out
}

// AllCalls lists every call site in the given functions with one of the callee names.
func AllCalls(fns []*ssa.Function, names ...string) []ssa.CallInstruction {
	var out []ssa.CallInstruction
	for _, f := range fns {
		out = append(out, CallsIn(f, names...)...)
	}
	return out
}

// ---------------------------------------------------------------------------------------
// Constants and simple value helpers

func ConstString(v ssa.Value) (string, bool) {
	if c, ok := v.(*ssa.Const); ok && c.Value != nil && c.Value.Kind() == constant.String {
		return constant.StringVal(c.Value), true
	}
	return "", false
}

func ConstInt(v ssa.Value) (int64, bool) {
	if c, ok := v.(*ssa.Const); ok && c.Value != nil && c.Value.Kind() == constant.Int {
		i, ok := constant.Int64Val(c.Value)
		return i, ok
	}
	return 0, false
}

func ConstBool(v ssa.Value) (bool, bool) {
	if c, ok := v.(*ssa.Const); ok && c.Value != nil && c.Value.Kind() == constant.Bool {
		return constant.BoolVal(c.Value), true
	}
	return false, false
}

func IsNilConst(v ssa.Value) bool {
	c, ok := v.(*ssa.Const)
	return ok && c.Value == nil
}

// Unwrap strips value-preserving wrappers (conversions, interface boxing, slicing of the
// whole value, type changes).
func Unwrap(v ssa.Value) ssa.Value {
	for {
		switch x := v.(type) {
		case *ssa.Convert:
			v = x.X
		case *ssa.ChangeType:
			v = x.X
		case *ssa.MakeInterface:
			v = x.X
		case *ssa.ChangeInterface:
			v = x.X
		case *ssa.Slice:
			if x.Low == nil && x.High == nil && x.Max == nil {
				v = x.X
			} else {
				return v
			}
		default:
			return v
		}
	}
}

// SameValue reports whether a and b are the same SSA value modulo value-preserving wrappers,
// or two loads of the same address with no intervening analysis (conservative: same address
// value in the same block only when there is no store to it in between is NOT attempted;
// only identical values are equal) .
func SameValue(a, b ssa.Value) bool {
	a, b = Unwrap(a), Unwrap(b)
	if a == b {
		return true
	}
	// two constants with equal value
	ca, ok1 := a.(*ssa.Const)
	cb, ok2 := b.(*ssa.Const)
	if ok1 && ok2 && ca.Value != nil && cb.Value != nil {
		return constant.Compare(ca.Value, token.EQL, cb.Value)
	}
	// two loads of the same constant element of the same slice value that nobody writes into (`parts[1]` twice:
	// go/ssa does not share the loads)
	la, ok1 := a.(*ssa.UnOp)
	lb, ok2 := b.(*ssa.UnOp)
	if ok1 && ok2 && la.Op == token.MUL && lb.Op == token.MUL {
		ia, ok1 := la.X.(*ssa.IndexAddr)
		ib, ok2 := lb.X.(*ssa.IndexAddr)
		if ok1 && ok2 && ia.X == ib.X {
			ka, isA := ConstInt(ia.Index)
			kb, isB := ConstInt(ib.Index)
			if isA && isB && ka == kb {
				{
					if _, _, fromCall := CallResult(ia.X); fromCall {
						for _, r := range Referrers(ia.X) {
							if x, ok := r.(*ssa.IndexAddr); ok {
								for _, rr := range Referrers(x) {
									if st, ok := rr.(*ssa.Store); ok && st.Addr == ssa.Value(x) {
										return false
									}
								}
							}
						}
						return true
					}
				}
			}
		}
	}
	return false
}

// FieldOf: if v is a load of a struct field (through FieldAddr+UnOp or Field), return the
// struct type's name ("pkg.T"), the field name and the base value.
func FieldOf(v ssa.Value) (typ, field string, base ssa.Value, ok bool) {
	v = Unwrap(v)
	switch x := v.(type) {
	case *ssa.UnOp:
		if x.Op == token.MUL {
			if fa, ok := x.X.(*ssa.FieldAddr); ok {
				t, f := fieldAddrName(fa)
				return t, f, fa.X, true
			}
		}
	case *ssa.Field:
		st := x.X.Type()
		t := typeName(st)
		s, _ := st.Underlying().(*types.Struct)
		if s != nil {
			return t, s.Field(x.Field).Name(), x.X, true
		}
	}
	return "", "", nil, false
}

func fieldAddrName(fa *ssa.FieldAddr) (string, string) {
	pt, _ := fa.X.Type().Underlying().(*types.Pointer)
	if pt == nil {
		return "", ""
	}
	s, _ := pt.Elem().Underlying().(*types.Struct)
	if s == nil {
		return "", ""
	}
	return typeName(pt.Elem()), s.Field(fa.Field).Name()
}

func typeName(t types.Type) string {
	if p, ok := t.(*types.Pointer); ok {
		t = p.Elem()
	}
	if n, ok := t.(*types.Named); ok {
		if n.Obj().Pkg() != nil {
			return short(n.Obj().Pkg().Path()) + "." + n.Obj().Name()
		}
		return n.Obj().Name()
	}
	return short(t.String())
}

// IsLoadOfField reports whether v loads field `field` of a struct type named typ ("tq.Transfer").
func IsLoadOfField(v ssa.Value, typ, field string) bool {
	t, f, _, ok := FieldOf(v)
	return ok && t == typ && f == field
}

// ---------------------------------------------------------------------------------------
// CFG reachability with cut edges (engine GUARD)

// Edge is the i-th successor edge of a block.
type Edge struct {
	From *ssa.BasicBlock
	Succ int
}

func (e Edge) To() *ssa.BasicBlock { return e.From.Succs[e.Succ] }

func (e Edge) String() string {
	return fmt.Sprintf("b%d->b%d", e.From.Index, e.To().Index)
}

// NoReturn decides whether an instruction ends the path (call to a function that never returns).
type NoReturn func(in ssa.Instruction) bool

// ReachBlocks computes the blocks reachable from `from` (inclusive) without crossing cut
// edges; a block containing a no-return call ends the path (its successors are not followed
// and instructions after the call are not reachable). The result maps block -> true.
func ReachBlocks(from *ssa.BasicBlock, cut map[Edge]bool, nr NoReturn) map[*ssa.BasicBlock]bool {
	seen := map[*ssa.BasicBlock]bool{}
	var stack []*ssa.BasicBlock
	stack = append(stack, from)
	seen[from] = true
	for len(stack) > 0 {
		b := stack[len(stack)-1]
		stack = stack[:len(stack)-1]
		if nr != nil && blockEndsInNoReturn(b, nr) {
			continue
		}
		for i, s := range b.Succs {
			if cut[Edge{b, i}] {
				continue
			}
			if !seen[s] {
				seen[s] = true
				stack = append(stack, s)
			}
		}
	}
	return seen
}

func blockEndsInNoReturn(b *ssa.BasicBlock, nr NoReturn) bool {
	for _, in := range b.Instrs {
		if nr(in) {
			return true
		}
	}
	return false
}

// InstrReachable: is instruction `sink` reachable from the start of block `from` when the
// cut edges are removed? (Position inside blocks: a no-return call before sink in sink's own
// block makes it unreachable.)
// InstrReachable: is there a feasible path from the start of `from` to sink that takes none of the cut edges?
// (block-graph reachability first, then the path exploration of paths.go to discard ways that contradict
// themselves, e.g. `err` non-nil on the way in and nil at the next test)
func InstrReachable(from *ssa.BasicBlock, sink ssa.Instruction, cut map[Edge]bool, nr NoReturn) bool {
	if !instrReachableStatic(from, sink, cut, nr) {
		return false
	}
	hit := false
	before := ExploreOverflow
	ExploreOverflow = false
	oldHook := dynCutHook
	dynCutHook = nil
	oldOnly := exploreOnly
	exploreOnly = canReach(sink.Block())
	ExploreX(from, nil, nil, nr, cut, nil, func(in ssa.Instruction, st PState) bool {
		if in == sink {
			hit = true
		}
		return !hit
	})
	exploreOnly = oldOnly
	dynCutHook = oldHook
	over := ExploreOverflow
	ExploreOverflow = before || over
	return hit || over
}

func instrReachableStatic(from *ssa.BasicBlock, sink ssa.Instruction, cut map[Edge]bool, nr NoReturn) bool {
	r := ReachBlocks(from, cut, nr)
	sb := sink.Block()
	if !r[sb] {
		return false
	}
	if nr != nil {
		for _, in := range sb.Instrs {
			if in == sink {
				break
			}
			if nr(in) {
				return false
			}
		}
	}
	return true
}

// PathTo returns one block path from `from` to `to` avoiding cut edges (for diagnostics).
func PathTo(from, to *ssa.BasicBlock, cut map[Edge]bool) []*ssa.BasicBlock {
	prev := map[*ssa.BasicBlock]*ssa.BasicBlock{from: nil}
	q := []*ssa.BasicBlock{from}
	for len(q) > 0 {
		b := q[0]
		q = q[1:]
		if b == to {
			var p []*ssa.BasicBlock
			for x := to; x != nil; x = prev[x] {
				p = append([]*ssa.BasicBlock{x}, p...)
			}
			return p
		}
		for i, s := range b.Succs {
			if cut[Edge{b, i}] {
				continue
			}
			if _, ok := prev[s]; !ok {
				prev[s] = b
				q = append(q, s)
			}
		}
	}
	return nil
}

func PathString(p []*ssa.BasicBlock) string {
	var s []string
	for _, b := range p {
		c := b.Comment
		if c != "" {
			c = "(" + c + ")"
		}
		s = append(s, fmt.Sprintf("b%d%s", b.Index, c))
	}
	return strings.Join(s, " -> ")
}

// CondMatch inspects a branch condition (negations already stripped) and says whether it is
// the check of interest and, if so, on which outcome (cond true / cond false) the check is
// *passed*.
type CondMatch func(cond ssa.Value) (passWhen bool, ok bool)

// stripNot removes logical negations, returning the inner value and whether polarity flipped.
func stripNot(v ssa.Value) (ssa.Value, bool) {
	flip := false
	for {
		u, ok := v.(*ssa.UnOp)
		if !ok || u.Op != token.NOT {
			return v, flip
		}
		v = u.X
		flip = !flip
	}
}

// PassEdges returns, for every `If` in fn whose condition matches, the edge taken when the
// check passes.
// passMatchers remembers, for every edge list PassEdges handed out, the matcher that produced it (keyed by the
// address of the list's first slot), so that Guarded can apply the same matcher to conditions whose φ-operands
// are resolved along a concrete path.
var passMatchers = map[*Edge]CondMatch{}

// dynUsed counts, per edge list, how often Guarded found a justifying branch only after resolving φ-operands
// along a path (such a branch is not in the static list).
var dynUsed = map[*Edge]int{}

// nonVacuous: the guard exists (statically, or as a branch recognised along a path).
func nonVacuous(pass []Edge) bool {
	if len(pass) > 0 {
		return true
	}
	return cap(pass) > 0 && dynUsed[&pass[:1][0]] > 0
}

func matcherOf(pass []Edge) CondMatch {
	if cap(pass) == 0 {
		return nil
	}
	return passMatchers[&pass[:1][0]]
}

func PassEdges(fn *ssa.Function, m CondMatch) []Edge {
	out := make([]Edge, 0, 4)
	defer func() { passMatchers[&out[:1][0]] = m }()
	for _, b := range fn.Blocks {
		ifi, ok := lastInstr(b).(*ssa.If)
		if !ok {
			continue
		}
		cond, flip := stripNot(ifi.Cond)
		passWhen, ok := m(cond)
		if !ok {
			// `case a && b:` and `x := a && b; if x` evaluate the condition as a value: a φ of the constant
			// false (a failed) and b. Taking the true edge then means b was evaluated and true (dually for ||).
			if ph, isPhi := cond.(*ssa.Phi); isPhi {
				if pw, ok2 := phiCond(ph, m); ok2 {
					passWhen, ok = pw, true
				}
			}
			if !ok {
				continue
			}
		}
		if flip {
			passWhen = !passWhen
		}
		if passWhen {
			out = append(out, Edge{b, 0})
		} else {
			out = append(out, Edge{b, 1})
		}
	}
	return out
}

// phiCond: ph is a boolean φ used as a branch condition. If every incoming value other than the constant
// false is a matched condition that passes when true, the branch passes when ph is true; if every incoming
// value other than the constant true is a matched condition that passes when false, it passes when ph is false.
func phiCond(ph *ssa.Phi, m CondMatch) (passWhen bool, ok bool) {
	return phiCondSeen(ph, m, map[*ssa.Phi]bool{})
}

func phiCondSeen(ph *ssa.Phi, m CondMatch, seen map[*ssa.Phi]bool) (passWhen bool, ok bool) {
	if seen[ph] || len(seen) > 6 {
		return false, false
	}
	seen[ph] = true
	try := func(want bool) bool {
		n := 0
		for i, e := range ph.Edges {
			if bv, isC := ConstBool(e); isC {
				if bv == want {
					// the constant makes ph == want: acceptable only if arriving with it is itself a passed
					// test (the short-circuit operand: `a && b` is false because a is false)
					if i >= len(ph.Block().Preds) {
						return false
					}
					pb := ph.Block().Preds[i]
					ifi, isIf := lastInstr(pb).(*ssa.If)
					if !isIf || len(pb.Succs) != 2 || pb.Succs[0] == pb.Succs[1] {
						return false
					}
					k := 1
					if pb.Succs[0] == ph.Block() {
						k = 0
					}
					c, flip := stripNot(ifi.Cond)
					pw, mok := m(c)
					if !mok {
						return false
					}
					if flip {
						pw = !pw
					}
					if pw != (k == 0) {
						return false
					}
					n++
				}
				continue
			}
			c, flip := stripNot(e)
			var pw, mok bool
			if inner, isPhi := c.(*ssa.Phi); isPhi && inner != ph {
				pw, mok = phiCondSeen(inner, m, seen)
			} else {
				pw, mok = m(c)
			}
			if !mok {
				return false
			}
			if flip {
				pw = !pw
			}
			if pw != want {
				return false
			}
			n++
		}
		return n > 0
	}
	if try(true) {
		return true, true
	}
	if try(false) {
		return false, true
	}
	return false, false
}

func lastInstr(b *ssa.BasicBlock) ssa.Instruction {
	if len(b.Instrs) == 0 {
		return nil
	}
	return b.Instrs[len(b.Instrs)-1]
}

func EdgeSet(es ...[]Edge) map[Edge]bool {
	m := map[Edge]bool{}
	for _, l := range es {
		for _, e := range l {
			m[e] = true
		}
	}
	return m
}

// Guarded reports whether every path from `from` to sink crosses one of the pass edges.
// It returns a witness path when not.
func Guarded(from *ssa.BasicBlock, sink ssa.Instruction, pass []Edge, nr NoReturn) (bool, string) {
	cut := EdgeSet(pass)
	if !instrReachableStatic(from, sink, cut, nr) {
		return true, ""
	}
	// The block graph offers a way round the justifying edges; is one of those ways feasible? (branches on the
	// same value go the same way, nil-ness learnt from an earlier test holds later — see paths.go)
	hit := false
	before := ExploreOverflow
	ExploreOverflow = false
	if m := matcherOf(pass); m != nil {
		oldHook := dynCutHook
		dynCutHook = func(b *ssa.BasicBlock, idx int, st PState) bool {
			ifi, ok := lastInstr(b).(*ssa.If)
			if !ok {
				return false
			}
			rc := ResolveCond(ifi.Cond, st, 0)
			if rc == ifi.Cond {
				return false
			}
			cond, flip := stripNot(rc)
			passWhen, ok := m(cond)
			if !ok {
				return false
			}
			if flip {
				passWhen = !passWhen
			}
			if (idx == 0) == passWhen {
				dynUsed[&pass[:1][0]]++
				return true
			}
			return false
		}
		defer func() { dynCutHook = oldHook }()
	}
	oldOnly := exploreOnly
	exploreOnly = canReach(sink.Block())
	ExploreX(from, nil, nil, nr, cut, nil, func(in ssa.Instruction, st PState) bool {
		if in == sink {
			hit = true
		}
		return !hit
	})
	exploreOnly = oldOnly
	over := ExploreOverflow
	ExploreOverflow = before || over
	if !hit && !over {
		return true, ""
	}
	return false, PathString(PathTo(from, sink.Block(), cut))
}

// ---------------------------------------------------------------------------------------
// Comparison recognisers used by CondMatch functions

// BinCmp decomposes v as a comparison X op Y.
func BinCmp(v ssa.Value) (op token.Token, x, y ssa.Value, ok bool) {
	b, isb := v.(*ssa.BinOp)
	if !isb {
		return 0, nil, nil, false
	}
	switch b.Op {
	case token.EQL, token.NEQ, token.LSS, token.LEQ, token.GTR, token.GEQ:
		return b.Op, b.X, b.Y, true
	}
	return 0, nil, nil, false
}

// IsErrNilCheck: cond is `e != nil` or `e == nil` over value e; returns e and whether the
// condition being true means "e is nil".
func IsErrNilCheck(cond ssa.Value) (e ssa.Value, trueMeansNil bool, ok bool) {
	op, x, y, ok := BinCmp(cond)
	if !ok || (op != token.EQL && op != token.NEQ) {
		return nil, false, false
	}
	if IsNilConst(y) {
		return x, op == token.EQL, true
	}
	if IsNilConst(x) {
		return y, op == token.EQL, true
	}
	return nil, false, false
}

// CallResult: if v is (an Extract of) the result of a call, return the call and the result index.
func CallResult(v ssa.Value) (*ssa.Call, int, bool) {
	v = Unwrap(v)
	switch x := v.(type) {
	case *ssa.Call:
		return x, 0, true
	case *ssa.Extract:
		if c, ok := x.Tuple.(*ssa.Call); ok {
			return c, x.Index, true
		}
	}
	return nil, 0, false
}

// CallResultFlat is CallResult with results that are small unexported structs (flatWidth) counted by their fields:
// for `func f() (T{a, b, c}, error)` the value `res.b` of `res, err := f()` is component 1 and err component 3 — the
// same numbers the separate results `a, b, c, err` would have.
func CallResultFlat(v ssa.Value) (*ssa.Call, int, bool) {
	v = Unwrap(v)
	field := -1
	if f, ok := v.(*ssa.Field); ok {
		field = f.Field
		v = Unwrap(f.X)
	} else if ld, ok := v.(*ssa.UnOp); ok && ld.Op == token.MUL {
		// a local struct variable lives in a cell: `res, err = f()` stores the struct, `res.b` loads a field of it
		if fa, ok := ld.X.(*ssa.FieldAddr); ok {
			if al, ok := fa.X.(*ssa.Alloc); ok {
				var stored ssa.Value
				n := 0
				for _, r := range Referrers(al) {
					if st, ok := r.(*ssa.Store); ok && st.Addr == ssa.Value(al) {
						stored = st.Val
						n++
					}
				}
				if n == 1 {
					field = fa.Field
					v = Unwrap(stored)
				}
			}
		}
	}
	call, idx, ok := CallResult(v)
	if !ok {
		return nil, 0, false
	}
	res := call.Call.Signature().Results()
	if idx >= res.Len() {
		return nil, 0, false
	}
	off := 0
	for j := 0; j < idx; j++ {
		off += flatWidth(res.At(j).Type())
	}
	if field >= 0 {
		if flatWidth(res.At(idx).Type()) <= 1 || field >= flatWidth(res.At(idx).Type()) {
			return nil, 0, false
		}
		return call, off + field, true
	}
	return call, off, true
}

// IsResultOf reports whether v is a result of a call to one of the named callees.
func IsResultOf(v ssa.Value, names ...string) (*ssa.Call, bool) {
	c, _, ok := CallResult(v)
	if !ok {
		return nil, false
	}
	if nameIn(CalleeName(c.Common()), names) {
		return c, true
	}
	return nil, false
}

// ---------------------------------------------------------------------------------------
// Misc

// Dominates reports whether block a dominates block b.
func Dominates(a, b *ssa.BasicBlock) bool { return a.Dominates(b) }

// InstrIndex returns the index of in in its block.
func InstrIndex(in ssa.Instruction) int {
	for i, x := range in.Block().Instrs {
		if x == in {
			return i
		}
	}
	return -1
}

// Referrers returns the instructions using v (nil-safe).
func Referrers(v ssa.Value) []ssa.Instruction {
	if r := v.Referrers(); r != nil {
		return *r
	}
	return nil
}

// SortedKeys returns sorted keys of a string-keyed bool map.
func SortedKeys(m map[string]bool) []string {
	var k []string
	for s := range m {
		k = append(k, s)
	}
	sort.Strings(k)
	return k
}

// ReturnsOf lists the Return instructions of fn.
func ReturnsOf(fn *ssa.Function) []*ssa.Return {
	var out []*ssa.Return
	for _, b := range fn.Blocks {
		if r, ok := lastInstr(b).(*ssa.Return); ok {
			out = append(out, r)
		}
	}
	return out
}

// SameVar: a and b denote the same variable: identical SSA values, or loads of the same
// local cell (Alloc) that is stored exactly once (a parameter spilled because a closure
// captures it).
func SameVar(a, b ssa.Value) bool {
	a, b = Unwrap(a), Unwrap(b)
	if a == b {
		return true
	}
	ca, cb := spilledCell(a), spilledCell(b)
	if ca != nil && cb != nil && ca == cb {
		return true
	}
	// one is the parameter itself, the other a load of its spill cell
	if ca != nil && cb == nil && cellInit(ca) == b {
		return true
	}
	if cb != nil && ca == nil && cellInit(cb) == a {
		return true
	}
	return false
}

func spilledCell(v ssa.Value) *ssa.Alloc {
	u, ok := v.(*ssa.UnOp)
	if !ok || u.Op != token.MUL {
		return nil
	}
	al, ok := u.X.(*ssa.Alloc)
	if !ok {
		if fv, ok := u.X.(*ssa.FreeVar); ok {
			_ = fv
		}
		return nil
	}
	if cellInit(al) == nil {
		return nil
	}
	return al
}

// cellInit returns the single value stored into the cell, or nil when it is stored more than once.
func cellInit(al *ssa.Alloc) ssa.Value {
	var v ssa.Value
	n := 0
	for _, r := range Referrers(al) {
		if st, ok := r.(*ssa.Store); ok && st.Addr == al {
			n++
			v = st.Val
		}
	}
	if n == 1 {
		return v
	}
	return nil
}

// ReachingDefs returns the values that may have been stored into the local cell read by
// `load` (a *ssa.UnOp load of an *ssa.Alloc), by a backward walk over the CFG.
func ReachingDefs(load ssa.Value) []ssa.Value {
	u, ok := load.(*ssa.UnOp)
	if !ok || u.Op != token.MUL {
		return nil
	}
	al, ok := u.X.(*ssa.Alloc)
	if !ok {
		return nil
	}
	var out []ssa.Value
	seenV := map[ssa.Value]bool{}
	seenB := map[*ssa.BasicBlock]bool{}
	var walk func(b *ssa.BasicBlock, from int)
	walk = func(b *ssa.BasicBlock, from int) {
		for i := from; i >= 0; i-- {
			if st, ok := b.Instrs[i].(*ssa.Store); ok && st.Addr == ssa.Value(al) {
				if !seenV[st.Val] {
					seenV[st.Val] = true
					out = append(out, st.Val)
				}
				return
			}
		}
		for _, p := range b.Preds {
			if seenB[p] {
				continue
			}
			seenB[p] = true
			walk(p, len(p.Instrs)-1)
		}
	}
	walk(u.Block(), InstrIndex(u)-1)
	return out
}

// ResultOfCall reports whether v is result #idx of call, directly or through a local cell all
// of whose reaching definitions are that result.
func ResultOfCall(v ssa.Value, call *ssa.Call, idx int) bool {
	v = Unwrap(v)
	if c, i, ok := CallResult(v); ok && c == call && (i == idx || call.Call.Signature().Results().Len() == 1) {
		return true
	}
	defs := ReachingDefs(v)
	if len(defs) == 0 {
		return false
	}
	for _, d := range defs {
		if c, i, ok := CallResult(d); !ok || c != call || !(i == idx || call.Call.Signature().Results().Len() == 1) {
			return false
		}
	}
	return true
}

// ReturnValues gives the values result #idx of return r may carry. With deferred calls
// go/ssa spills results into cells and returns a load; the reaching stores are followed.
func ReturnValues(r *ssa.Return, idx int) []ssa.Value {
	if idx < 0 {
		idx = len(r.Results) + idx
	}
	v := r.Results[idx]
	if defs := ReachingDefs(v); len(defs) > 0 {
		return defs
	}
	return []ssa.Value{v}
}

// SamePath: a and b denote the same access path (same variable, or the same chain of field
// loads from the same variable).
func SamePath(a, b ssa.Value) bool {
	if SameVar(a, b) {
		return true
	}
	t1, f1, b1, ok1 := FieldOf(a)
	t2, f2, b2, ok2 := FieldOf(b)
	if ok1 && ok2 && t1 == t2 && f1 == f2 {
		return SamePath(b1, b2)
	}
	return false
}

// RPO returns the blocks of fn in reverse post-order (a topological order when back edges are ignored).
func RPO(fn *ssa.Function) []*ssa.BasicBlock {
	seen := map[*ssa.BasicBlock]bool{}
	var post []*ssa.BasicBlock
	var dfs func(b *ssa.BasicBlock)
	dfs = func(b *ssa.BasicBlock) {
		seen[b] = true
		for _, s := range b.Succs {
			if !seen[s] {
				dfs(s)
			}
		}
		post = append(post, b)
	}
	if len(fn.Blocks) > 0 {
		dfs(fn.Blocks[0])
	}
	for i, j := 0, len(post)-1; i < j; i, j = i+1, j-1 {
		post[i], post[j] = post[j], post[i]
	}
	return post
}

// ImpliedCond is an atomic condition known to have a given outcome once a branch edge is taken.
type ImpliedCond struct {
	Cond ssa.Value
	Val  bool
}

// ImpliedConds lists what taking the `outcome` edge of a branch on cond says about atomic conditions: negations
// are peeled off, and a boolean φ produced by `a && b` / `a || b` evaluated as a value (case clauses, flag
// variables) is looked through: φ(false, b) being true means b was evaluated and true.
func ImpliedConds(cond ssa.Value, outcome bool) []ImpliedCond {
	return impliedConds(cond, outcome, 0)
}

func impliedConds(cond ssa.Value, outcome bool, depth int) []ImpliedCond {
	c, flip := stripNot(cond)
	if flip {
		outcome = !outcome
	}
	ph, ok := c.(*ssa.Phi)
	if !ok || depth > 3 {
		return []ImpliedCond{{c, outcome}}
	}
	var nonConst []ssa.Value
	var nonConstPred *ssa.BasicBlock
	var constPreds []*ssa.BasicBlock
	for i, e := range ph.Edges {
		if bv, isC := ConstBool(e); isC {
			if bv == outcome {
				return []ImpliedCond{{c, outcome}} // the constant alone explains the outcome
			}
			if i < len(ph.Block().Preds) {
				constPreds = append(constPreds, ph.Block().Preds[i])
			}
			continue
		}
		nonConst = append(nonConst, e)
		if i < len(ph.Block().Preds) {
			nonConstPred = ph.Block().Preds[i]
		}
	}
	if len(nonConst) != 1 {
		return []ImpliedCond{{c, outcome}}
	}
	// the φ itself is explained by its operands on this outcome and is not listed
	var out []ImpliedCond
	// the short-circuit tests that were skipped over: `a && b` as a value is φ(false from a's block, b); the
	// φ being true means control did not come from a's block directly, so a went the other way
	for _, pb := range constPreds {
		ifi, ok := lastInstr(pb).(*ssa.If)
		if !ok || len(pb.Succs) != 2 || nonConstPred == nil {
			continue
		}
		k := -1
		for si, s := range pb.Succs {
			if s == ph.Block() {
				k = si
			}
		}
		if k < 0 || pb.Succs[0] == pb.Succs[1] {
			continue
		}
		other := pb.Succs[1-k]
		if other == nonConstPred || other.Dominates(nonConstPred) {
			out = append(out, impliedConds(ifi.Cond, k != 0, depth+1)...)
		}
	}
	return append(out, impliedConds(nonConst[0], outcome, depth+1)...)
}

// GuardedWhen is Guarded restricted to the arrivals at sink that matter: when(st) is asked, with the facts of the
// path, whether this arrival is one the rule is about (e.g. "the request returned here is not nil").
func GuardedWhen(from *ssa.BasicBlock, sink ssa.Instruction, pass []Edge, nr NoReturn, when func(st PState) bool) (bool, string) {
	cut := EdgeSet(pass)
	if !instrReachableStatic(from, sink, cut, nr) {
		return true, ""
	}
	hit := false
	before := ExploreOverflow
	ExploreOverflow = false
	oldOnly := exploreOnly
	exploreOnly = canReach(sink.Block())
	ExploreX(from, nil, nil, nr, cut, nil, func(in ssa.Instruction, st PState) bool {
		if in == sink && when(st) {
			hit = true
		}
		return !hit
	})
	exploreOnly = oldOnly
	over := ExploreOverflow
	ExploreOverflow = before || over
	if !hit && !over {
		return true, ""
	}
	return false, PathString(PathTo(from, sink.Block(), cut))
}

// ---- results returned as a small struct instead of several values ---------------------------------------------

// flatFields: the component types a result of type t contributes when small private structs are flattened.
func flatWidth(t types.Type) int {
	if nt, ok := t.(*types.Named); ok {
		if st, ok := nt.Underlying().(*types.Struct); ok && !nt.Obj().Exported() && st.NumFields() > 0 && st.NumFields() <= 4 {
			return st.NumFields()
		}
	}
	return 1
}

// ResultComponents lists what a return hands back, with a result that is a small unexported struct built on the
// spot (composite literal) replaced by its field values, so that `return T{a, b}, err` reads like `return a, b, err`.
func ResultComponents(r *ssa.Return) []ssa.Value {
	var out []ssa.Value
	for _, v := range r.Results {
		w := flatWidth(v.Type())
		if w == 1 {
			out = append(out, v)
			continue
		}
		fields := make([]ssa.Value, w)
		found := 0
		if ld, ok := v.(*ssa.UnOp); ok && ld.Op == token.MUL {
			if al, ok := ld.X.(*ssa.Alloc); ok {
				for _, ref := range Referrers(al) {
					if fa, ok := ref.(*ssa.FieldAddr); ok && fa.Field < w {
						for _, rr := range Referrers(fa) {
							if st, ok := rr.(*ssa.Store); ok && st.Addr == ssa.Value(fa) && (st.Block() == r.Block() || st.Block().Dominates(r.Block())) {
								fields[fa.Field] = st.Val
								found++
							}
						}
					}
				}
				// fields never stored hold the zero value
				if st, ok := al.Type().Underlying().(*types.Pointer).Elem().Underlying().(*types.Struct); ok {
					for i := 0; i < w; i++ {
						if fields[i] == nil {
							fields[i] = zeroConst(st.Field(i).Type())
						}
					}
				}
			}
		}
		if c, ok := v.(*ssa.Const); ok && c.Value == nil {
			if st, ok := v.Type().Underlying().(*types.Struct); ok {
				for i := 0; i < w; i++ {
					fields[i] = zeroConst(st.Field(i).Type())
				}
			}
		}
		complete := true
		for _, f := range fields {
			if f == nil {
				complete = false
			}
		}
		if !complete {
			out = append(out, v)
			for i := 1; i < w; i++ {
				out = append(out, v)
			}
			continue
		}
		out = append(out, fields...)
	}
	return out
}

func zeroConst(t types.Type) ssa.Value {
	if b, ok := t.Underlying().(*types.Basic); ok {
		switch {
		case b.Info()&types.IsBoolean != 0:
			return ssa.NewConst(constant.MakeBool(false), t)
		case b.Info()&types.IsString != 0:
			return ssa.NewConst(constant.MakeString(""), t)
		case b.Info()&types.IsInteger != 0:
			return ssa.NewConst(constant.MakeInt64(0), t)
		}
	}
	return ssa.NewConst(nil, t)
}

// CallComponent: v is the idx-th component of call's results, counting the fields of a small unexported struct
// result as components of their own (Extract #i of the tuple, or field j of the struct result).
func CallComponent(v ssa.Value, call *ssa.Call) (int, bool) {
	sig := call.Call.Signature()
	if sig == nil {
		return 0, false
	}
	offset := func(i int) int {
		o := 0
		for k := 0; k < i && k < sig.Results().Len(); k++ {
			o += flatWidth(sig.Results().At(k).Type())
		}
		return o
	}
	tupleIdx := func(x ssa.Value) (int, bool) {
		if x == ssa.Value(call) && sig.Results().Len() == 1 {
			return 0, true
		}
		if ex, ok := x.(*ssa.Extract); ok && ex.Tuple == ssa.Value(call) {
			return ex.Index, true
		}
		return 0, false
	}
	if i, ok := tupleIdx(v); ok {
		return offset(i), true
	}
	if f, ok := v.(*ssa.Field); ok {
		if i, ok := tupleIdx(f.X); ok {
			return offset(i) + f.Field, true
		}
	}
	// the struct was stored into a local first: load of a field address of a cell holding the result
	if ld, ok := v.(*ssa.UnOp); ok && ld.Op == token.MUL {
		if fa, ok := ld.X.(*ssa.FieldAddr); ok {
			if al, ok := fa.X.(*ssa.Alloc); ok {
				for _, ref := range Referrers(al) {
					if st, ok := ref.(*ssa.Store); ok && st.Addr == ssa.Value(al) {
						if i, ok := tupleIdx(st.Val); ok {
							return offset(i) + fa.Field, true
						}
					}
				}
			}
		}
	}
	return 0, false
}


// GuardedArrivals: the ways an interesting value can become result idx of return r — directly, or through φ-nodes
// of a merged return (named results, `return x` at the end) — each lie behind a pass edge: for a φ-edge, that edge
// itself is a pass edge or every path to its predecessor crosses one. It returns the number of interesting
// arrivals and, if one is unguarded, a description.
func GuardedArrivals(fn *ssa.Function, r *ssa.Return, idx int, interesting func(ssa.Value) bool, pass []Edge, nr NoReturn) (n int, ok bool, where string) {
	ok = true
	if idx >= len(r.Results) {
		return 0, true, ""
	}
	passSet := EdgeSet(pass)
	var visit func(v ssa.Value, guard func() (bool, string), d int)
	visit = func(v ssa.Value, guard func() (bool, string), d int) {
		if ph, isPhi := v.(*ssa.Phi); isPhi && d < 5 {
			for i, e := range ph.Edges {
				if i >= len(ph.Block().Preds) {
					continue
				}
				pb := ph.Block().Preds[i]
				blk := ph.Block()
				visit(e, func() (bool, string) {
					for si, sb := range pb.Succs {
						if sb == blk && passSet[Edge{pb, si}] {
							return true, ""
						}
					}
					return Guarded(fn.Blocks[0], lastInstr(pb), pass, nr)
				}, d+1)
			}
			return
		}
		if !interesting(v) {
			return
		}
		n++
		if g, w := guard(); !g {
			ok, where = false, w
		}
	}
	visit(r.Results[idx], func() (bool, string) { return Guarded(fn.Blocks[0], r, pass, nr) }, 0)
	return n, ok, where
}
