package main

import (
	"go/constant"
	"go/token"
	"go/types"
	"strings"

	"golang.org/x/tools/go/ssa"
)

// Engine FLOW: backward value provenance over SSA def-use.
//
// Walk visits v and everything v may derive from. The visitor decides per value whether to
// descend further. Values at which descent stops on its own (parameters, constants, opaque
// calls, globals, allocations without stores, free variables without binding) are "leaves".

type FlowAct int

const (
	Descend FlowAct = iota // keep walking into the operands
	Stop                   // treat as a leaf, do not look behind it
)

type Flow struct {
	P        *Prog
	MaxCalls int // how many repo-function returns may be followed on one path (default 3)
	Fields   bool
	// PassThrough: callees whose result derives from their arguments (path helpers etc.).
	seen map[ssa.Value]bool
}

// passThroughCallees: result derives from (some of) the arguments.
var passThroughPrefixes = []string{
	"path/filepath.", "path.", "strings.", "fmt.Sprint", "fmt.Errorf", "bytes.", "io.MultiReader", "io.MultiWriter", "io.TeeReader",
	"io.LimitReader", "bufio.New", "net/url.", "(*net/url.URL).", "strconv.", "(*strings.", "(*bytes.", "os.ExpandEnv",
	"tools.ExpandPath", "tools.ExpandConfigPath", "tools.ResolveSymlinks", "tools.CanonicalizePath", "tools.CanonicalizeSystemPath", "tools.TrimCurrentPrefix",
	"io.NopCloser", "errors.Wrap", "errors.New", "io.NewSectionReader", "tools.NewRetriableReader", "tools.NewBodyWithCallback",
	"tools.NewHashingReader", "(*os.File).Name", "(*github.com/leonelquinteros/gotext.Locale).Get", "errors.Errorf", "errors.Wrapf", "(time.Time).", "(*net/http.Request).WithContext", "(*net/http.Request).Clone", "context.WithValue", "tools.Undent", "tools.Indent",
}

func isPassThrough(name string) bool {
	for _, p := range passThroughPrefixes {
		if strings.HasPrefix(name, p) {
			return true
		}
	}
	return false
}

// Leaves returns the leaf values v may derive from. visit (may be nil) is called on every
// value reached, before descending; returning Stop makes that value a leaf.
func (p *Prog) Leaves(v ssa.Value, visit func(ssa.Value) FlowAct) []ssa.Value {
	f := &flowWalk{p: p, seen: map[ssa.Value]bool{}, visit: visit, fields: true}
	f.walk(v, 5, nil)
	return f.leaves
}

// LeavesNoFields is Leaves without following struct-field stores program-wide.
func (p *Prog) LeavesNoFields(v ssa.Value, visit func(ssa.Value) FlowAct) []ssa.Value {
	f := &flowWalk{p: p, seen: map[ssa.Value]bool{}, visit: visit, fields: false}
	f.walk(v, 5, nil)
	return f.leaves
}

// LeavesUp is LeavesNoFields that, at a parameter of an unexported function which is only ever called directly,
// continues with the arguments its callers pass (a value threaded through a helper or moved to the caller).
func (p *Prog) LeavesUp(v ssa.Value, visit func(ssa.Value) FlowAct) []ssa.Value {
	f := &flowWalk{p: p, seen: map[ssa.Value]bool{}, visit: visit, fields: false, ascend: true}
	f.walk(v, 5, nil)
	return f.leaves
}

type callCtx struct {
	call   *ssa.CallCommon
	parent *callCtx
}

type flowWalk struct {
	p       *Prog
	seen    map[ssa.Value]bool
	visit   func(ssa.Value) FlowAct
	leaves  []ssa.Value
	fields  bool
	ascents int
	ascend  bool // follow parameters of private, only-directly-called functions to their callers' arguments
}

func (f *flowWalk) leaf(v ssa.Value) { f.leaves = append(f.leaves, v) }

func (f *flowWalk) walk(v ssa.Value, calls int, ctx *callCtx) {
	if v == nil {
		return
	}
	if f.seen[v] {
		return
	}
	f.seen[v] = true
	if f.visit != nil && f.visit(v) == Stop {
		f.leaf(v)
		return
	}
	switch x := v.(type) {
	case *ssa.Const, *ssa.Global, *ssa.Builtin, *ssa.Function:
		f.leaf(v)
	case *ssa.Parameter:
		// context-sensitive when we came through a call
		if ctx != nil {
			fn := x.Parent()
			for i, prm := range fn.Params {
				if prm == x {
					args := ctx.call.Args
					if ctx.call.IsInvoke() {
						args = append([]ssa.Value{ctx.call.Value}, ctx.call.Args...)
					}
					if i < len(args) {
						// leave the callee context
						delete(f.seen, args[i]) // argument may have been seen in caller context; revisit is harmless
						f.walk(args[i], calls, ctx.parent)
						return
					}
				}
			}
		}
		// no calling context: a parameter of a private function that is only ever called directly stands for
		// what its callers pass (value threaded through a helper); bounded, and only for unexported functions
		if f.ascend && ctx == nil && f.ascents < 3 && f.p != nil {
			if args := f.p.callerArgs(x); len(args) > 0 {
				f.ascents++
				for _, a := range args {
					f.walk(a, calls, nil)
				}
				f.ascents--
				return
			}
		}
		f.leaf(v)
	case *ssa.FreeVar:
		// find binding in the MakeClosure of the parent
		fn := x.Parent()
		idx := -1
		for i, fv := range fn.FreeVars {
			if fv == x {
				idx = i
			}
		}
		bound := false
		if fn.Parent() != nil && idx >= 0 {
			for _, b := range fn.Parent().Blocks {
				for _, in := range b.Instrs {
					if mc, ok := in.(*ssa.MakeClosure); ok && mc.Fn == fn && idx < len(mc.Bindings) {
						bound = true
						f.walk(mc.Bindings[idx], calls, nil)
					}
				}
			}
		}
		if !bound {
			f.leaf(v)
		}
	case *ssa.Phi:
		for i, e := range x.Edges {
			if errorPathEdge(x, i) {
				continue // the zero value that accompanies a non-nil error: never used (see errorPathEdge)
			}
			f.walk(e, calls, ctx)
		}
	case *ssa.Extract:
		f.walkCallResult(x.Tuple, x.Index, calls, ctx, v)
	case *ssa.Call:
		f.walkCallResult(x, 0, calls, ctx, v)
	case *ssa.Convert:
		f.walk(x.X, calls, ctx)
	case *ssa.ChangeType:
		f.walk(x.X, calls, ctx)
	case *ssa.ChangeInterface:
		f.walk(x.X, calls, ctx)
	case *ssa.MakeInterface:
		f.walk(x.X, calls, ctx)
	case *ssa.TypeAssert:
		f.walk(x.X, calls, ctx)
	case *ssa.Slice:
		f.walk(x.X, calls, ctx)
	case *ssa.SliceToArrayPointer:
		f.walk(x.X, calls, ctx)
	case *ssa.Index:
		f.walk(x.X, calls, ctx)
	case *ssa.Lookup:
		f.walk(x.X, calls, ctx)
	case *ssa.Field:
		if f.fields {
			f.fieldStores(x.X.Type(), x.Field, calls)
		}
		f.walk(x.X, calls, ctx)
	case *ssa.BinOp:
		f.walk(x.X, calls, ctx)
		f.walk(x.Y, calls, ctx)
	case *ssa.UnOp:
		if x.Op == token.MUL {
			f.walkLoad(x.X, calls, ctx)
		} else if x.Op == token.ARROW {
			f.walk(x.X, calls, ctx)
		} else {
			f.walk(x.X, calls, ctx)
		}
	case *ssa.MakeClosure:
		f.leaf(v)
	case *ssa.Alloc:
		f.walkLoad(x, calls, ctx)
	case *ssa.Next:
		if r, ok := x.Iter.(*ssa.Range); ok {
			f.walk(r.X, calls, ctx)
		} else {
			f.leaf(v)
		}
	case *ssa.MakeSlice, *ssa.MakeMap, *ssa.MakeChan:
		f.leaf(v)
	case *ssa.IndexAddr, *ssa.FieldAddr:
		f.walkLoad(v, calls, ctx)
	default:
		f.leaf(v)
	}
}

// walkLoad: the value stored at address addr.
func (f *flowWalk) walkLoad(addr ssa.Value, calls int, ctx *callCtx) {
	switch a := addr.(type) {
	case *ssa.Alloc:
		stores := 0
		for _, r := range Referrers(a) {
			switch s := r.(type) {
			case *ssa.Store:
				if s.Addr == a {
					stores++
					f.walk(s.Val, calls, ctx)
				}
			case *ssa.MakeClosure:
				// stores inside the closure through the free variable
				for i, bnd := range s.Bindings {
					if bnd == a {
						f.closureStores(s.Fn.(*ssa.Function), i, calls)
					}
				}
			case *ssa.FieldAddr:
				// struct allocated locally and filled field by field (composite literal):
				// the struct value derives from everything stored into its fields
				for _, rr := range Referrers(s) {
					if st, ok := rr.(*ssa.Store); ok && st.Addr == s {
						f.walk(st.Val, calls, ctx)
					}
				}
			case *ssa.IndexAddr:
				for _, rr := range Referrers(s) {
					if st, ok := rr.(*ssa.Store); ok && st.Addr == s {
						f.walk(st.Val, calls, ctx)
					}
				}
			}
		}
		if stores == 0 {
			f.leaf(a)
		}
	case *ssa.FieldAddr:
		// local: stores to this very FieldAddr's base+field inside the function
		if f.fields {
			f.fieldStoresPtr(a.X.Type(), a.Field, calls)
		}
		// also where the base came from (the struct may have been built elsewhere wholesale)
		f.walk(a.X, calls, ctx)
	case *ssa.IndexAddr:
		// element of slice/array: derive from base and from stores to elements of that base
		for _, r := range Referrers(a.X) {
			if ia, ok := r.(*ssa.IndexAddr); ok {
				for _, rr := range Referrers(ia) {
					if st, ok := rr.(*ssa.Store); ok && st.Addr == ia {
						f.walk(st.Val, calls, ctx)
					}
				}
			}
		}
		f.walk(a.X, calls, ctx)
	case *ssa.Global:
		// all stores to the global anywhere in the module
		n := 0
		for _, fn := range f.p.srcFns {
			for _, b := range fn.Blocks {
				for _, in := range b.Instrs {
					if st, ok := in.(*ssa.Store); ok && st.Addr == a {
						n++
						f.walk(st.Val, calls, nil)
					}
				}
			}
		}
		if init := a.Pkg.Func("init"); init != nil {
			for _, b := range init.Blocks {
				for _, in := range b.Instrs {
					if st, ok := in.(*ssa.Store); ok && st.Addr == a {
						n++
						f.walk(st.Val, calls, nil)
					}
				}
			}
		}
		f.leaf(a)
	case *ssa.FreeVar:
		// load through a captured variable: stores in this closure + binding
		for _, r := range Referrers(a) {
			if st, ok := r.(*ssa.Store); ok && st.Addr == a {
				f.walk(st.Val, calls, ctx)
			}
		}
		f.walk(a, calls, ctx)
	default:
		f.walk(addr, calls, ctx)
	}
}

func (f *flowWalk) closureStores(fn *ssa.Function, fvIdx int, calls int) {
	if fvIdx >= len(fn.FreeVars) {
		return
	}
	fv := fn.FreeVars[fvIdx]
	for _, r := range Referrers(fv) {
		if st, ok := r.(*ssa.Store); ok && st.Addr == fv {
			f.walk(st.Val, calls, nil)
		}
	}
}

func structOf(t types.Type) (*types.Struct, types.Type) {
	if p, ok := t.Underlying().(*types.Pointer); ok {
		t = p.Elem()
	}
	s, _ := t.Underlying().(*types.Struct)
	return s, t
}

func (f *flowWalk) fieldStores(t types.Type, field int, calls int) {
	f.fieldStoresPtr(t, field, calls)
}

// fieldStoresPtr follows every store into field #field of struct type t anywhere in the repo
// (field-sensitive, object-insensitive).
func (f *flowWalk) fieldStoresPtr(t types.Type, field int, calls int) {
	s, base := structOf(t)
	if s == nil {
		return
	}
	key := typeName(base) + "." + s.Field(field).Name()
	for _, v := range f.p.FieldStores(key) {
		f.walk(v, calls, nil)
	}
}

// FieldStores returns all values stored into the struct field "pkg.T.f" in module code.
func (p *Prog) FieldStores(key string) []ssa.Value {
	if p.fieldSt == nil {
		p.fieldSt = map[string][]ssa.Value{}
		for _, fn := range p.srcFns {
			for _, b := range fn.Blocks {
				for _, in := range b.Instrs {
					st, ok := in.(*ssa.Store)
					if !ok {
						continue
					}
					if fa, ok := st.Addr.(*ssa.FieldAddr); ok {
						t, fld := fieldAddrName(fa)
						if t != "" {
							k := t + "." + fld
							p.fieldSt[k] = append(p.fieldSt[k], st.Val)
						}
					}
				}
			}
		}
	}
	return p.fieldSt[key]
}

func (f *flowWalk) walkCallResult(tuple ssa.Value, idx int, calls int, ctx *callCtx, self ssa.Value) {
	c, ok := tuple.(*ssa.Call)
	if !ok {
		// e.g. Extract of a Next / TypeAssert commaok / Lookup commaok / recv commaok
		switch t := tuple.(type) {
		case *ssa.Next:
			f.walk(t, calls, ctx)
		case *ssa.TypeAssert:
			f.walk(t.X, calls, ctx)
		case *ssa.Lookup:
			f.walk(t.X, calls, ctx)
		case *ssa.UnOp:
			f.walk(t.X, calls, ctx)
		case *ssa.Select:
			f.leaf(self)
		default:
			f.leaf(self)
		}
		return
	}
	name := CalleeName(&c.Call)
	if isPassThrough(name) {
		for _, a := range CallArgs(&c.Call) {
			f.walk(a, calls, ctx)
		}
		return
	}
	if b, ok := c.Call.Value.(*ssa.Builtin); ok {
		switch b.Name() {
		case "append", "copy", "min", "max":
			for _, a := range c.Call.Args {
				f.walk(a, calls, ctx)
			}
			return
		}
		f.leaf(self)
		return
	}
	callee := c.Call.StaticCallee()
	if callee == nil {
		// closure call: the value is a MakeClosure?
		if mc, ok := c.Call.Value.(*ssa.MakeClosure); ok {
			callee = mc.Fn.(*ssa.Function)
		}
	}
	if callee != nil && callee.Blocks != nil && callee.Pkg != nil && strings.HasPrefix(callee.Pkg.Pkg.Path(), Mod) && calls > 0 {
		nctx := &callCtx{call: &c.Call, parent: ctx}
		for _, r := range ReturnsOf(callee) {
			if idx < len(r.Results) {
				f.walk(r.Results[idx], calls-1, nctx)
			}
		}
		// named results may be returned through allocs (defer-spilled); handled by walk of loads
		return
	}
	f.leaf(self)
}

// DerivesFromCall reports whether some leaf/intermediate of v is the result of a call to one
// of the named callees, or a load of one of the named fields ("tq.Transfer.Path").
func (p *Prog) DerivesFrom(v ssa.Value, callees []string, fields []string) bool {
	found := false
	p.Leaves(v, func(x ssa.Value) FlowAct {
		if c, _, ok := CallResult(x); ok {
			if nameIn(CalleeName(c.Common()), callees) {
				found = true
				return Stop
			}
		}
		if t, fl, _, ok := FieldOf(x); ok && nameIn(t+"."+fl, fields) {
			found = true
			return Stop
		}
		return Descend
	})
	return found
}

// errorPathEdge: incoming edge i of ph carries a zero-value constant while, on the same edge, a sibling φ of type
// error carries an error that is known not to be nil (built on the spot, or tested non-nil on the way). That is the
// shape of `return zero, err` paths joined with the success path — produced when an extracted helper is expanded
// back in place — and the zero value is dead: the caller's `if err != nil` leaves before using it. Provenance
// walks skip such edges.
func errorPathEdge(ph *ssa.Phi, i int) bool {
	if i >= len(ph.Edges) || i >= len(ph.Block().Preds) {
		return false
	}
	c, ok := ph.Edges[i].(*ssa.Const)
	if !ok {
		return false
	}
	if c.Value != nil {
		switch c.Value.Kind() {
		case constant.String:
			if constant.StringVal(c.Value) != "" {
				return false
			}
		case constant.Int:
			if v, ok := constant.Int64Val(c.Value); !ok || v != 0 {
				return false
			}
		case constant.Bool:
			if constant.BoolVal(c.Value) {
				return false
			}
		default:
			return false
		}
	}
	if ph.Type().String() == "error" {
		return false
	}
	pred := ph.Block().Preds[i]
	for _, in := range ph.Block().Instrs {
		sib, ok := in.(*ssa.Phi)
		if !ok {
			break
		}
		if sib == ph || sib.Type().String() != "error" || i >= len(sib.Edges) {
			continue
		}
		ev := sib.Edges[i]
		if IsNilConst(ev) {
			continue
		}
		if NeverNil(ev) {
			return true
		}
		// tested non-nil on the way to this predecessor
		for d := pred; d != nil; d = d.Idom() {
			id := d.Idom()
			if id == nil {
				break
			}
			ifi, ok := lastInstr(id).(*ssa.If)
			if !ok || len(id.Succs) != 2 {
				continue
			}
			e, trueMeansNil, isChk := IsErrNilCheck(ifi.Cond)
			if !isChk || e != ev {
				continue
			}
			// which successor leads to d?
			nonNilSucc := id.Succs[0]
			if trueMeansNil {
				nonNilSucc = id.Succs[1]
			}
			if nonNilSucc == d || nonNilSucc.Dominates(d) {
				return true
			}
		}
	}
	return false
}

// LiveValue looks through φ-nodes all of whose incoming edges but one are dead zero values of error paths
// (errorPathEdge) and returns the one value that can actually be used.
func LiveValue(v ssa.Value) ssa.Value {
	for depth := 0; depth < 6; depth++ {
		ph, ok := v.(*ssa.Phi)
		if !ok {
			return v
		}
		var live []ssa.Value
		for i, e := range ph.Edges {
			if errorPathEdge(ph, i) || e == ssa.Value(ph) {
				continue
			}
			dup := false
			for _, l := range live {
				if l == e {
					dup = true
				}
			}
			if !dup {
				live = append(live, e)
			}
		}
		if len(live) != 1 {
			return v
		}
		v = live[0]
	}
	return v
}

// callerArgs returns, for a parameter of an unexported function of the repository that is never used as a value
// (only called directly), the arguments passed for it at every call site; nil otherwise.
func (p *Prog) callerArgs(prm *ssa.Parameter) []ssa.Value {
	fn := prm.Parent()
	if fn == nil || fn.Pkg == nil || fn.Parent() != nil || !productPkg(fn.Pkg.Pkg.Path()) {
		return nil
	}
	obj := fn.Object()
	if obj == nil || obj.Exported() {
		return nil
	}
	if p.callSites == nil {
		p.callSites = map[*ssa.Function][]*ssa.CallCommon{}
		p.usedAsValue = map[*ssa.Function]bool{}
		for _, f := range p.srcFns {
			for _, b := range f.Blocks {
				for _, in := range b.Instrs {
					if cc := AsCall(in); cc != nil {
						if sc := cc.StaticCallee(); sc != nil && !cc.IsInvoke() {
							p.callSites[sc] = append(p.callSites[sc], cc)
						}
					}
					// any other mention of the function is a use as a value
					var ops []*ssa.Value
					for _, op := range in.Operands(ops) {
						if op == nil || *op == nil {
							continue
						}
						if g, ok := (*op).(*ssa.Function); ok {
							if cc := AsCall(in); cc != nil && cc.Value == ssa.Value(g) {
								continue
							}
							p.usedAsValue[g] = true
						}
					}
				}
			}
		}
	}
	if p.usedAsValue[fn] {
		return nil
	}
	idx := -1
	for i, q := range fn.Params {
		if q == prm {
			idx = i
		}
	}
	var out []ssa.Value
	for _, cc := range p.callSites[fn] {
		if idx < 0 || idx >= len(cc.Args) {
			return nil
		}
		out = append(out, cc.Args[idx])
	}
	return out
}
