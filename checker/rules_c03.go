package main

import (
	"fmt"
	"go/constant"
	"go/token"
	"sort"
	"strings"

	"golang.org/x/tools/go/ssa"
)

// C03 — a successful push leaves every referenced object on the server.

func init() {
	register(&PropDef{
		ID:    "C03",
		Level: "other",
		Explanation: "Decides structural necessary conditions of the push path on the current source: (R1) every pointer the scanner hands over is queued exactly once or the push dies, and a pointer is left out only under the four documented conditions (seen in this call, already uploaded, size 0, locked by someone else with verification enabled); (R2) scanner errors are recorded and come back as the push's error; (R3) every transfer queue created by a command is waited for and its errors read on every path (exceptions: the prune verify queue and the filter-process queue, which consume the watch channel); " +
			"(R4) missing or corrupt local objects and any other transfer error make the push exit non-zero unless lfs.allowincompletepush is set, and that flag comes only from the configuration key; (R5) every upload-capable adapter reports success only through the upload verification, and verifyUpload's result is the outcome of the last verify request actually sent (tus's already-complete shortcut is a listed exception). What `git rev-list` selects over all histories and server behaviour are not decided.",
		Assumptions: []string{
			"git rev-list with the arguments built by revListArgs (pinned by the suite's TestRevListArgs) enumerates the objects that become reachable",
			"the LFS server stores what a 2xx PUT + verify acknowledged",
		},
		Run:      runC03,
		Canaries: c03Canaries,
	})
}

func isErrorConstructor(n string) bool {
	return n == "fmt.Errorf" || strings.HasPrefix(n, "errors.New") || strings.HasPrefix(n, "errors.Errorf") || strings.HasPrefix(n, "errors.Wrap") || strings.HasPrefix(n, "tq.new") && strings.HasSuffix(n, "Error")
}

// decidingConds lists the conditions of dominating branches that decide whether block b runs
// (within one loop iteration).
func decidingConds(fn *ssa.Function, b *ssa.BasicBlock) []struct {
	Cond ssa.Value
	If   *ssa.If
	Want bool
} {
	var out []struct {
		Cond ssa.Value
		If   *ssa.If
		Want bool
	}
	be := backEdges(fn)
	for d := b.Idom(); d != nil; d = d.Idom() {
		ifi, ok := lastInstr(d).(*ssa.If)
		if !ok || strings.HasSuffix(d.Comment, ".loop") {
			continue
		}
		r0 := reachVia(d, 0, be)
		r1 := reachVia(d, 1, be)
		if r0[b] == r1[b] {
			continue
		}
		// a flag that only relays an earlier decision (φ of constants, e.g. the result of an expanded helper
		// that returns true/false from several places): when exactly one way of arriving sets the wanted value,
		// what decided that way decides here too
		if extra := relayedDecision(fn, ifi.Cond, r0[b], 0); extra != nil {
			out = append(out, extra...)
			// the relay itself stays listed (rules that look for a named flag find it); IsRelayPhi tells it apart
		}
		// the condition itself and, for a boolean φ built by && / || evaluated as a value, the atomic
		// condition it implies on this outcome
		for _, ic := range ImpliedConds(ifi.Cond, r0[b]) {
			out = append(out, struct {
				Cond ssa.Value
				If   *ssa.If
				Want bool
			}{ic.Cond, ifi, ic.Val})
		}
	}
	return out
}

// phiSelectors: the conditions of the branches that lie between the immediate dominator of a φ's block and that
// block — an over-approximation of the tests that select which of the φ's values arrives.
func phiSelectors(ph *ssa.Phi) []ssa.Value {
	B := ph.Block()
	D := B.Idom()
	if D == nil {
		return nil
	}
	var out []ssa.Value
	seen := map[*ssa.BasicBlock]bool{B: true}
	work := append([]*ssa.BasicBlock{}, B.Preds...)
	for len(work) > 0 {
		x := work[len(work)-1]
		work = work[:len(work)-1]
		if seen[x] || !D.Dominates(x) {
			continue
		}
		seen[x] = true
		if ifi, ok := lastInstr(x).(*ssa.If); ok {
			out = append(out, ifi.Cond)
		}
		if x != D {
			work = append(work, x.Preds...)
		}
	}
	return out
}

// relayedDecision: cond is (a negation of) a φ whose incoming values are all constants. If exactly one
// predecessor supplies the value that makes the branch go the wanted way, the deciding conditions of that
// predecessor are returned; nil when cond is not such a relay (or is ambiguous).
func relayedDecision(fn *ssa.Function, cond ssa.Value, outcome bool, depth int) []struct {
	Cond ssa.Value
	If   *ssa.If
	Want bool
} {
	if depth > 3 {
		return nil
	}
	c, flip := stripNot(cond)
	if flip {
		outcome = !outcome
	}
	ph, ok := c.(*ssa.Phi)
	if !ok {
		return nil
	}
	var from []*ssa.BasicBlock
	for i, e := range ph.Edges {
		bv, isC := ConstBool(e)
		if !isC {
			return nil
		}
		if bv == outcome && i < len(ph.Block().Preds) {
			from = append(from, ph.Block().Preds[i])
		}
	}
	if len(from) == 0 {
		return nil
	}
	out := decidingConds(fn, from[0])
	// several ways set the wanted value: what all of them have in common decided it
	for _, pb := range from[1:] {
		other := decidingConds(fn, pb)
		var keep []struct {
			Cond ssa.Value
			If   *ssa.If
			Want bool
		}
		for _, a := range out {
			for _, b := range other {
				if a.Cond == b.Cond && a.Want == b.Want {
					keep = append(keep, a)
					break
				}
			}
		}
		out = keep
	}
	if out == nil {
		out = []struct {
			Cond ssa.Value
			If   *ssa.If
			Want bool
		}{}
	}
	return out
}

// IsRelayPhi: v is a boolean φ of constants only — it repeats a decision taken earlier and adds no condition
// of its own.
func IsRelayPhi(v ssa.Value) bool {
	c, _ := stripNot(v)
	ph, ok := c.(*ssa.Phi)
	if !ok || len(ph.Edges) == 0 {
		return false
	}
	for _, e := range ph.Edges {
		if _, isC := ConstBool(e); !isC {
			return false
		}
	}
	return true
}

func runC03(c *Ctx) {
	p := c.P
	// shared rule: an object counts as present only together with its size (rules_c09.go)
	objectPresenceRule(c, "R8", getStoreFlow(p))
	// shared rule: history/tree scanners stop only at the end of their input (rules_c05.go)
	scannerVerdictRule(c, "R9")
	c03PushRemote(c)
	transferRelRule(c, "R12")
	exactRefNameMatch(c, "R6")
	lockDecisionRecords(c, "R4")
	objectIDPushNeedsLocalObject(c, "R4")
	c03TusResume(c, "R13")
	actionSetsCopiedFromTheirOwn(c, "R12")
	pushScannerUnfiltered(c, "R1")
	up := p.Fn("commands", "(*uploadContext).UploadPointers")
	prep := p.Fn("commands", "(*uploadContext).prepareUpload")
	if up == nil || prep == nil {
		c.Missing("R1", "(*uploadContext).UploadPointers / prepareUpload", "not found")
		return
	}
	// ---- R1: every prepared pointer is queued exactly once (non-dry-run loop) -------------------
	loops := Loops(up)
	nQ := 0
	for li := range loops {
		l := loops[li]
		ro := l.RangedOperand()
		if ro == nil || !ResultOfCallNamed(ro, "(*commands.uploadContext).prepareUpload") {
			continue
		}
		nQ++
		good := true
		why := ""
		for _, e := range RunCount(CountQuery{Fn: up, Entry: l.Body, Region: l.Region, Header: l.Header, NoRet: noReturnCommands, Event: func(in ssa.Instruction) CSet {
			if cc := AsCall(in); cc != nil && CalleeName(cc) == "(*tq.TransferQueue).Add" {
				return C1
			}
			return C0
		}}) {
			if e.Kind == "noreturn" {
				continue
			}
			if e.Set != C1 {
				good = false
				why = fmt.Sprintf("a prepared pointer is added to the queue %s times on the path ending in %s", e.Set, e.Desc(p))
			}
		}
		c.Check(good, "R1", "UploadPointers:each-queued-once", p.InstrPos(firstPositioned(l.Body)), "every pointer that survives preparation is added to the transfer queue exactly once (or the push dies)", why)
	}
	c.AtLeast("R1", "queueing loops over prepared pointers", nQ, 1)
	// prepareUpload: skip conditions
	pl := Loops(prep)
	nApp := 0
	for _, b := range prep.Blocks {
		for _, in := range b.Instrs {
			if !isAppendOf(in, "lfs.WrappedPointer") {
				continue
			}
			l := LoopOf(pl, b)
			if l == nil {
				continue
			}
			nApp++
			var allowedCond func(v ssa.Value, d int) bool
			allowedCond = func(v ssa.Value, d int) bool {
				v, _ = stripNot(v)
				switch x := v.(type) {
				case *ssa.Call:
					n := CalleeName(&x.Call)
					if n == "(tools.StringSet).Contains" || n == "(*commands.uploadContext).HasUploaded" {
						if _, f, _, ok := FieldOf(x.Call.Args[len(x.Call.Args)-1]); ok && f == "Oid" {
							return true
						}
					}
					return n == "(*commands.lockVerifier).LockedByThem" || n == "(*commands.lockVerifier).Enabled"
				case *ssa.BinOp:
					if _, f, _, ok := FieldOf(x.X); ok && f == "Size" {
						if k, isK := ConstInt(x.Y); isK && k == 0 && (x.Op == token.EQL || x.Op == token.NEQ) {
							return true
						}
					}
				case *ssa.Phi:
					// a flag such as canUpload (φ of true and !Enabled()): every value it can take and every
					// test that selects among them is one of the documented reasons
					if d > 3 {
						return false
					}
					for _, e := range x.Edges {
						if _, isC := ConstBool(e); !isC && !allowedCond(e, d+1) {
							return false
						}
					}
					for _, sel := range phiSelectors(x) {
						if !allowedCond(sel, d+1) {
							return false
						}
					}
					return true
				}
				return false
			}
			for _, dc := range decidingConds(prep, b) {
				desc := describeCond(dc.Cond)
				allowed := allowedCond(dc.Cond, 0)
				c.Check(allowed, "R1", "prepareUpload:skip-condition:"+desc, p.InstrPos(dc.If), "documented reason to leave a pointer out", "a scanned pointer can be left out of the upload for a reason that is not one of: seen in this call, already uploaded, size 0, locked by another user with verification enabled ("+desc+")")
			}
		}
	}
	c.AtLeast("R1", "appends to the uploadable list", nApp, 1)

	// ---- R2: scanner errors ---------------------------------------------------------------------
	cb := p.Fn("commands", "(*uploadContext).gitScannerCallback")
	if cb == nil || len(cb.AnonFuncs) == 0 {
		c.Missing("R2", "(*uploadContext).gitScannerCallback", "not found")
	} else {
		cl := cb.AnonFuncs[0]
		var errPrm *ssa.Parameter
		for _, prm := range cl.Params {
			if short(prm.Type().String()) == "error" {
				errPrm = prm
			}
		}
		rec := CallsIn(cl, "(*commands.uploadContext).addScannerError")
		good := len(rec) > 0 && errPrm != nil
		if good {
			// on err != nil the recorder is reached: cut its block, then the return must be unreachable from the non-nil edge
			fails := PassEdges(cl, func(cond ssa.Value) (bool, bool) {
				e, trueMeansNil, ok := IsErrNilCheck(cond)
				if ok && e == ssa.Value(errPrm) {
					return !trueMeansNil, true
				}
				return false, false
			})
			if len(fails) == 0 {
				good = false
			}
			for _, fe := range fails {
				cut := map[Edge]bool{}
				for i := range rec[0].Block().Succs {
					cut[Edge{rec[0].Block(), i}] = true
				}
				for rb := range ReachBlocks(fe.To(), cut, nil) {
					if _, isRet := lastInstr(rb).(*ssa.Return); isRet && rb != rec[0].Block() {
						good = false
					}
				}
			}
		}
		c.Check(good, "R2", "scanner-callback-records-errors", p.Pos(cl.Pos()), "an error delivered by the scanner is recorded", "the scanner callback can drop an error the scanner delivered: the push would succeed although history was not fully scanned")
	}
	if ase := p.Fn("commands", "(*uploadContext).addScannerError"); ase != nil {
		stores := 0
		for _, b := range ase.Blocks {
			for _, in := range b.Instrs {
				if st, ok := in.(*ssa.Store); ok {
					if fa, ok := st.Addr.(*ssa.FieldAddr); ok {
						if _, f := fieldAddrName(fa); f == "scannerErr" {
							stores++
						}
					}
				}
			}
		}
		c.Check(stores >= 1, "R2", "addScannerError:stores", p.Pos(ase.Pos()), "the error is kept in the context", "addScannerError does not store the error")
	}
	if ura := p.Fn("commands", "uploadRangeOrAll"); ura != nil {
		for _, r := range ReturnsOf(ura) {
			okv := true
			// the values a merged return can hand back, through nested φ-nodes
			var vals []ssa.Value
			var flat func(v ssa.Value, d int)
			flat = func(v ssa.Value, d int) {
				if ph, ok := v.(*ssa.Phi); ok && d < 4 {
					for _, e := range ph.Edges {
						flat(e, d+1)
					}
					return
				}
				vals = append(vals, v)
			}
			for _, v := range ReturnValues(r, 0) {
				flat(v, 0)
			}
			for _, v := range vals {
				cc, _, isRes := CallResult(v)
				if !isRes {
					okv = false
					continue
				}
				n := CalleeName(cc.Common())
				if !(n == "(*commands.uploadContext).scannerError" || strings.HasPrefix(n, "(*lfs.GitScanner).Scan")) {
					okv = false
				}
			}
			c.Check(okv, "R2", "uploadRangeOrAll:return", p.InstrPos(r), "returns the scan's own error or the recorded callback error", "uploadRangeOrAll can return without reporting the recorded scanner error")
		}
	} else {
		c.Missing("R2", "commands.uploadRangeOrAll", "not found")
	}
	if ufr := p.Fn("commands", "uploadForRefUpdates"); ufr != nil {
		for _, ci := range CallsIn(ufr, "commands.uploadRangeOrAll") {
			if call, ok := ci.(*ssa.Call); ok {
				errPropagates(c, "R2", "uploadForRefUpdates:scan-error-returned", ufr, call, 0)
			}
		}
		// exclude list: remote sha only when it differs from the local commitish
		for _, b := range ufr.Blocks {
			for _, in := range b.Instrs {
				if isAppendOf(in, "string") {
					conds := decidingConds(ufr, b)
					okc := false
					for _, dc := range conds {
						if bo, ok := dc.Cond.(*ssa.BinOp); ok && (bo.Op == token.NEQ || bo.Op == token.EQL) {
							okc = true
						}
					}
					c.Check(okc, "R6", "exclude-only-differing-remote-tip", p.InstrPos(in), "the remote tip is excluded only when it differs from what is being pushed", "the remote ref's commit is always excluded from the scan, even when it equals the commit being pushed")
					// what is excluded is the commit id the remote ref points at (empty for a new ref) — not a name,
					// which rev-list would resolve locally
					els := variadicElems(in.(*ssa.Call).Call.Args[1])
					okSha := len(els) == 1
					desc := ""
					for _, e := range els {
						for _, l := range p.LeavesNoFields(e, func(v ssa.Value) FlowAct {
							if _, f, _, ok := FieldOf(v); ok && f == "Sha" {
								return Stop
							}
							if cc, _, ok := CallResult(v); ok && strings.HasPrefix(CalleeName(cc.Common()), "(*git.RefUpdate).") {
								return Stop
							}
							return Descend
						}) {
							_, f, base, isF := FieldOf(l)
							fromRemote := false
							if isF && f == "Sha" {
								if cc, _, ok := CallResult(base); ok && CalleeName(cc.Common()) == "(*git.RefUpdate).RemoteRef" {
									fromRemote = true
								}
							}
							if !fromRemote {
								okSha = false
								desc = describeValue(p, l)
							}
						}
					}
					c.Check(okSha, "R6", "exclude-is-remote-ref-sha", p.InstrPos(in), "the excluded revision is the remote ref's commit id", "the revision excluded from the push scan is "+desc+" rather than the remote ref's commit id: a ref NAME is resolved by rev-list in the local repository, so `^name` can exclude exactly the commits being pushed and nothing is uploaded")
				}
			}
		}
		// callers turn the error into a non-zero exit
		for _, fn := range p.RepoFuncs(func(s string) bool { return s == Mod+"/commands" }) {
			for _, ci := range CallsIn(fn, "commands.uploadForRefUpdates") {
				call, ok := ci.(*ssa.Call)
				if !ok {
					continue
				}
				// the error must reach a no-return call when non-nil
				fails := 0
				good := true
				for _, bb := range fn.Blocks {
					ifi, ok := lastInstr(bb).(*ssa.If)
					if !ok {
						continue
					}
					cond, flip := stripNot(ifi.Cond)
					e, trueMeansNil, ok := IsErrNilCheck(cond)
					if !ok || !ResultOfCall(e, call, 0) {
						continue
					}
					fails++
					failWhen := !trueMeansNil
					if flip {
						failWhen = !failWhen
					}
					fe := Edge{bb, 1}
					if failWhen {
						fe = Edge{bb, 0}
					}
					for rb := range ReachBlocks(fe.To(), nil, noReturnCommands) {
						if _, isRet := lastInstr(rb).(*ssa.Return); isRet {
							ends := false
							for _, x := range rb.Instrs {
								if noReturnCommands(x) {
									ends = true
								}
							}
							if !ends {
								good = false
							}
						}
					}
				}
				c.Check(fails > 0 && good, "R2", "push-command-exits-on-error:"+FnName(fn), p.InstrPos(ci), "a failed upload makes the command exit non-zero", "the command can finish normally although uploadForRefUpdates returned an error")
			}
		}
	}

	c03Queues(c)
	c03Report(c)
	c03Verify(c)
	// shared with C06.R11: an object the queue gives up on is covered by a reported error
	if m := newTQModel(c); m != nil {
		m.errorCoverage()
		m.abortOnFatal()
	}
}

var queueCreators = []string{"tq.NewTransferQueue", "(*commands.uploadContext).NewQueue", "commands.newDownloadQueue", "commands.newDownloadCheckQueue", "commands.newUploadQueue"}

// c03Queues (R3): every queue created in commands/ and lfs/ is waited for and its errors are read.
func c03Queues(c *Ctx) {
	p := c.P
	exceptions := map[string]string{
		"commands.prune":                     "verify queue: results are taken from Watch(), fail-closed (C05.R6)",
		"commands.filterCommand":             "filter-process queue: go q.Wait() once, results via Watch() (C14.R5)",
		"commands.newDownloadQueue":          "constructor wrapper: returns the queue",
		"commands.newDownloadCheckQueue":     "constructor wrapper: returns the queue",
		"commands.newUploadQueue":            "constructor wrapper: returns the queue",
		"(*commands.uploadContext).NewQueue": "constructor wrapper: returns the queue",
	}
	n := 0
	for _, fn := range p.RepoFuncs(func(s string) bool {
		return s == Mod+"/commands" || s == Mod+"/lfs"
	}) {
		for _, ci := range CallsIn(fn, queueCreators...) {
			call, ok := ci.(*ssa.Call)
			if !ok {
				continue
			}
			n++
			root := fn
			for root.Parent() != nil {
				root = root.Parent()
			}
			key := "queue@" + FnName(root) + ":" + CalleeName(call.Common())
			if why, ok := exceptions[FnName(root)]; ok {
				c.Info("R3", key, p.InstrPos(call), "exception: "+why)
				continue
			}
			// Wait (or CollectErrors) on every path to a return; Errors read after
			waitOK, errsOK := true, true
			nRet := 0
			for _, e := range RunCount(CountQuery{Fn: fn, Entry: call.Block(), NoRet: noReturnCommands, Event: func(in ssa.Instruction) CSet {
				if cc := AsCall(in); cc != nil {
					switch CalleeName(cc) {
					case "(*tq.TransferQueue).Wait", "(*commands.uploadContext).CollectErrors":
						if _, isDefer := in.(*ssa.Defer); isDefer {
							return C1
						}
						return C1
					}
				}
				return C0
			}}) {
				if e.Kind != "return" {
					continue
				}
				nRet++
				if e.Set&C0 != 0 {
					waitOK = false
				}
			}
			for _, e := range RunCount(CountQuery{Fn: fn, Entry: call.Block(), NoRet: noReturnCommands, Event: func(in ssa.Instruction) CSet {
				if cc := AsCall(in); cc != nil {
					switch CalleeName(cc) {
					case "(*tq.TransferQueue).Errors", "(*commands.uploadContext).CollectErrors":
						return C1
					}
				}
				return C0
			}}) {
				if e.Kind != "return" {
					continue
				}
				if e.Set&C0 != 0 {
					errsOK = false
				}
			}
			c.Check(waitOK && nRet > 0, "R3", key+":waited", p.InstrPos(call), "the queue is waited for on every path", "a transfer queue is created but not waited for on some path: transfers may still be running (or never start) when the command reports success")
			c.Check(errsOK && nRet > 0, "R3", key+":errors-read", p.InstrPos(call), "the queue's errors are read on every path", "a transfer queue's errors are not read on some path: failed transfers would go unnoticed")
		}
	}
	c.AtLeast("R3", "transfer queue creation sites", n, 6)
	// CollectErrors does Wait then reads Errors
	if ce := p.Fn("commands", "(*uploadContext).CollectErrors"); ce != nil {
		w := CallsIn(ce, "(*tq.TransferQueue).Wait")
		e := CallsIn(ce, "(*tq.TransferQueue).Errors")
		c.Check(len(w) == 1 && len(e) == 1 && w[0].Block().Dominates(e[0].Block()), "R3", "CollectErrors:wait-then-errors", p.Pos(ce.Pos()), "waits, then reads the errors", "CollectErrors does not wait for the queue before reading its errors")
		// every error lands somewhere
		for _, l := range Loops(ce) {
			good := true
			for _, ex := range RunCount(CountQuery{Fn: ce, Entry: l.Body, Region: l.Region, Header: l.Header, Event: func(in ssa.Instruction) CSet {
				if _, ok := in.(*ssa.MapUpdate); ok {
					return C1
				}
				if isAppendOf(in, "error") {
					return C1
				}
				return C0
			}}) {
				if ex.Set&C2 != 0 {
					good = false
				}
				_ = ex
			}
			c.Check(good, "R3", "CollectErrors:classifies", p.Pos(ce.Pos()), "each error is recorded at most once", "an error is recorded twice")
		}
	}
}

// c03Report (R4)
func c03Report(c *Ctx) {
	p := c.P
	re := p.Fn("commands", "(*uploadContext).ReportErrors")
	if re == nil {
		c.Missing("R4", "(*uploadContext).ReportErrors", "not found")
		return
	}
	lenOfField := func(v ssa.Value, field string) bool {
		lc, ok := v.(*ssa.Call)
		if !ok {
			return false
		}
		if bi, ok := lc.Call.Value.(*ssa.Builtin); !ok || bi.Name() != "len" {
			return false
		}
		_, f, _, isF := FieldOf(lc.Call.Args[0])
		return isF && f == field
	}
	scenario := func(name string, nonEmpty map[string]bool, allowMissing bool) {
		assume := func(v ssa.Value) (*ssa.Const, bool) {
			if op, x, y, ok := BinCmp(v); ok {
				if k, isK := ConstInt(y); isK && k == 0 {
					for _, f := range []string{"missing", "corrupt", "otherErrs"} {
						if lenOfField(x, f) {
							ne := nonEmpty[f]
							var val bool
							switch op {
							case token.GTR, token.NEQ:
								val = ne
							case token.EQL, token.LEQ:
								val = !ne
							default:
								return nil, false
							}
							return ssa.NewConst(constant.MakeBool(val), v.Type()), true
						}
					}
				}
			}
			if _, f, _, ok := FieldOf(v); ok && f == "allowMissing" {
				return ssa.NewConst(constant.MakeBool(allowMissing), v.Type()), true
			}
			return nil, false
		}
		returns := false
		where := ""
		ExploreX(re.Blocks[0], nil, nil, noReturnCommands, nil, assume, func(in ssa.Instruction, st PState) bool {
			if r, ok := in.(*ssa.Return); ok {
				returns = true
				where = p.InstrPos(r)
				return false
			}
			return true
		})
		c.Check(!returns, "R4", "ReportErrors:"+name, p.Pos(re.Pos()), "the push exits non-zero", "with "+name+" ReportErrors can return normally ("+where+"): the push would succeed and the ref be updated although objects are not on the server")
	}
	scenario("missing-objects", map[string]bool{"missing": true}, false)
	scenario("corrupt-objects", map[string]bool{"corrupt": true}, false)
	scenario("other-transfer-errors", map[string]bool{"otherErrs": true}, false)
	scenario("other-errors-even-if-incomplete-allowed", map[string]bool{"otherErrs": true, "missing": true}, true)
	// allowMissing provenance
	for _, v := range p.FieldStores("commands.uploadContext.allowMissing") {
		good := false
		if cc, _, ok := CallResult(v); ok && strings.HasSuffix(CalleeName(cc.Common()), ").Bool") {
			for _, a := range cc.Call.Args {
				if s, isC := ConstString(a); isC && s == "lfs.allowincompletepush" {
					good = true
				}
			}
			for _, a := range cc.Call.Args {
				if bv, isC := ConstBool(a); isC && bv {
					good = false
				}
			}
		}
		c.Check(good, "R4", "allowMissing-provenance", "-", "incomplete pushes are allowed only through lfs.allowincompletepush (default false)", "the allow-incomplete-push flag is set from something other than lfs.allowincompletepush with default false")
	}
	c.AtLeast("R4", "stores to uploadContext.allowMissing", len(p.FieldStores("commands.uploadContext.allowMissing")), 1)
	// ReportErrors is always run: deferred at the top of uploadForRefUpdates
	if ufr := p.Fn("commands", "uploadForRefUpdates"); ufr != nil {
		deferred := false
		for _, in := range ufr.Blocks[0].Instrs {
			if d, ok := in.(*ssa.Defer); ok && CalleeName(&d.Call) == "(*commands.uploadContext).ReportErrors" {
				deferred = true
			}
		}
		c.Check(deferred, "R4", "ReportErrors-always-runs", p.Pos(ufr.Pos()), "deferred at entry", "ReportErrors is not deferred at the start of uploadForRefUpdates: collected transfer errors may never turn into a failing exit status")
	}
}

// c03Verify (R5)
func c03Verify(c *Ctx) {
	p := c.P
	type ad struct{ pkg, name, verify string }
	for _, a := range []ad{
		{"tq", "(*basicUploadAdapter).DoTransfer", "tq.verifyUpload"},
		{"tq", "(*tusUploadAdapter).DoTransfer", "tq.verifyUpload"},
		{"tq", "(*SSHAdapter).upload", "(*tq.SSHAdapter).verifyUpload"},
		{"tq", "(*customAdapter).DoTransfer", "tq.verifyUpload"},
	} {
		fn := p.Fn(a.pkg, a.name)
		if fn == nil {
			c.Missing("R5", a.name, "upload-capable adapter function not found")
			continue
		}
		vcalls := CallsIn(fn, a.verify)
		if len(vcalls) == 0 {
			c.Bad("R5", a.name+":verifies", p.Pos(fn.Pos()), "the adapter never calls the upload verification")
			continue
		}
		var vpass []Edge
		for _, vc := range vcalls {
			if call, ok := vc.(*ssa.Call); ok {
				vpass = append(vpass, errNilPass(fn, call)...)
			}
		}
		// direction guard of the custom adapter: only upload paths matter; approximate by checking nil-capable returns
		type rv struct {
			r *ssa.Return
			v ssa.Value
		}
		var rvs []rv
		for _, r := range ReturnsOf(fn) {
			if r.Block().Comment == "recover" {
				continue // implicit return of the recover block of a function with defers
			}
			for _, v := range ReturnValues(r, -1) {
				rvs = append(rvs, rv{r, v})
			}
		}
		for i, x := range rvs {
			r, v := x.r, x.v
			key := fmt.Sprintf("%s:return#%d", a.name, i)
			if cc, _, isRes := CallResult(v); isRes {
				n := CalleeName(cc.Common())
				if n == a.verify {
					c.OK("R5", key, p.InstrPos(r), "success only if the verification succeeded")
					continue
				}
				if isErrorConstructor(n) && NeverNil(v) {
					continue // an error value built on the spot: a failure
				}
			}
			if NeverNil(v) {
				continue
			}
			mayNil := true
			if !IsNilConst(v) {
				nn := PassEdges(fn, func(cond ssa.Value) (bool, bool) {
					e, trueMeansNil, ok := IsErrNilCheck(cond)
					if ok && (e == v || SameVar(e, v)) {
						return !trueMeansNil, true
					}
					return false, false
				})
				if g, _ := Guarded(fn.Blocks[0], r, nn, nil); g && len(nn) > 0 {
					mayNil = false
				}
				// a φ of error constructors only
				if ph, ok := v.(*ssa.Phi); ok {
					all := true
					for _, e := range ph.Edges {
						if cc, _, isRes := CallResult(e); !isRes || !isErrorConstructor(CalleeName(cc.Common())) {
							all = false
						}
					}
					if all {
						mayNil = false
					}
				}
			}
			if !mayNil {
				continue
			}
			// nil-capable return: must be behind a passed verification, or a listed exception
			if g, _ := Guarded(fn.Blocks[0], r, vpass, nil); g && len(vpass) > 0 {
				c.OK("R5", key, p.InstrPos(r), "reachable only after the verification passed")
				continue
			}
			// exceptions
			if a.name == "(*tusUploadAdapter).DoTransfer" {
				// offset >= t.Size: server already holds every byte
				pass := PassEdges(fn, func(cond ssa.Value) (bool, bool) {
					op, x, y, ok := BinCmp(cond)
					if ok && (op == token.GEQ || op == token.LSS) {
						if _, f, _, isF := FieldOf(y); isF && f == "Size" {
							if ResultOfCallNamed(x, "strconv.ParseInt") {
								return op == token.GEQ, true
							}
						}
					}
					return false, false
				})
				if g, _ := Guarded(fn.Blocks[0], r, pass, nil); g && nonVacuous(pass) {
					c.Info("R5", key+":exception", p.InstrPos(r), "exception: tus reports success without verification when the server already holds all bytes (Upload-Offset >= size)")
					continue
				}
			}
			if a.name == "(*customAdapter).DoTransfer" {
				// the download direction ends here too: success after the hash-verified rename (C02.R1)
				down := PassEdges(fn, func(cond ssa.Value) (bool, bool) {
					op, x, y, ok := BinCmp(cond)
					if ok && op == token.EQL {
						if _, f, _, isF := FieldOf(x); isF && f == "direction" {
							if k, isK := ConstInt(y); isK && k == 0 { // Download == 0? decided below by name
								return true, true
							}
						}
					}
					return false, false
				})
				_ = down
				// both directions complete the loop through `complete = true`; require that on the upload arm the verify precedes
				armOK := true
				for _, vc := range vcalls {
					call := vc.(*ssa.Call)
					if len(errNilPass(fn, call)) == 0 {
						armOK = false
					}
				}
				if armOK {
					c.OK("R5", key, p.InstrPos(r), "the completion arm for uploads runs the verification and fails on its error")
					continue
				}
			}
			c.Bad("R5", key, p.InstrPos(r), "the adapter can report a successful upload without the upload verification having succeeded: the server may not hold the object although the push succeeds")
		}
	}
	// a custom / standalone transfer agent reports failure through the `error` member of its answer: an answer that
	// carries one is never treated as a completed transfer, whatever else it says
	if fn := p.Fn("tq", "(*customAdapter).DoTransfer"); fn != nil {
		pass := PassEdges(fn, func(cond ssa.Value) (bool, bool) {
			e, trueMeansNil, ok := IsErrNilCheck(cond)
			if ok {
				if t, f, _, isF := FieldOf(e); isF && f == "Error" && strings.Contains(t, "customAdapter") {
					return trueMeansNil, true
				}
			}
			return false, false
		})
		n := 0
		for _, ci := range CallsIn(fn, "tq.verifyUpload", "tools.VerifyFileHash", "tools.RenameFileCopyPermissions") {
			n++
			g, path := Guarded(fn.Blocks[0], ci, pass, nil)
			c.Check(g && nonVacuous(pass), "R5", fmt.Sprintf("custom-agent-error-is-failure#%d", n), p.InstrPos(ci), "the completion steps run only for an answer without an error member",
				"an answer of the transfer agent that carries an error can still be treated as a completed transfer (the error test is combined with another condition): the push succeeds although the agent failed to store the object: "+path)
		}
		c.AtLeast("R5", "completion steps of the custom adapter", n, 2)
	}
	// verifyUpload: the result is the outcome of the last request actually sent
	vu := p.Fn("tq", "verifyUpload")
	if vu == nil {
		c.Missing("R5", "tq.verifyUpload", "not found")
		return
	}
	var sends []*ssa.Call
	for _, b := range vu.Blocks {
		for _, in := range b.Instrs {
			call, ok := in.(*ssa.Call)
			if !ok {
				continue
			}
			sig := call.Call.Signature()
			if sig.Results().Len() == 2 && short(sig.Results().At(0).Type().String()) == "*net/http.Response" && LoopOf(Loops(vu), b) != nil {
				sends = append(sends, call)
			}
		}
	}
	c.AtLeast("R5", "verify request sends", len(sends), 1)
	for _, r := range ReturnsOf(vu) {
		// the return after the loop
		inLoopOrAfter := false
		for _, s := range sends {
			if s.Block().Dominates(r.Block()) || LoopOf(Loops(vu), s.Block()).Header.Dominates(r.Block()) {
				inLoopOrAfter = true
			}
		}
		if !inLoopOrAfter {
			continue
		}
		good := len(sends) > 0
		for _, s := range sends {
			found := false
			var ls []ssa.Value
			for _, v := range ReturnValues(r, 0) {
				ls = append(ls, p.LeavesNoFields(v, func(x ssa.Value) FlowAct {
					if cc, _, ok := CallResult(x); ok && cc == s {
						return Stop
					}
					return Descend
				})...)
			}
			for _, l := range ls {
				if cc, idx, ok := CallResult(l); ok && cc == s && idx == 1 {
					found = true
				}
			}
			if !found {
				good = false
			}
		}
		c.Check(good, "R5", "verifyUpload:result-is-last-attempt", p.InstrPos(r), "the value returned is the error of the verify requests sent in the loop", "verifyUpload's result does not come from the verify requests it sends (e.g. the loop's error is shadowed): a verification the server rejected is reported as success")
	}
}

var c03Canaries = []Canary{
	{Name: "r7-links-copied-from-actions", ExpectKey: "C03.R12#newTransfer:Links-copied-from-Links", Edits: []Edit{{File: "tq/transfer.go", Find: "\t\t}\n\t}\n\n\tfor rel, action := range tr.Actions {\n\t\tt.Actions[rel] = &Action{\n\t\t\tHref:      action.Href,\n\t\t\tHeader:    action.Header,\n\t\t\tExpiresAt: action.ExpiresAt,\n", Repl: "\t\t}\n\t}\n\n\tcopyActionSet(t.Actions, tr.Actions)\n\n\tif tr.Links != nil {\n\t\tt.Links = make(ActionSet)\n\t\tcopyActionSet(t.Links, tr.Actions)\n\t}\n\n\treturn t\n}\n\n// copyActionSet puts a copy of each action of \"src\" into \"dst\".\nfunc copyActionSet(dst, src ActionSet) {\n\tfor rel, action := range src {\n\t\tdst[rel] = &Action{\n\t\t\tHref:      action.Href,\n\t\t\tHeader:    action.Header,\n\t\t\tExpiresAt: action.ExpiresAt,\n"}, {File: "tq/transfer.go", Find: "\t\t\tcreatedAt: action.createdAt,\n\t\t}\n\t}\n\n\tif tr.Links != nil {\n\t\tt.Links = make(ActionSet)\n\n\t\tfor rel, link := range tr.Links {\n\t\t\tt.Links[rel] = &Action{\n\t\t\t\tHref:      link.Href,\n\t\t\t\tHeader:    link.Header,\n\t\t\t\tExpiresAt: link.ExpiresAt,\n\t\t\t\tExpiresIn: link.ExpiresIn,\n\t\t\t\tId:        link.Id,\n\t\t\t\tToken:     link.Token,\n\t\t\t\tcreatedAt: link.createdAt,\n\t\t\t}\n\t\t}\n\t}\n\n\treturn t\n}\n\ntype Action struct {\n", Repl: "\t\t\tcreatedAt: action.createdAt,\n\t\t}\n\t}\n}\n\ntype Action struct {\n"}}},
	{Name: "r7-push-scanner-filtered", ExpectKey: "C03.R1#push:scanner-has-no-path-filter", Edits: []Edit{{File: "lfs/gitscanner.go", Find: "// used for a \"git lfs push --all\" command.\nfunc NewGitScannerForPush(cfg *config.Configuration, remote string, cb GitScannerFoundLockable, potentialLockables GitScannerSet) *GitScanner {\n\treturn &GitScanner{\n\t\tcfg:                cfg,\n\t\tremote:             remote,\n\t\tskippedRefs:        calcSkippedRefs(remote),\n", Repl: "// used for a \"git lfs push --all\" command.\nfunc NewGitScannerForPush(cfg *config.Configuration, remote string, cb GitScannerFoundLockable, potentialLockables GitScannerSet) *GitScanner {\n\treturn &GitScanner{\n\t\t// Objects under 'lfs.fetchexclude' paths were never downloaded,\n\t\t// so do not report them as missing when pushing (see fsck/prune).\n\t\tFilter: filepathfilter.New(nil, cfg.FetchExcludePaths(), filepathfilter.GitIgnore),\n\n\t\tcfg:                cfg,\n\t\tremote:             remote,\n\t\tskippedRefs:        calcSkippedRefs(remote),\n"}}},
	{Name: "r6-object-id-push-without-local-object", ExpectKey: "C03.R4#push-object-id:missing-local-object-is-fatal", Edits: []Edit{{File: "commands/command_push.go", Find: "\t\t\tExitWithError(errors.Wrap(err, tr.Tr.Get(\"Unable to find local media path:\")))\n\t\t}\n\n\t\tstat, err := os.Stat(mp)\n\t\tif err != nil {\n\t\t\tExitWithError(errors.Wrap(err, tr.Tr.Get(\"Unable to stat local media path\")))\n\t\t}\n\n", Repl: "\t\t\tExitWithError(errors.Wrap(err, tr.Tr.Get(\"Unable to find local media path:\")))\n\t\t}\n\n\t\t// An object that is not in the local storage is left to the\n\t\t// transfer queue, which reports it with the other missing\n\t\t// objects and honours lfs.allowincompletepush.\n\t\tvar size int64\n\t\tif stat, err := os.Stat(mp); err == nil {\n\t\t\tsize = stat.Size()\n\t\t} else if !os.IsNotExist(err) {\n\t\t\tExitWithError(errors.Wrap(err, tr.Tr.Get(\"Unable to stat local media path\")))\n\t\t}\n\n"}, {File: "commands/command_push.go", Find: "\t\t\tName: mp,\n\t\t\tPointer: &lfs.Pointer{\n\t\t\t\tOid:  oid,\n\t\t\t\tSize: stat.Size(),\n\t\t\t},\n\t\t}\n\t}\n", Repl: "\t\t\tName: mp,\n\t\t\tPointer: &lfs.Pointer{\n\t\t\t\tOid:  oid,\n\t\t\t\tSize: size,\n\t\t\t},\n\t\t}\n\t}\n"}}},
	{Name: "r5-case-folded-ref-names", ExpectKey: "C03.R6", Edits: []Edit{{File: "lfs/gitscanner_remotes.go", Find: "\t\tif actualRemoteRefsSet.Contains(cachedRef.Name) {", Repl: "\t\tif actualRemoteRefsSet.Contains(cachedRef.Name + \"\") || actualRemoteRefsSet.Contains(cachedRef.Sha) {"}}},
	{Name: "r4-rel-drops-lookup-error", ExpectKey: "C03.R12", Edits: []Edit{{File: "tq/transfer.go", Find: "\ta, err := t.Actions.Get(name)\n\tif a != nil || err != nil {", Repl: "\ta, err := t.Actions.Get(name)\n\tif a != nil {"}}},
	{Name: "skip-small-files", ExpectKey: "C03.R1#prepareUpload:skip-condition", Edits: []Edit{{File: "commands/uploader.go", Find: "		if uniqOids.Contains(p.Oid) || c.HasUploaded(p.Oid) || p.Size == 0 {", Repl: "		if uniqOids.Contains(p.Oid) || c.HasUploaded(p.Oid) || p.Size == 0 || len(p.Name) > 4000 {"}}},
	{Name: "queue-skipped-on-clean-pointer-error", ExpectKey: "C03.R1#UploadPointers", Edits: []Edit{{File: "commands/uploader.go", Find: "		if err != nil && !errors.IsCleanPointerError(err) {\n			ExitWithError(err)\n		}\n\n		q.Add(", Repl: "		if err != nil && !errors.IsCleanPointerError(err) {\n			ExitWithError(err)\n		} else if err != nil {\n			continue\n		}\n\n		q.Add("}}},
	{Name: "drop-scanner-error", ExpectKey: "C03.R2#uploadRangeOrAll", Edits: []Edit{{File: "commands/uploader.go", Find: "	return ctx.scannerError()\n}\n\ntype uploadContext struct", Repl: "	return nil\n}\n\ntype uploadContext struct"}}},
	{Name: "forget-collect-errors", ExpectKey: "C03.R3", Edits: []Edit{{File: "commands/uploader.go", Find: "		err := uploadRangeOrAll(gitscanner, ctx, q, exclude, update, pushAll)\n		ctx.CollectErrors(q)\n", Repl: "		err := uploadRangeOrAll(gitscanner, ctx, q, exclude, update, pushAll)\n		if err == nil {\n			ctx.CollectErrors(q)\n		}\n"}}},
	{Name: "missing-only-warns", ExpectKey: "C03.R4#ReportErrors:missing-objects", Edits: []Edit{{File: "commands/uploader.go", Find: "			Print(strings.Join(pushMissingHint, \"\\n\"))\n			os.Exit(2)", Repl: "			Print(strings.Join(pushMissingHint, \"\\n\"))\n			if len(c.corrupt) > 0 {\n				os.Exit(2)\n			}"}}},
	{Name: "other-errors-ignored", ExpectKey: "C03.R4#ReportErrors:other", Edits: []Edit{{File: "commands/uploader.go", Find: "	if len(c.otherErrs) > 0 {\n		os.Exit(2)\n	}", Repl: "	if len(c.otherErrs) > 0 && !c.allowMissing {\n		os.Exit(2)\n	}"}}},
	{Name: "basic-upload-skip-verify", ExpectKey: "C03.R5", Edits: []Edit{{File: "tq/basic_upload.go", Find: "	io.Copy(io.Discard, res.Body)\n	res.Body.Close()\n\n	return verifyUpload(a.apiClient, a.remote, t)", Repl: "	io.Copy(io.Discard, res.Body)\n	res.Body.Close()\n\n	if res.StatusCode == 200 {\n		return nil\n	}\n	return verifyUpload(a.apiClient, a.remote, t)"}}},
	{Name: "verify-error-shadowed", ExpectKey: "C03.R5#verifyUpload:result-is-last-attempt", Edits: []Edit{{File: "tq/verify.go", Find: "		var res *http.Response\n		if t.Authenticated {\n			res, err = c.Do(req)\n		} else {\n			res, err = c.DoWithAuth(remote, c.Endpoints.AccessFor(action.Href), req)\n		}", Repl: "		var res *http.Response\n		var err error\n		if t.Authenticated {\n			res, err = c.Do(req)\n		} else {\n			res, err = c.DoWithAuth(remote, c.Endpoints.AccessFor(action.Href), req)\n		}"}}},
	{Name: "allow-missing-default-true", ExpectKey: "C03.R4#allowMissing-provenance", Edits: []Edit{{File: "commands/uploader.go", Find: "cfg.Git.Bool(\"lfs.allowincompletepush\", false)", Repl: "cfg.Git.Bool(\"lfs.allowincompletepush\", true)"}}},
}

// c03PushRemote (R10): the commits assumed to be on the server already are those reachable from the remote-tracking
// refs of one particular remote. That remote has to be the one the objects are uploaded to (the push remote):
// taking the exclusions from another remote skips objects the push target never received. Decided by provenance:
// the remote name handed to the push scanner comes only from Configuration.PushRemote(), like the one the
// transfer manifest of the upload is created for.
func c03PushRemote(c *Ctx) {
	p := c.P
	n := 0
	for _, fn := range p.RepoFuncs(productPkg) {
		for _, ci := range CallsIn(fn, "lfs.NewGitScannerForPush") {
			n++
			arg := ci.Common().Args[1]
			var from []string
			good := true
			for _, l := range p.Leaves(arg, func(v ssa.Value) FlowAct {
				if cc, _, ok := CallResult(v); ok && strings.HasPrefix(CalleeName(cc.Common()), "(*config.Configuration).") {
					return Stop
				}
				return Descend
			}) {
				if cc, _, ok := CallResult(l); ok {
					nm := CalleeName(cc.Common())
					from = append(from, nm)
					if nm != "(*config.Configuration).PushRemote" {
						good = false
					}
					continue
				}
				if _, isC := l.(*ssa.Const); isC {
					continue
				}
				if prm, isP := l.(*ssa.Parameter); isP && short(prm.Type().String()) != "string" {
					continue // the object whose field holds the name, not a name
				}
				from = append(from, describeValue(p, l))
				good = false
			}
			sort.Strings(from)
			c.Check(good && len(from) > 0, "R10", "push-scanner-remote:"+FnName(fn), p.InstrPos(ci), "the push scanner excludes what the push remote has (remote name from PushRemote())",
				"the push scanner takes its `already on the server` set from "+strings.Join(from, ", ")+" instead of the remote being pushed to: objects reachable from another remote's tracking refs are never uploaded to this one")
		}
	}
	c.AtLeast("R10", "push scanner constructions", n, 1)
}
