package main

import (
	"fmt"
	"go/token"
	"strings"

	"golang.org/x/tools/go/ssa"
)

// C13 — fsck reports exactly the damaged objects and pointers and only moves those.

func init() {
	register(&PropDef{
		ID:    "C13",
		Level: "other",
		Explanation: "Decides structural necessary conditions on the current source of `git lfs fsck`: (R1) an object is judged intact only when the SHA-256 of the file opened from the object path of that very oid equals the oid, or the file cannot be opened and the recorded size is 0; every pointer the scanner delivers is examined (no other condition may skip the examination) and an oid is listed as corrupt exactly under a negative verdict for that pointer; " +
			"(R2) any corrupt object or pointer leads to exit status 1 on every path; (R3) the repair is a rename of the listed objects' own paths, reachable only with --dry-run off and a non-empty list; (R4) a pointer is reported non-canonical only through its canonical flag, a non-pointer only through the scanner's pointer-scan error, every other error aborts; the tree scan for pointer checking does not filter by blob size (large non-pointers must be reported); (R5) the revisions scanned are HEAD plus index without arguments and include=B, exclude=A for A..B, filtered only by the fetch-exclude paths. Exactness over all corruption subsets depends on the scanners' completeness over histories and is not decided.",
		Assumptions: []string{
			"the Git scanners deliver every LFS pointer of the scanned revisions (C03/C05 assumptions)",
			"sha256/hex behave as documented",
		},
		Run:      runC13,
		Canaries: c13Canaries,
	})
}

func runC13(c *Ctx) {
	p := c.P
	// shared rule: history/tree scanners stop only at the end of their input (rules_c05.go)
	scannerVerdictRule(c, "R6")
	c13SingleCommit(c)
	c13ReadOnlyIndexScan(c)
	indexEntryName(c, "R3")
	scannerCloseErrorReported(c, "R6")
	revListNameIsRemainder(c, "R5")
	{
		// nested .gitattributes patterns are rebased with tools.TrimCurrentPrefix (rule of C19, shared)
		saved := c.RulePrefix
		c.RulePrefix = saved + "C19/"
		c19ArgPrefix(c)
		c.RulePrefix = saved
	}
	// `fsck --pointers` reports a file as a non-pointer through the decoder's verdict: only zero bytes are the empty pointer
	emptyShortcutRule(c, "R4")
	noFetchIncludeIn(c, "R1", "fsck examines every object except those under lfs.fetchexclude: with lfs.fetchinclude set, corrupt objects outside the include patterns are neither reported nor moved aside", "fsckCommand", "doFsckObjects", "doFsckPointers")
	treeListingsCoverWholeTree(c, "R5")
	attrFilterKeepsOptOuts(c, "R4")
	fp := p.Fn("commands", "fsckPointer")
	objs := p.Fn("commands", "doFsckObjects")
	ptrs := p.Fn("commands", "doFsckPointers")
	cmd := p.Fn("commands", "fsckCommand")
	for n, f := range map[string]*ssa.Function{"fsckPointer": fp, "doFsckObjects": objs, "doFsckPointers": ptrs, "fsckCommand": cmd} {
		if f == nil {
			c.Missing("R1", "commands."+n, "not found")
			return
		}
	}
	// ---- R1 verdict --------------------------------------------------------------------------
	var oidPrm, sizePrm *ssa.Parameter
	for _, prm := range fp.Params {
		switch prm.Name() {
		case "oid":
			oidPrm = prm
		case "size":
			sizePrm = prm
		}
	}
	// the file hashed is the object path of oid
	var open *ssa.Call
	for _, ci := range CallsIn(fp, "os.Open", "tools.RobustOpen") {
		open, _ = ci.(*ssa.Call)
	}
	pathOK := false
	oidIdx, sizeIdx := -1, -1
	for i, prm := range fp.Params {
		if prm == oidPrm {
			oidIdx = i
		}
		if prm == sizePrm {
			sizeIdx = i
		}
	}
	if open != nil {
		isPathFn := func(v ssa.Value) (*ssa.Call, bool) {
			pc, _, ok := CallResult(v)
			if ok && nameIn(CalleeName(pc.Common()), []string{"(*fs.Filesystem).ObjectPathname", "(*fs.Filesystem).ObjectPath"}) {
				return pc, true
			}
			return nil, false
		}
		// the path may be computed here or handed in by the caller together with the oid
		for _, l := range p.LeavesUp(open.Call.Args[0], func(v ssa.Value) FlowAct {
			if _, ok := isPathFn(v); ok {
				return Stop
			}
			return Descend
		}) {
			pc, ok := isPathFn(l)
			if !ok {
				pathOK = false
				break
			}
			if pc.Parent() == fp {
				pathOK = oidPrm != nil && SameVar(pc.Call.Args[1], oidPrm)
				continue
			}
			// computed by a caller: the oid it is computed for is the oid that caller passes
			pathOK = false
			for _, b := range pc.Parent().Blocks {
				for _, in := range b.Instrs {
					if cc := AsCall(in); cc != nil && cc.StaticCallee() == fp && oidIdx >= 0 && oidIdx < len(cc.Args) {
						if SameValue(cc.Args[oidIdx], pc.Call.Args[1]) || SamePath(cc.Args[oidIdx], pc.Call.Args[1]) {
							pathOK = true
						}
					}
				}
			}
			if !pathOK {
				break
			}
		}
	}
	c.Check(pathOK, "R1", "fsckPointer:opens-object-of-oid", p.Pos(fp.Pos()), "the file examined is the stored object of the oid being checked", "fsckPointer does not open the object path of the oid it was asked to check")
	var hashEq []Edge
	hashEq = PassEdges(fp, func(cond ssa.Value) (bool, bool) {
		op, x, y, ok := BinCmp(cond)
		if !ok || (op != token.EQL && op != token.NEQ) {
			return false, false
		}
		isOid := func(v ssa.Value) bool { return oidPrm != nil && SameVar(v, oidPrm) }
		isHash := func(v ssa.Value) bool {
			hc, _, ok := CallResult(v)
			if !ok || CalleeName(hc.Common()) != "encoding/hex.EncodeToString" {
				return false
			}
			sc, _, ok := CallResult(hc.Call.Args[0])
			if !ok || !strings.HasSuffix(CalleeName(sc.Common()), ".Sum") {
				return false
			}
			h := Unwrap(CallArgs(sc.Common())[0])
			if nc, _, ok := CallResult(h); !ok || CalleeName(nc.Common()) != "crypto/sha256.New" {
				return false
			}
			// io.Copy(h, f) with f the opened file
			for _, cp := range CallsIn(fp, "io.Copy") {
				a := cp.Common().Args
				if Unwrap(a[0]) == h && open != nil && ResultOfCall(a[1], open, 0) {
					return true
				}
			}
			return false
		}
		if isOid(x) && isHash(y) || isOid(y) && isHash(x) {
			return op == token.EQL, true
		}
		return false, false
	})
	sizeZero := PassEdges(fp, func(cond ssa.Value) (bool, bool) {
		op, x, y, ok := BinCmp(cond)
		if !ok {
			return false, false
		}
		if k, isK := ConstInt(y); isK && k == 0 && sizePrm != nil && SameVar(x, sizePrm) {
			if op == token.EQL {
				return true, true
			}
			if op == token.NEQ {
				return false, true
			}
		}
		return false, false
	})
	nTrue := 0
	for _, r := range ReturnsOf(fp) {
		bv, isC := ConstBool(r.Results[0])
		if !isC {
			c.Undecided("R1", "fsckPointer:verdict", p.InstrPos(r), "non-constant verdict")
			continue
		}
		if !bv {
			continue
		}
		nTrue++
		g, path := Guarded(fp.Blocks[0], r, append(append([]Edge{}, hashEq...), sizeZero...), nil)
		c.Check(g && len(hashEq) > 0, "R1", "fsckPointer:intact-only-if-hash-matches", p.InstrPos(r), "an object is intact only when its recomputed SHA-256 equals its oid (or it is the empty object)", "an object can be judged intact without its recomputed hash having been compared equal to its oid: "+path)
	}
	c.AtLeast("R1", "positive verdicts in fsckPointer", nTrue, 1)
	// the scanner callback examines every pointer and lists exactly the failed ones
	for _, af := range objs.AnonFuncs {
		calls := CallsIn(af, "commands.fsckPointer")
		if len(calls) == 0 {
			continue
		}
		call := calls[0].(*ssa.Call)
		// arguments are fields of the same pointer
		ai, si := 1, 2
		if oidIdx >= 0 && sizeIdx >= 0 && oidIdx < len(call.Call.Args) && sizeIdx < len(call.Call.Args) {
			ai, si = oidIdx, sizeIdx
		}
		_, f1, b1, ok1 := FieldOf(call.Call.Args[ai])
		_, f2, b2, ok2 := FieldOf(call.Call.Args[si])
		c.Check(ok1 && ok2 && f1 == "Oid" && f2 == "Size" && SamePath(b1, b2), "R1", "doFsckObjects:checks-the-delivered-pointer", p.InstrPos(call), "the delivered pointer's own oid and size are checked", "fsckPointer is not called with the oid and size of the pointer the scanner delivered")
		for _, dc := range decidingConds(af, call.Block()) {
			_, _, isErrTest := IsErrNilCheck(dc.Cond)
			c.Check(isErrTest, "R1", "doFsckObjects:examines-every-pointer:"+describeCond(dc.Cond), p.InstrPos(dc.If), "examination depends only on the scanner's error", "whether a delivered pointer is examined depends on "+describeCond(dc.Cond)+": a damaged object behind a skipped pointer is not reported")
		}
		// append only under !pointerOk with p.Oid
		for _, b := range af.Blocks {
			for _, in := range b.Instrs {
				if !isAppendOf(in, "string") {
					continue
				}
				el := variadicElems(in.(*ssa.Call).Call.Args[1])
				okEl := false
				if len(el) == 1 {
					_, f, bb, ok := FieldOf(el[0])
					okEl = ok && f == "Oid" && SamePath(bb, b1)
				}
				pass := PassEdges(af, func(cond ssa.Value) (bool, bool) {
					if ResultOfCall(cond, call, 0) {
						return false, true
					}
					return false, false
				})
				g, path := Guarded(af.Blocks[0], in, pass, noReturnCommands)
				c.Check(okEl && g && nonVacuous(pass), "R1", "doFsckObjects:lists-only-failed", p.InstrPos(in), "an oid is listed as corrupt only after a negative verdict for that pointer", "an oid can be listed as corrupt (and later moved away) without a negative verdict for it: "+path)
			}
		}
		// a negative verdict always lists: cut the append block; from the false edge the closure must not return
		for _, b := range af.Blocks {
			ifi, ok := lastInstr(b).(*ssa.If)
			if !ok {
				continue
			}
			cond, flip := stripNot(ifi.Cond)
			if !ResultOfCall(cond, call, 0) {
				continue
			}
			fe := Edge{b, 1}
			if flip {
				fe = Edge{b, 0}
			}
			listed := false
			for rb := range ReachBlocks(fe.To(), nil, nil) {
				if rb != fe.To() {
					continue
				}
				for _, in := range rb.Instrs {
					if isAppendOf(in, "string") {
						listed = true
					}
				}
			}
			c.Check(listed, "R1", "doFsckObjects:failed-always-listed", p.InstrPos(ifi), "a negative verdict always lists the oid", "a negative verdict does not always add the oid to the corrupt list")
		}
	}

	// ---- R2 exit status --------------------------------------------------------------------------
	var objCall, ptrCall *ssa.Call
	for _, ci := range CallsIn(cmd, "commands.doFsckObjects") {
		objCall, _ = ci.(*ssa.Call)
	}
	for _, ci := range CallsIn(cmd, "commands.doFsckPointers") {
		ptrCall, _ = ci.(*ssa.Call)
	}
	scenario := func(name string, objsBad, ptrsBad bool) {
		assume := func(v ssa.Value) (*ssa.Const, bool) {
			if op, x, y, ok := BinCmp(v); ok {
				if k, isK := ConstInt(y); isK && k == 0 {
					if lc, ok := x.(*ssa.Call); ok {
						if bi, ok := lc.Call.Value.(*ssa.Builtin); ok && bi.Name() == "len" {
							var bad, known bool
							if objCall != nil && ResultOfCall(lc.Call.Args[0], objCall, 0) {
								bad, known = objsBad, true
							}
							if ptrCall != nil && ResultOfCall(lc.Call.Args[0], ptrCall, 0) {
								bad, known = ptrsBad, true
							}
							if known {
								switch op {
								case token.EQL:
									return boolConst(!bad, v.Type()), true
								case token.NEQ, token.GTR:
									return boolConst(bad, v.Type()), true
								}
							}
						}
					}
				}
			}
			if u, ok := v.(*ssa.UnOp); ok {
				if g, ok := u.X.(*ssa.Global); ok && (g.Name() == "fsckObjects" || g.Name() == "fsckPointers") {
					return boolConst(true, v.Type()), true
				}
			}
			return nil, false
		}
		returned := ""
		start := cmd.Blocks[0]
		ExploreX(start, nil, nil, noReturnCommands, nil, assume, func(in ssa.Instruction, st PState) bool {
			if r, ok := in.(*ssa.Return); ok && r.Block().Comment != "recover" {
				returned = p.InstrPos(r)
				return false
			}
			return true
		})
		c.Check(returned == "", "R2", "exit-status:"+name, p.Pos(cmd.Pos()), "fsck exits non-zero", "with "+name+" fsck can finish with exit status 0 ("+returned+")")
	}
	if objCall == nil || ptrCall == nil {
		c.Missing("R2", "doFsckObjects/doFsckPointers calls in fsckCommand", "not found")
	} else {
		scenario("corrupt-objects", true, false)
		scenario("corrupt-pointers", false, true)
	}

	// ---- R3 repair ---------------------------------------------------------------------------------
	for _, ci := range CallsIn(cmd, "os.Rename", "tools.RobustRename") {
		dry := PassEdges(cmd, func(cond ssa.Value) (bool, bool) {
			if u, ok := cond.(*ssa.UnOp); ok {
				if g, ok := u.X.(*ssa.Global); ok && g.Name() == "fsckDryRun" {
					return false, true
				}
			}
			return false, false
		})
		g, path := Guarded(cmd.Blocks[0], ci, dry, noReturnCommands)
		c.Check(g && len(dry) > 0, "R3", "repair-not-under-dry-run", p.InstrPos(ci), "objects are moved only when --dry-run is off", "fsck can move objects although --dry-run was given: "+path)
		// source is the object path of an element of the corrupt list
		src := ci.Common().Args[0]
		okSrc := false
		if pc, _, ok := CallResult(src); ok && nameIn(CalleeName(pc.Common()), []string{"(*fs.Filesystem).ObjectPathname", "(*fs.Filesystem).ObjectPath"}) {
			for _, l := range p.LeavesNoFields(pc.Call.Args[1], func(v ssa.Value) FlowAct {
				if objCall != nil && v == ssa.Value(objCall) {
					return Stop
				}
				return Descend
			}) {
				if objCall != nil && (l == ssa.Value(objCall) || ResultOfCall(l, objCall, 0)) {
					okSrc = true
				}
			}
		}
		c.Check(okSrc, "R3", "repair-moves-only-listed", p.InstrPos(ci), "only objects on the corrupt list are moved", "fsck moves a path that is not the object path of an oid on the corrupt list")
	}
	c.AtLeast("R3", "repair rename sites", len(CallsIn(cmd, "os.Rename", "tools.RobustRename")), 1)

	// ---- R4 pointer check ------------------------------------------------------------------------------
	for _, af := range ptrs.AnonFuncs {
		for _, b := range af.Blocks {
			for _, in := range b.Instrs {
				if !isAppendOf(in, "commands.corruptPointer") {
					continue
				}
				// which kind?
				kind := ""
				for _, l := range p.LeavesNoFields(in.(*ssa.Call).Call.Args[1], nil) {
					if s, ok := ConstString(l); ok && (s == "nonCanonicalPointer" || s == "unexpectedGitObject") {
						kind = s
					}
				}
				var pass []Edge
				switch kind {
				case "nonCanonicalPointer":
					pass = PassEdges(af, func(cond ssa.Value) (bool, bool) {
						if _, f, _, ok := FieldOf(cond); ok && f == "Canonical" {
							return false, true
						}
						return false, false
					})
				case "unexpectedGitObject":
					pass = PassEdges(af, func(cond ssa.Value) (bool, bool) {
						if cc, ok := cond.(*ssa.Call); ok && CalleeName(&cc.Call) == "errors.IsPointerScanError" {
							return true, true
						}
						return false, false
					})
				default:
					c.Undecided("R4", "pointer-report:unknown-kind", p.InstrPos(in), "a pointer problem of an unknown kind is reported")
					continue
				}
				g, path := Guarded(af.Blocks[0], in, pass, noReturnCommands)
				c.Check(g && nonVacuous(pass), "R4", "pointer-report:"+kind, p.InstrPos(in), "reported only for its own cause", kind+" can be reported without its cause having been established: "+path)
			}
		}
		// other errors abort
		pan := CallsIn(af, "commands.Panic", "commands.ExitWithError")
		c.Check(len(pan) >= 1, "R4", "pointer-scan:other-errors-abort", p.Pos(af.Pos()), "any other scanner error aborts fsck", "scanner errors other than pointer-scan errors do not abort the pointer check")
	}
	// the tree scan for pointers must not filter by blob size
	if st := p.Fn("lfs", "runScanTreeForPointers"); st != nil {
		cutoff, _ := constInt64(p, "lfs", "blobSizeCutoff")
		bad := ""
		for _, f := range WithAnon(st) {
			for _, b := range f.Blocks {
				for _, in := range b.Instrs {
					if bo, ok := in.(*ssa.BinOp); ok {
						if k, isK := ConstInt(bo.Y); isK && k == cutoff {
							if _, fld, _, isF := FieldOf(bo.X); isF && fld == "Size" {
								bad = p.InstrPos(in)
							}
						}
					}
				}
			}
		}
		c.Check(bad == "", "R4", "tree-scan-keeps-large-blobs", p.Pos(st.Pos()), "blobs of any size in tracked paths reach the pointer check", "the tree listing for the pointer check filters blobs by the pointer-size cutoff ("+bad+"): raw content of cutoff size or more committed to an LFS-tracked path is no longer reported")
	} else {
		c.Missing("R4", "lfs.runScanTreeForPointers", "not found")
	}

	// ---- R5 scope -----------------------------------------------------------------------------------------
	for _, x := range []struct {
		fn   *ssa.Function
		call string
	}{{objs, "(*lfs.GitScanner).ScanRefRange"}, {ptrs, "(*lfs.GitScanner).ScanRefRangeByTree"}} {
		for _, ci := range CallsIn(x.fn, x.call) {
			a := ci.Common().Args
			inc, isP1 := Unwrap(a[1]).(*ssa.Parameter)
			exc, isP2 := Unwrap(a[2]).(*ssa.Parameter)
			c.Check(isP1 && isP2 && inc.Name() == "include" && exc.Name() == "exclude", "R5", "range-order:"+x.call, p.InstrPos(ci), "range scanned as include=B, exclude=A", "the revision range is scanned with include and exclude swapped")
		}
	}
	// filter: only the fetch-exclude paths
	for _, ci := range CallsIn(objs, "filepathfilter.New") {
		a := ci.Common().Args
		okf := IsNilConst(a[0])
		if ec, _, ok := CallResult(a[1]); !ok || CalleeName(ec.Common()) != "(*config.Configuration).FetchExcludePaths" {
			okf = false
		}
		c.Check(okf, "R5", "object-check-filter", p.InstrPos(ci), "only lfs.fetchexclude paths are left out of the object check", "the object check is restricted by something other than the fetch-exclude paths")
	}
	// A..B: exclude = refs[0], include = refs[1]
	okAB := false
	for _, b := range cmd.Blocks {
		for _, in := range b.Instrs {
			ph, ok := in.(*ssa.Phi)
			if !ok || (ph.Comment != "include" && ph.Comment != "exclude") {
				continue
			}
			for _, e := range ph.Edges {
				if _, f, base, isF := FieldOf(e); isF && f == "Sha" {
					if u, ok := base.(*ssa.UnOp); ok {
						if ia, ok := u.X.(*ssa.IndexAddr); ok {
							k, _ := ConstInt(ia.Index)
							if ph.Comment == "exclude" && k == 0 {
								okAB = true
							}
							if ph.Comment == "exclude" && k != 0 {
								c.Bad("R5", "range-endpoints", p.InstrPos(in), "for A..B the excluded revision is not A")
							}
						}
					}
				}
			}
		}
	}
	c.Check(okAB, "R5", "range-endpoints:exclude-is-first", p.Pos(cmd.Pos()), "for A..B, A is excluded and B included", "cannot confirm that for A..B the first revision is the excluded one")
}

var c13Canaries = []Canary{
	{Name: "r7-rev-list-name-field", ExpectKey: "C13.R5#rev-list:name-is-rest-of-line", Edits: []Edit{{File: "git/rev_list_scanner.go", Find: "\t\treturn nil, \"\", err\n\t}\n\n\tvar name string\n\tif len(line) > len(oidhex) {\n\t\tname = line[len(oidhex)+1:]\n\t}\n\n\treturn oid, name, nil\n", Repl: "\t\treturn nil, \"\", err\n\t}\n\n\t// The object name, if any, follows the object ID and is separated\n\t// from it by whitespace.\n\tvar name string\n\tif fields := strings.Fields(line); len(fields) > 1 {\n\t\tname = fields[1]\n\t}\n\n\treturn oid, name, nil\n"}}},
	{Name: "r6-rev-list-close-error-dropped", ExpectKey: "C13.R6#rev-list:close-error-reported", Edits: []Edit{{File: "lfs/gitscanner_refs.go", Find: "\terrs := make(chan error, 5) // may be multiple errors\n\n\tgo func() {\n\t\tfor revListScanner.Scan() {\n\t\t\tsha := hex.EncodeToString(revListScanner.OID())\n\t\t\tif name := revListScanner.Name(); len(name) > 0 {\n", Repl: "\terrs := make(chan error, 5) // may be multiple errors\n\n\tgo func() {\n\t\tdefer close(errs)\n\t\tdefer close(revs)\n\t\tdefer revListScanner.Close()\n\n\t\tfor revListScanner.Scan() {\n\t\t\tsha := hex.EncodeToString(revListScanner.OID())\n\t\t\tif name := revListScanner.Name(); len(name) > 0 {\n"}, {File: "lfs/gitscanner_refs.go", Find: "\t\t\trevs <- sha\n\t\t}\n\n\t\tif err = revListScanner.Err(); err != nil {\n\t\t\terrs <- err\n\t\t}\n\n\t\tif err = revListScanner.Close(); err != nil {\n\t\t\terrs <- err\n\t\t}\n\n\t\tclose(revs)\n\t\tclose(errs)\n\t}()\n\n\treturn NewStringChannelWrapper(revs, errs), nameMap, nil\n", Repl: "\t\t\trevs <- sha\n\t\t}\n\n\t\tif err := revListScanner.Err(); err != nil {\n\t\t\terrs <- err\n\t\t}\n\t}()\n\n\treturn NewStringChannelWrapper(revs, errs), nameMap, nil\n"}}},
	{Name: "r5-ls-tree-full-name", ExpectKey: "C13.R5#git.LsTree", Edits: []Edit{{File: "git/git.go", Find: "\t\t\"--full-tree\", // start at the root regardless of where we are in it", Repl: "\t\t\"--full-name\", // start at the root regardless of where we are in it"}}},
	{Name: "r4-source-name-first", ExpectKey: "C13.R3#index-entry-name", Edits: []Edit{{File: "lfs/gitscanner_index.go", Find: "\t\t\tvar name string = scanner.Entry().DstName\n\t\t\tif len(name) == 0 {\n\t\t\t\tname = scanner.Entry().SrcName", Repl: "\t\t\tvar name string = scanner.Entry().SrcName\n\t\t\tif len(name) == 0 {\n\t\t\t\tname = scanner.Entry().DstName"}}},
	{Name: "ok-after-mismatch", ExpectKey: "C13.R1#fsckPointer", Edits: []Edit{{File: "commands/command_fsck.go", Find: "	Print(fmt.Sprintf(\"objects: corruptObject: %s\", tr.Tr.Get(\"%s (%s) is corrupt\", name, oid)))\n	return false, nil", Repl: "	Print(fmt.Sprintf(\"objects: corruptObject: %s\", tr.Tr.Get(\"%s (%s) is corrupt\", name, oid)))\n	return size < 0, nil"}}},
	{Name: "hash-compare-name", ExpectKey: "C13.R1#fsckPointer:intact-only-if-hash-matches", Edits: []Edit{{File: "commands/command_fsck.go", Find: "	if recalculatedOid == oid {", Repl: "	if recalculatedOid == name {"}}},
	{Name: "skip-seen-names", ExpectKey: "C13.R1#doFsckObjects:examines-every-pointer", Edits: []Edit{{File: "commands/command_fsck.go", Find: "	var corruptOids []string\n	gitscanner := lfs.NewGitScanner(cfg, func(p *lfs.WrappedPointer, err error) {\n		if err == nil {\n			var pointerOk bool", Repl: "	var corruptOids []string\n	seen := map[string]bool{}\n	gitscanner := lfs.NewGitScanner(cfg, func(p *lfs.WrappedPointer, err error) {\n		if err == nil && !seen[p.Name] {\n			seen[p.Name] = true\n			var pointerOk bool"}}},
	{Name: "list-when-ok", ExpectKey: "C13.R1#doFsckObjects:lists-only-failed", Edits: []Edit{{File: "commands/command_fsck.go", Find: "			if !pointerOk {\n				corruptOids = append(corruptOids, p.Oid)\n			}", Repl: "			if !pointerOk || p.Size == 0 {\n				corruptOids = append(corruptOids, p.Oid)\n			}"}}},
	{Name: "exit-zero-on-corrupt-pointers", ExpectKey: "C13.R2#exit-status:corrupt-pointers", Edits: []Edit{{File: "commands/command_fsck.go", Find: "		ok = ok && len(corruptPointers) == 0", Repl: "		ok = ok || len(corruptPointers) == 0"}}},
	{Name: "dry-run-moves", ExpectKey: "C13.R3#repair-not-under-dry-run", Edits: []Edit{{File: "commands/command_fsck.go", Find: "	if fsckDryRun || len(corruptOids) == 0 {", Repl: "	if fsckDryRun && len(corruptOids) == 0 {"}}},
	{Name: "noncanonical-always", ExpectKey: "C13.R4#pointer-report:nonCanonicalPointer", Edits: []Edit{{File: "commands/command_fsck.go", Find: "			if !p.Canonical {", Repl: "			if !p.Canonical || len(p.Extensions) > 0 {"}}},
	{Name: "tree-scan-size-filter", ExpectKey: "C13.R4#tree-scan-keeps-large-blobs", Edits: []Edit{{File: "lfs/gitscanner_tree.go", Find: "		return t != nil && (t.Mode == 0100644 || t.Mode == 0100755)", Repl: "		return t != nil && t.Size < blobSizeCutoff && (t.Mode == 0100644 || t.Mode == 0100755)"}}},
	{Name: "swap-range", ExpectKey: "C13.R5#range-order", Edits: []Edit{{File: "commands/command_fsck.go", Find: "		if err := gitscanner.ScanRefRange(include, exclude, nil); err != nil {", Repl: "		if err := gitscanner.ScanRefRange(exclude, include, nil); err != nil {"}}},
}

// c13SingleCommit (R5, second half): `git lfs fsck` without arguments, or with one commit, checks that commit (and
// the index) — not its history. The single-ref scans tell rev-list not to walk (--no-walk) through the scanner's
// skipDeletedBlobs flag; without it the tree of every ancestor is visited and pointers that were fixed or removed
// long ago are reported against a healthy revision. Decided: ScanRef and ScanRefByTree set the flag to true before
// their scan runs, and no other scan entry point sets it.
func c13SingleCommit(c *Ctx) {
	p := c.P
	want := map[string]bool{"(*GitScanner).ScanRef": true, "(*GitScanner).ScanRefByTree": true}
	for _, fn := range p.RepoFuncs(func(s string) bool { return s == Mod+"/lfs" }) {
		name := strings.TrimPrefix(FnName(fn), "lfs.")
		name = strings.Replace(name, "(*lfs.GitScanner)", "(*GitScanner)", 1)
		if !strings.HasPrefix(name, "(*GitScanner).Scan") {
			continue
		}
		var stores []*ssa.Store
		for _, b := range fn.Blocks {
			for _, in := range b.Instrs {
				if st, ok := in.(*ssa.Store); ok {
					if fa, ok := st.Addr.(*ssa.FieldAddr); ok {
						if _, f := fieldAddrName(fa); f == "skipDeletedBlobs" {
							stores = append(stores, st)
						}
					}
				}
			}
		}
		if !want[name] {
			for _, st := range stores {
				bv, isC := ConstBool(st.Val)
				c.Check(isC && !bv, "R5", "no-walk-only-for-single-ref:"+name, p.InstrPos(st), "range/history scans walk", name+" switches history walking off: commits inside the range are no longer scanned")
			}
			continue
		}
		// the private scan routines this entry point runs
		var scans []ssa.CallInstruction
		for _, b := range fn.Blocks {
			for _, in := range b.Instrs {
				if cc := AsCall(in); cc != nil && cc.StaticCallee() != nil && cc.StaticCallee().Pkg == fn.Pkg {
					cn := cc.StaticCallee().Name()
					if strings.HasPrefix(cn, "scan") {
						scans = append(scans, in.(ssa.CallInstruction))
					}
				}
			}
		}
		good := len(scans) > 0
		why := name + " does not run a scan itself (it delegates to an entry point that walks history)"
		for _, sc := range scans {
			dom := false
			for _, st := range stores {
				if bv, isC := ConstBool(st.Val); isC && bv && (st.Block() == sc.Block() && InstrIndex(st) < InstrIndex(sc) || st.Block().Dominates(sc.Block()) && st.Block() != sc.Block()) {
					dom = true
				}
			}
			if !dom {
				good = false
				why = name + " runs its scan without having set skipDeletedBlobs (rev-list --no-walk)"
			}
		}
		c.Check(good, "R5", "single-ref-scan-does-not-walk:"+name, p.Pos(fn.Pos()), "the scan of one ref looks at that commit only (--no-walk)",
			why+": the trees of all ancestor commits are scanned and problems that exist only in history are reported for the checked revision")
	}
}

// c13ReadOnlyIndexScan (R3, fsck touches nothing it does not report): fsck's scan of the index must not refresh the
// index — `git update-index --refresh` runs the clean filter over stat-dirty files, which writes objects into the
// store (and re-creates deleted ones from the working tree). The scanner's refresh switch is the constant false at
// the index scan used by fsck (only `git lfs status` refreshes).
func c13ReadOnlyIndexScan(c *Ctx) {
	p := c.P
	fn := p.Fn("lfs", "revListIndex")
	if fn == nil {
		c.Missing("R3", "lfs.revListIndex", "not found")
		return
	}
	n := 0
	for _, ci := range CallsIn(fn, "lfs.NewDiffIndexScanner") {
		n++
		args := ci.Common().Args
		bv, isC := ConstBool(args[2])
		c.Check(isC && !bv, "R3", fmt.Sprintf("index-scan-does-not-refresh#%d", n), p.InstrPos(ci), "the index scan never refreshes the index", "the index scan behind fsck (and prune, fetch) asks for an index refresh: `git update-index --refresh` runs the clean filter on stat-dirty files, so `fsck --dry-run` adds objects to the store and re-creates deleted ones from unverified working-tree content")
	}
	c.AtLeast("R3", "diff-index scanners in revListIndex", n, 1)
}
