package main

import (
	"go/token"
	"strings"

	"golang.org/x/tools/go/ssa"
)

// Rules added after seeding round 7. Same conventions as rules_round4.go: each rule names its anchor functions,
// counts the instances it decided, and reports the construct that breaks it.

// transferPathIsLocal (C02): where an adapter stores a downloaded object is decided by the client alone: the Path
// of the Transfer handed to an adapter is the `path` argument of newTransfer (the local object path its caller
// computed) — never a value taken from the batch-response object, whose JSON form has a "path" member too.
func transferPathIsLocal(c *Ctx, rule string) {
	p := c.P
	fn := p.Fn("tq", "newTransfer")
	if fn == nil || len(fn.Params) == 0 {
		c.Missing(rule, "tq.newTransfer", "not found")
		return
	}
	n := 0
	for _, b := range fn.Blocks {
		for _, in := range b.Instrs {
			st, ok := in.(*ssa.Store)
			if !ok {
				continue
			}
			fa, ok := st.Addr.(*ssa.FieldAddr)
			if !ok {
				continue
			}
			if tn, f := fieldAddrName(fa); tn != "tq.Transfer" || f != "Path" {
				continue
			}
			n++
			good := true
			for _, l := range p.LeavesNoFields(st.Val, nil) {
				prm, isP := l.(*ssa.Parameter)
				if !isP || prm.Parent() != fn || short(prm.Type().String()) != "string" {
					good = false
				}
			}
			c.Check(good, rule, "newTransfer:path-is-the-callers#"+itoa(n), p.InstrPos(st), "the transfer's path is the local path computed by the caller",
				"newTransfer can take the transfer's Path from the batch-response object: a server that adds a \"path\" member decides where the downloaded bytes are stored, the object is reported as fetched and is not in local storage")
		}
	}
	c.AtLeast(rule, "stores of Transfer.Path in newTransfer", n, 1)
}

// actionSetsCopiedFromTheirOwn (C03, C18): newTransfer copies the response object's `actions` into Actions and its
// `_links` into Links. Each map filled in newTransfer is filled inside a range loop over the same field of the
// source object: Links filled from Actions (or the reverse) loses the hrefs a server sent under `_links`, Rel()
// finds no upload action and the object is taken for already present.
func actionSetsCopiedFromTheirOwn(c *Ctx, rule string) {
	p := c.P
	fn := p.Fn("tq", "newTransfer")
	if fn == nil || len(fn.Params) == 0 {
		c.Missing(rule, "tq.newTransfer", "not found")
		return
	}
	loops := Loops(fn)
	n := 0
	for _, b := range fn.Blocks {
		for _, in := range b.Instrs {
			mu, ok := in.(*ssa.MapUpdate)
			if !ok {
				continue
			}
			tn, f, _, isF := FieldOf(mu.Map)
			if !isF || tn != "tq.Transfer" || (f != "Actions" && f != "Links") {
				continue
			}
			n++
			good := false
			if l := LoopOf(loops, b); l != nil {
				if ro := l.RangedOperand(); ro != nil {
					if tn2, f2, base, ok := FieldOf(ro); ok && tn2 == "tq.Transfer" && f2 == f && SameVar(base, fn.Params[0]) {
						good = true
					}
				}
			}
			c.Check(good, rule, "newTransfer:"+f+"-copied-from-"+f, p.InstrPos(mu), "the set is filled from the same set of the response object",
				"newTransfer fills "+f+" from a different set of the response object: hrefs a server sends under `_links` (or `actions`) are lost, Rel(\"upload\") returns nothing and the object is skipped as already on the server")
		}
	}
	c.AtLeast(rule, "action-set fills in newTransfer", n, 2)
}

// pushScannerUnfiltered (C03): a push uploads every LFS object of the pushed commits, whatever its path. The scanner
// built for pushing carries no path filter: neither its constructor nor any function the push commands reach
// stores a GitScanner.Filter (fetch, pull, checkout, fsck, prune and ls-files set one on their own scanners).
func pushScannerUnfiltered(c *Ctx, rule string) {
	p := c.P
	var roots []*ssa.Function
	for _, n := range [][2]string{{"lfs", "NewGitScannerForPush"}, {"commands", "pushCommand"}, {"commands", "prePushCommand"}} {
		fn := p.Fn(n[0], n[1])
		if fn == nil {
			c.Missing(rule, n[0]+"."+n[1], "not found")
			return
		}
		roots = append(roots, fn)
	}
	reach := staticReach(p, roots...)
	bad := ""
	for fn := range reach {
		for _, b := range fn.Blocks {
			for _, in := range b.Instrs {
				st, ok := in.(*ssa.Store)
				if !ok {
					continue
				}
				fa, ok := st.Addr.(*ssa.FieldAddr)
				if !ok {
					continue
				}
				if tn, f := fieldAddrName(fa); tn == "lfs.GitScanner" && f == "Filter" && !IsNilConst(st.Val) {
					if w := FnName(fn) + " at " + p.InstrPos(st); bad == "" || w < bad {
						bad = w
					}
				}
			}
		}
	}
	c.Check(bad == "" && len(reach) >= 20, rule, "push:scanner-has-no-path-filter", p.Pos(roots[0].Pos()), "no function reached by push sets a path filter on the scanner",
		"the scanner used for pushing gets a path filter ("+bad+"): LFS objects of pushed commits whose paths the filter rejects (e.g. lfs.fetchexclude) are silently left out of the upload while the ref is updated")
}

var _ = token.EQL
var _ = strings.HasPrefix

// smudgeReadsLocalObjectOnlyAtPointerSize (C01, C04, C14): Smudge streams the local object only when its length is
// the pointer's size — on every path to readLocalFile the size comparison came out equal, whether or not a
// download is allowed. A short or long local file (interrupted copy, full disk) is never emitted with success.
func smudgeReadsLocalObjectOnlyAtPointerSize(c *Ctx, rule string) {
	p := c.P
	fn := p.Fn("lfs", "(*GitFilter).Smudge")
	if fn == nil {
		c.Missing(rule, "(*lfs.GitFilter).Smudge", "not found")
		return
	}
	isPtrSize := func(v ssa.Value) bool {
		tn, f, _, ok := FieldOf(v)
		return ok && tn == "lfs.Pointer" && f == "Size"
	}
	isFileSize := func(v ssa.Value) bool {
		cc, _, ok := CallResult(v)
		return ok && strings.HasSuffix(CalleeName(cc.Common()), "FileInfo).Size")
	}
	pass := PassEdges(fn, func(cond ssa.Value) (bool, bool) {
		op, x, y, ok := BinCmp(cond)
		if !ok || (op != token.EQL && op != token.NEQ) {
			return false, false
		}
		if (isPtrSize(x) && isFileSize(y)) || (isPtrSize(y) && isFileSize(x)) {
			return op == token.EQL, true
		}
		return false, false
	})
	n := 0
	for _, ci := range CallsIn(fn, "(*lfs.GitFilter).readLocalFile") {
		n++
		g, where := Guarded(fn.Blocks[0], ci, pass, nil)
		c.Check(g && nonVacuous(pass), rule, "smudge:local-object-read-only-at-pointer-size#"+itoa(n), p.InstrPos(ci), "the local object is streamed only when its size equals the pointer's",
			"Smudge can stream a local object whose size differs from the pointer's ("+where+"): with downloads not allowed (checkout, pull, delayed filter-process) a truncated object is written out with success instead of being refused and removed")
	}
	c.AtLeast(rule, "readLocalFile calls in Smudge", n, 1)
}

// downloadFileHoldsOnlyVerifiedBytes (C02): the download adapters hash the bytes they receive, not the file they
// write; so the temporary file must contain exactly those bytes. The only size change applied to it besides the
// copy is Truncate(0) (restart from scratch): a Truncate to any other length (e.g. a size announced by the server)
// leaves bytes in the file that were never hashed.
func downloadFileHoldsOnlyVerifiedBytes(c *Ctx, rule string) {
	p := c.P
	n := 0
	for _, fn := range p.RepoFuncs(func(path string) bool { return path == PkgPath("tq") }) {
		for _, f := range WithAnon(fn) {
			for _, ci := range CallsIn(f, "(*os.File).Truncate", "os.Truncate") {
				a := CallArgs(ci.Common())
				n++
				k, isK := ConstInt(a[len(a)-1])
				c.Check(isK && k == 0, rule, "download:temp-file-only-truncated-to-zero:"+FnName(f)+"#"+itoa(n), p.InstrPos(ci), "the file is only ever cut back to nothing",
					"a transfer adapter sets the length of the file it writes to something other than 0: bytes that were never received (and never hashed) become part of the object moved into local storage")
			}
		}
	}
	c.AtLeast(rule, "Truncate calls in package tq", n, 1)
}

// cleanNamesObjectAfterStoredBytes (C09): clean stores the temporary file under the oid it puts into the pointer.
// That oid is the digest of the bytes written to that file: the tee hasher's result (copyToTemp) or, with pointer
// extensions, the output digest of the last extension (`oidOut`) — never the digest of the untransformed input.
func cleanNamesObjectAfterStoredBytes(c *Ctx, rule string) {
	p := c.P
	fn := p.Fn("lfs", "(*GitFilter).Clean")
	if fn == nil {
		c.Missing(rule, "(*lfs.GitFilter).Clean", "not found")
		return
	}
	n := 0
	for _, ci := range CallsIn(fn, "lfs.NewPointer") {
		n++
		good := true
		stop := func(v ssa.Value) FlowAct {
			if cc, _, ok := CallResult(v); ok && CalleeName(cc.Common()) == "(*lfs.GitFilter).copyToTemp" {
				return Stop
			}
			if _, f, _, ok := FieldOf(v); ok && f == "oidOut" {
				return Stop
			}
			return Descend
		}
		for _, l := range p.LeavesNoFields(ci.Common().Args[0], stop) {
			if cc, idx, ok := CallResult(l); ok && CalleeName(cc.Common()) == "(*lfs.GitFilter).copyToTemp" && idx == 0 {
				continue
			}
			if _, f, _, ok := FieldOf(l); ok && f == "oidOut" {
				continue
			}
			if s, isC := ConstString(l); isC && s == "" {
				continue
			}
			if _, isAl := l.(*ssa.Alloc); isAl {
				continue
			}
			good = false
		}
		c.Check(good, rule, "clean:object-named-after-stored-bytes#"+itoa(n), p.InstrPos(ci), "the oid is the digest of the bytes in the temporary file",
			"clean can name the object after something other than the digest of the bytes it stored (e.g. the digest of the input before the extensions ran): the file placed in local storage does not hash to its name")
	}
	c.AtLeast(rule, "pointer constructions in Clean", n, 1)
}

// pathListElementsTrimmed (C04): the pattern lists of lfs.fetchinclude / lfs.fetchexclude / -I / -X are written
// "a/**, b/**" as often as "a/**,b/**". In tools.CleanPaths every element that reaches the result went through
// strings.TrimSpace on its own (trimming the whole list once only helps the first and the last element).
func pathListElementsTrimmed(c *Ctx, rule string) {
	p := c.P
	fn := p.Fn("tools", "CleanPaths")
	if fn == nil {
		c.Missing(rule, "tools.CleanPaths", "not found")
		return
	}
	var splits []ssa.Value
	for _, ci := range CallsIn(fn, "strings.Split", "strings.SplitN", "strings.FieldsFunc", "strings.SplitSeq") {
		if v, ok := ci.(ssa.Value); ok {
			splits = append(splits, v)
		}
	}
	isSplit := func(v ssa.Value) bool {
		for _, s := range splits {
			if v == s {
				return true
			}
		}
		return false
	}
	n := 0
	for _, b := range fn.Blocks {
		for _, in := range b.Instrs {
			call, ok := in.(*ssa.Call)
			if !ok {
				continue
			}
			bi, isB := call.Call.Value.(*ssa.Builtin)
			if !isB || bi.Name() != "append" || len(call.Call.Args) < 2 || short(call.Type().String()) != "[]string" {
				continue
			}
			for _, e := range variadicOrdered(call.Call.Args[1]) {
				if e == nil {
					continue
				}
				n++
				raw, trimmed := false, false
				for _, l := range p.LeavesNoFields(e, func(v ssa.Value) FlowAct {
					if cc, _, ok := CallResult(v); ok && CalleeName(cc.Common()) == "strings.TrimSpace" {
						return Stop
					}
					if isSplit(v) {
						return Stop
					}
					return Descend
				}) {
					if isSplit(l) {
						raw = true
					}
					if cc, _, ok := CallResult(l); ok && CalleeName(cc.Common()) == "strings.TrimSpace" {
						trimmed = true
					}
				}
				c.Check(trimmed && !raw, rule, "CleanPaths:each-element-trimmed#"+itoa(n), p.InstrPos(call), "every list element is white-space trimmed on its own",
					"tools.CleanPaths can return a list element that was not trimmed on its own: in `a/**, b/**` every pattern after the first keeps its leading blank and matches nothing — files selected only by it stay pointers, files excluded only by it are downloaded")
			}
		}
	}
	c.AtLeast(rule, "elements appended in CleanPaths", n, 1)
}

// checkoutScansTheResolvedCommit (C04): pull and checkout list the LFS files of the commit HEAD resolved to. They
// hand ScanLFSFiles the object id (Ref.Sha), not the short name, which Git would resolve again — and differently
// when a tag and a branch share it.
func checkoutScansTheResolvedCommit(c *Ctx, rule string) {
	p := c.P
	n := 0
	for _, fn := range p.RepoFuncs(func(path string) bool { return path == PkgPath("commands") }) {
		for _, f := range WithAnon(fn) {
			for _, ci := range CallsIn(f, "(*lfs.GitScanner).ScanLFSFiles") {
				a := CallArgs(ci.Common())
				n++
				tn, fld, _, ok := FieldOf(a[1])
				c.Check(ok && tn == "git.Ref" && fld == "Sha", rule, "scan-lfs-files:by-object-id:"+FnName(f), p.InstrPos(ci), "the tree scanned is named by the resolved object id",
					"ScanLFSFiles is given something other than the resolved ref's Sha (e.g. its short name): Git resolves the name again, a tag of the same name wins over the branch, and pull/checkout walk the tag's tree — newer files stay pointers with exit 0")
			}
		}
	}
	c.AtLeast(rule, "ScanLFSFiles calls in commands", n, 2)
}

// recordCutAtFirstSeparator: in the given functions every split of a record at the separator sep cuts it in two
// (SplitN(…, 2) or Cut): the value after the first separator is taken verbatim, separators included.
func recordCutAtFirstSeparator(c *Ctx, rule, key string, fns []*ssa.Function, sep string, min int, bad string) {
	p := c.P
	n := 0
	for _, h := range fns {
		for _, ci := range CallsIn(h, "strings.Split", "strings.SplitN", "strings.Fields", "strings.FieldsFunc", "strings.Cut", "strings.SplitAfterN", "strings.SplitAfter") {
			a := CallArgs(ci.Common())
			name := CalleeName(ci.Common())
			if name != "strings.Fields" && name != "strings.FieldsFunc" {
				if len(a) < 2 {
					continue
				}
				if s, ok := ConstString(a[1]); !ok || s != sep {
					continue
				}
			} else if strings.TrimSpace(sep) != "" {
				continue // Fields splits at white space only
			}
			n++
			good := false
			switch name {
			case "strings.SplitN":
				if k, ok := ConstInt(a[2]); ok && k == 2 {
					good = true
				}
			case "strings.Cut":
				good = true
			}
			c.Check(good, rule, key+"#"+itoa(n), p.InstrPos(ci), "the record is cut at the first separator only", bad)
		}
	}
	c.AtLeast(rule, "record splits for "+key, n, min)
}

// worktreeRecordKeepsPath (C05): `git worktree list --porcelain` prints "worktree <path>" with the path verbatim.
func worktreeRecordKeepsPath(c *Ctx, rule string) {
	fn := c.P.Fn("git", "GetAllWorktrees")
	if fn == nil {
		c.Missing(rule, "git.GetAllWorktrees", "not found")
		return
	}
	recordCutAtFirstSeparator(c, rule, "worktree-list:value-is-everything-after-first-space", samePkgReach(fn, 2, "git.ParseRef", "git.gitNoLFS", "git.git"), " ", 1,
		"a line of `git worktree list --porcelain` is split at every blank: a worktree whose path contains a space is dropped from the list, and prune deletes the objects only its checkout and index refer to")
}

// recentRefsCoverAllRefs (C05): the refs prune treats as recent are taken from all of refs/ — branches, remote
// branches and tags. RecentBranches asks `git for-each-ref` for the pattern "refs" and nothing narrower.
func recentRefsCoverAllRefs(c *Ctx, rule string) {
	p := c.P
	fn := p.Fn("git", "RecentBranches")
	if fn == nil {
		c.Missing(rule, "git.RecentBranches", "not found")
		return
	}
	n := 0
	for _, ci := range CallsIn(fn, gitRunners...) {
		a := CallArgs(ci.Common())
		vecs, ok := ArgVectors(a[len(a)-1])
		if !ok || len(vecs) == 0 {
			c.Undecided(rule, "git.RecentBranches:argv", p.InstrPos(ci), "the argument vector could not be enumerated")
			continue
		}
		n++
		good := true
		for _, vec := range vecs {
			all, narrower, isFER := false, false, false
			for _, e := range vec {
				s, isC := ConstString(e.V)
				if !isC || e.Spread {
					if e.Spread {
						narrower = true // patterns that cannot be read off the source
					}
					continue
				}
				switch {
				case s == "for-each-ref":
					isFER = true
				case s == "refs" || s == "refs/":
					all = true
				case strings.HasPrefix(s, "refs/"):
					narrower = true
				}
			}
			if isFER && (!all || narrower) {
				good = false
			}
		}
		c.Check(good, rule, "recent-refs:listed-from-all-of-refs", p.InstrPos(ci), "for-each-ref is asked for every ref",
			"RecentBranches does not list all of refs/: a recent tag (or other ref) is no longer a recent ref, and prune deletes objects only its commit refers to")
	}
	c.AtLeast(rule, "git invocations in RecentBranches", n, 1)
}
