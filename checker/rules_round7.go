package main

import (
	"go/constant"
	"go/token"
	"go/types"
	"strings"

	"golang.org/x/tools/go/ssa"
)

// Rules added after seeding round 7. Same conventions as rules_round4.go: each rule names its anchor functions,
// counts the instances it decided, and reports the construct that breaks it.

// transferPathIsLocal (C02): where an adapter stores a downloaded object is decided by the client alone: the Path
// of the Transfer handed to an adapter is the `path` argument of newTransfer (the local object path its caller
// computed) — never a value taken from the batch-response object, whose JSON form has a "path" member too.
func transferPathIsLocal(c *Ctx, rule string) {
	p := c.P
	fn := p.Fn("tq", "newTransfer")
	if fn == nil || len(fn.Params) == 0 {
		c.Missing(rule, "tq.newTransfer", "not found")
		return
	}
	n := 0
	for _, b := range fn.Blocks {
		for _, in := range b.Instrs {
			st, ok := in.(*ssa.Store)
			if !ok {
				continue
			}
			fa, ok := st.Addr.(*ssa.FieldAddr)
			if !ok {
				continue
			}
			if tn, f := fieldAddrName(fa); tn != "tq.Transfer" || f != "Path" {
				continue
			}
			n++
			good := true
			for _, l := range p.LeavesNoFields(st.Val, nil) {
				prm, isP := l.(*ssa.Parameter)
				if !isP || prm.Parent() != fn || short(prm.Type().String()) != "string" {
					good = false
				}
			}
			c.Check(good, rule, "newTransfer:path-is-the-callers#"+itoa(n), p.InstrPos(st), "the transfer's path is the local path computed by the caller",
				"newTransfer can take the transfer's Path from the batch-response object: a server that adds a \"path\" member decides where the downloaded bytes are stored, the object is reported as fetched and is not in local storage")
		}
	}
	c.AtLeast(rule, "stores of Transfer.Path in newTransfer", n, 1)
}

// actionSetsCopiedFromTheirOwn (C03, C18): newTransfer copies the response object's `actions` into Actions and its
// `_links` into Links. Each map filled in newTransfer is filled inside a range loop over the same field of the
// source object: Links filled from Actions (or the reverse) loses the hrefs a server sent under `_links`, Rel()
// finds no upload action and the object is taken for already present.
func actionSetsCopiedFromTheirOwn(c *Ctx, rule string) {
	p := c.P
	fn := p.Fn("tq", "newTransfer")
	if fn == nil || len(fn.Params) == 0 {
		c.Missing(rule, "tq.newTransfer", "not found")
		return
	}
	loops := Loops(fn)
	// a map made here and stored into one of the two fields later (a helper's result, once expanded) is that field's
	madeFor := map[ssa.Value]string{}
	for _, b := range fn.Blocks {
		for _, in := range b.Instrs {
			st, ok := in.(*ssa.Store)
			if !ok {
				continue
			}
			fa, ok := st.Addr.(*ssa.FieldAddr)
			if !ok {
				continue
			}
			if tn, f := fieldAddrName(fa); tn == "tq.Transfer" && (f == "Actions" || f == "Links") {
				for _, l := range p.LeavesNoFields(st.Val, nil) {
					if _, isMk := l.(*ssa.MakeMap); isMk {
						madeFor[l] = f
					}
				}
			}
		}
	}
	n := 0
	for _, b := range fn.Blocks {
		for _, in := range b.Instrs {
			mu, ok := in.(*ssa.MapUpdate)
			if !ok {
				continue
			}
			tn, f, _, isF := FieldOf(mu.Map)
			if !isF {
				for _, l := range p.LeavesNoFields(mu.Map, nil) {
					if ff, ok := madeFor[l]; ok {
						tn, f, isF = "tq.Transfer", ff, true
					}
				}
			}
			if !isF || tn != "tq.Transfer" || (f != "Actions" && f != "Links") {
				continue
			}
			n++
			good := false
			if l := LoopOf(loops, b); l != nil {
				if ro := l.RangedOperand(); ro != nil {
					if tn2, f2, base, ok := FieldOf(ro); ok && tn2 == "tq.Transfer" && f2 == f && SameVar(base, fn.Params[0]) {
						good = true
					}
				}
			}
			c.Check(good, rule, "newTransfer:"+f+"-copied-from-"+f, p.InstrPos(mu), "the set is filled from the same set of the response object",
				"newTransfer fills "+f+" from a different set of the response object: hrefs a server sends under `_links` (or `actions`) are lost, Rel(\"upload\") returns nothing and the object is skipped as already on the server")
		}
	}
	c.AtLeast(rule, "action-set fills in newTransfer", n, 2)
}

// pushScannerUnfiltered (C03): a push uploads every LFS object of the pushed commits, whatever its path. The scanner
// built for pushing carries no path filter: neither its constructor nor any function the push commands reach
// stores a GitScanner.Filter (fetch, pull, checkout, fsck, prune and ls-files set one on their own scanners).
func pushScannerUnfiltered(c *Ctx, rule string) {
	p := c.P
	var roots []*ssa.Function
	for _, n := range [][2]string{{"lfs", "NewGitScannerForPush"}, {"commands", "pushCommand"}, {"commands", "prePushCommand"}} {
		fn := p.Fn(n[0], n[1])
		if fn == nil {
			c.Missing(rule, n[0]+"."+n[1], "not found")
			return
		}
		roots = append(roots, fn)
	}
	reach := staticReach(p, roots...)
	bad := ""
	for fn := range reach {
		for _, b := range fn.Blocks {
			for _, in := range b.Instrs {
				st, ok := in.(*ssa.Store)
				if !ok {
					continue
				}
				fa, ok := st.Addr.(*ssa.FieldAddr)
				if !ok {
					continue
				}
				if tn, f := fieldAddrName(fa); tn == "lfs.GitScanner" && f == "Filter" && !IsNilConst(st.Val) {
					if w := FnName(fn) + " at " + p.InstrPos(st); bad == "" || w < bad {
						bad = w
					}
				}
			}
		}
	}
	c.Check(bad == "" && len(reach) >= 20, rule, "push:scanner-has-no-path-filter", p.Pos(roots[0].Pos()), "no function reached by push sets a path filter on the scanner",
		"the scanner used for pushing gets a path filter ("+bad+"): LFS objects of pushed commits whose paths the filter rejects (e.g. lfs.fetchexclude) are silently left out of the upload while the ref is updated")
}

var _ = token.EQL
var _ = strings.HasPrefix

// smudgeReadsLocalObjectOnlyAtPointerSize (C01, C04, C14): Smudge streams the local object only when its length is
// the pointer's size — on every path to readLocalFile the size comparison came out equal, whether or not a
// download is allowed. A short or long local file (interrupted copy, full disk) is never emitted with success.
func smudgeReadsLocalObjectOnlyAtPointerSize(c *Ctx, rule string) {
	p := c.P
	fn := p.Fn("lfs", "(*GitFilter).Smudge")
	if fn == nil {
		c.Missing(rule, "(*lfs.GitFilter).Smudge", "not found")
		return
	}
	isPtrSize := func(v ssa.Value) bool {
		tn, f, _, ok := FieldOf(v)
		return ok && tn == "lfs.Pointer" && f == "Size"
	}
	isFileSize := func(v ssa.Value) bool {
		cc, _, ok := CallResult(v)
		return ok && strings.HasSuffix(CalleeName(cc.Common()), "FileInfo).Size")
	}
	pass := PassEdges(fn, func(cond ssa.Value) (bool, bool) {
		op, x, y, ok := BinCmp(cond)
		if !ok || (op != token.EQL && op != token.NEQ) {
			return false, false
		}
		if (isPtrSize(x) && isFileSize(y)) || (isPtrSize(y) && isFileSize(x)) {
			return op == token.EQL, true
		}
		return false, false
	})
	n := 0
	for _, ci := range CallsIn(fn, "(*lfs.GitFilter).readLocalFile") {
		n++
		g, where := Guarded(fn.Blocks[0], ci, pass, nil)
		c.Check(g && nonVacuous(pass), rule, "smudge:local-object-read-only-at-pointer-size#"+itoa(n), p.InstrPos(ci), "the local object is streamed only when its size equals the pointer's",
			"Smudge can stream a local object whose size differs from the pointer's ("+where+"): with downloads not allowed (checkout, pull, delayed filter-process) a truncated object is written out with success instead of being refused and removed")
	}
	c.AtLeast(rule, "readLocalFile calls in Smudge", n, 1)
}

// downloadFileHoldsOnlyVerifiedBytes (C02): the download adapters hash the bytes they receive, not the file they
// write; so the temporary file must contain exactly those bytes. The only size change applied to it besides the
// copy is Truncate(0) (restart from scratch): a Truncate to any other length (e.g. a size announced by the server)
// leaves bytes in the file that were never hashed.
func downloadFileHoldsOnlyVerifiedBytes(c *Ctx, rule string) {
	p := c.P
	n := 0
	for _, fn := range p.RepoFuncs(func(path string) bool { return path == PkgPath("tq") }) {
		for _, f := range WithAnon(fn) {
			for _, ci := range CallsIn(f, "(*os.File).Truncate", "os.Truncate") {
				a := CallArgs(ci.Common())
				n++
				k, isK := ConstInt(a[len(a)-1])
				c.Check(isK && k == 0, rule, "download:temp-file-only-truncated-to-zero:"+FnName(f)+"#"+itoa(n), p.InstrPos(ci), "the file is only ever cut back to nothing",
					"a transfer adapter sets the length of the file it writes to something other than 0: bytes that were never received (and never hashed) become part of the object moved into local storage")
			}
		}
	}
	c.AtLeast(rule, "Truncate calls in package tq", n, 1)
}

// cleanNamesObjectAfterStoredBytes (C09): clean stores the temporary file under the oid it puts into the pointer.
// That oid is the digest of the bytes written to that file: the tee hasher's result (copyToTemp) or, with pointer
// extensions, the output digest of the last extension (`oidOut`) — never the digest of the untransformed input.
func cleanNamesObjectAfterStoredBytes(c *Ctx, rule string) {
	p := c.P
	fn := p.Fn("lfs", "(*GitFilter).Clean")
	if fn == nil {
		c.Missing(rule, "(*lfs.GitFilter).Clean", "not found")
		return
	}
	n := 0
	for _, ci := range CallsIn(fn, "lfs.NewPointer") {
		n++
		good := true
		stop := func(v ssa.Value) FlowAct {
			if cc, _, ok := CallResult(v); ok && CalleeName(cc.Common()) == "(*lfs.GitFilter).copyToTemp" {
				return Stop
			}
			if _, f, _, ok := FieldOf(v); ok && f == "oidOut" {
				return Stop
			}
			return Descend
		}
		for _, l := range p.LeavesNoFields(ci.Common().Args[0], stop) {
			if cc, idx, ok := CallResult(l); ok && CalleeName(cc.Common()) == "(*lfs.GitFilter).copyToTemp" && idx == 0 {
				continue
			}
			if _, f, _, ok := FieldOf(l); ok && f == "oidOut" {
				continue
			}
			if s, isC := ConstString(l); isC && s == "" {
				continue
			}
			if _, isAl := l.(*ssa.Alloc); isAl {
				continue
			}
			good = false
		}
		c.Check(good, rule, "clean:object-named-after-stored-bytes#"+itoa(n), p.InstrPos(ci), "the oid is the digest of the bytes in the temporary file",
			"clean can name the object after something other than the digest of the bytes it stored (e.g. the digest of the input before the extensions ran): the file placed in local storage does not hash to its name")
	}
	c.AtLeast(rule, "pointer constructions in Clean", n, 1)
}

// pathListElementsTrimmed (C04): the pattern lists of lfs.fetchinclude / lfs.fetchexclude / -I / -X are written
// "a/**, b/**" as often as "a/**,b/**". In tools.CleanPaths every element that reaches the result went through
// strings.TrimSpace on its own (trimming the whole list once only helps the first and the last element).
func pathListElementsTrimmed(c *Ctx, rule string) {
	p := c.P
	fn := p.Fn("tools", "CleanPaths")
	if fn == nil {
		c.Missing(rule, "tools.CleanPaths", "not found")
		return
	}
	var splits []ssa.Value
	for _, ci := range CallsIn(fn, "strings.Split", "strings.SplitN", "strings.FieldsFunc", "strings.SplitSeq") {
		if v, ok := ci.(ssa.Value); ok {
			splits = append(splits, v)
		}
	}
	isSplit := func(v ssa.Value) bool {
		for _, s := range splits {
			if v == s {
				return true
			}
		}
		return false
	}
	n := 0
	for _, b := range fn.Blocks {
		for _, in := range b.Instrs {
			call, ok := in.(*ssa.Call)
			if !ok {
				continue
			}
			bi, isB := call.Call.Value.(*ssa.Builtin)
			if !isB || bi.Name() != "append" || len(call.Call.Args) < 2 || short(call.Type().String()) != "[]string" {
				continue
			}
			for _, e := range variadicOrdered(call.Call.Args[1]) {
				if e == nil {
					continue
				}
				n++
				raw, trimmed := false, false
				for _, l := range p.LeavesNoFields(e, func(v ssa.Value) FlowAct {
					if cc, _, ok := CallResult(v); ok && CalleeName(cc.Common()) == "strings.TrimSpace" {
						return Stop
					}
					if isSplit(v) {
						return Stop
					}
					return Descend
				}) {
					if isSplit(l) {
						raw = true
					}
					if cc, _, ok := CallResult(l); ok && CalleeName(cc.Common()) == "strings.TrimSpace" {
						trimmed = true
					}
				}
				c.Check(trimmed && !raw, rule, "CleanPaths:each-element-trimmed#"+itoa(n), p.InstrPos(call), "every list element is white-space trimmed on its own",
					"tools.CleanPaths can return a list element that was not trimmed on its own: in `a/**, b/**` every pattern after the first keeps its leading blank and matches nothing — files selected only by it stay pointers, files excluded only by it are downloaded")
			}
		}
	}
	c.AtLeast(rule, "elements appended in CleanPaths", n, 1)
}

// checkoutScansTheResolvedCommit (C04): pull and checkout list the LFS files of the commit HEAD resolved to. They
// hand ScanLFSFiles the object id (Ref.Sha), not the short name, which Git would resolve again — and differently
// when a tag and a branch share it.
func checkoutScansTheResolvedCommit(c *Ctx, rule string) {
	p := c.P
	n := 0
	for _, fn := range p.RepoFuncs(func(path string) bool { return path == PkgPath("commands") }) {
		for _, f := range WithAnon(fn) {
			for _, ci := range CallsIn(f, "(*lfs.GitScanner).ScanLFSFiles") {
				a := CallArgs(ci.Common())
				n++
				tn, fld, _, ok := FieldOf(a[1])
				c.Check(ok && tn == "git.Ref" && fld == "Sha", rule, "scan-lfs-files:by-object-id:"+FnName(f), p.InstrPos(ci), "the tree scanned is named by the resolved object id",
					"ScanLFSFiles is given something other than the resolved ref's Sha (e.g. its short name): Git resolves the name again, a tag of the same name wins over the branch, and pull/checkout walk the tag's tree — newer files stay pointers with exit 0")
			}
		}
	}
	c.AtLeast(rule, "ScanLFSFiles calls in commands", n, 2)
}

// recordCutAtFirstSeparator: in the given functions every split of a record at the separator sep cuts it in two
// (SplitN(…, 2) or Cut): the value after the first separator is taken verbatim, separators included.
func recordCutAtFirstSeparator(c *Ctx, rule, key string, fns []*ssa.Function, sep string, min int, bad string) {
	p := c.P
	n := 0
	for _, h := range fns {
		for _, ci := range CallsIn(h, "strings.Split", "strings.SplitN", "strings.Fields", "strings.FieldsFunc", "strings.Cut", "strings.SplitAfterN", "strings.SplitAfter") {
			a := CallArgs(ci.Common())
			name := CalleeName(ci.Common())
			if name != "strings.Fields" && name != "strings.FieldsFunc" {
				if len(a) < 2 {
					continue
				}
				if s, ok := ConstString(a[1]); !ok || s != sep {
					continue
				}
			} else if strings.TrimSpace(sep) != "" {
				continue // Fields splits at white space only
			}
			n++
			good := false
			switch name {
			case "strings.SplitN":
				if k, ok := ConstInt(a[2]); ok && k == 2 {
					good = true
				}
			case "strings.Cut":
				good = true
			}
			c.Check(good, rule, key+"#"+itoa(n), p.InstrPos(ci), "the record is cut at the first separator only", bad)
		}
	}
	c.AtLeast(rule, "record splits for "+key, n, min)
}

// worktreeRecordKeepsPath (C05): `git worktree list --porcelain` prints "worktree <path>" with the path verbatim.
func worktreeRecordKeepsPath(c *Ctx, rule string) {
	fn := c.P.Fn("git", "GetAllWorktrees")
	if fn == nil {
		c.Missing(rule, "git.GetAllWorktrees", "not found")
		return
	}
	recordCutAtFirstSeparator(c, rule, "worktree-list:value-is-everything-after-first-space", samePkgReach(fn, 2, "git.ParseRef", "git.gitNoLFS", "git.git"), " ", 1,
		"a line of `git worktree list --porcelain` is split at every blank: a worktree whose path contains a space is dropped from the list, and prune deletes the objects only its checkout and index refer to")
}

// recentRefsCoverAllRefs (C05): the refs prune treats as recent are taken from all of refs/ — branches, remote
// branches and tags. RecentBranches asks `git for-each-ref` for the pattern "refs" and nothing narrower.
func recentRefsCoverAllRefs(c *Ctx, rule string) {
	p := c.P
	fn := p.Fn("git", "RecentBranches")
	if fn == nil {
		c.Missing(rule, "git.RecentBranches", "not found")
		return
	}
	n := 0
	for _, ci := range CallsIn(fn, gitRunners...) {
		a := CallArgs(ci.Common())
		vecs, ok := ArgVectors(a[len(a)-1])
		if !ok || len(vecs) == 0 {
			c.Undecided(rule, "git.RecentBranches:argv", p.InstrPos(ci), "the argument vector could not be enumerated")
			continue
		}
		n++
		good := true
		for _, vec := range vecs {
			all, narrower, isFER := false, false, false
			for _, e := range vec {
				s, isC := ConstString(e.V)
				if !isC || e.Spread {
					if e.Spread {
						narrower = true // patterns that cannot be read off the source
					}
					continue
				}
				switch {
				case s == "for-each-ref":
					isFER = true
				case s == "refs" || s == "refs/":
					all = true
				case strings.HasPrefix(s, "refs/"):
					narrower = true
				}
			}
			if isFER && (!all || narrower) {
				good = false
			}
		}
		c.Check(good, rule, "recent-refs:listed-from-all-of-refs", p.InstrPos(ci), "for-each-ref is asked for every ref",
			"RecentBranches does not list all of refs/: a recent tag (or other ref) is no longer a recent ref, and prune deletes objects only its commit refers to")
	}
	c.AtLeast(rule, "git invocations in RecentBranches", n, 1)
}

// concatKeepsEveryTuple (C06): (batch).Concat sorts the union of two batches into "ready now" (left) and "later"
// (right) and must hand back every tuple in one of its two results — also when left is cut down to the batch size.
// For each return, each of the two accumulating appends of the loop is contained in a result as a whole, or in two
// complementary slices x[:k] and x[k:].
func concatKeepsEveryTuple(c *Ctx, rule string) {
	p := c.P
	fn := p.Fn("tq", "(batch).Concat")
	if fn == nil {
		c.Missing(rule, "(tq.batch).Concat", "not found")
		return
	}
	loops := Loops(fn)
	var accs []*ssa.Call
	for _, b := range fn.Blocks {
		if LoopOf(loops, b) == nil {
			continue
		}
		for _, in := range b.Instrs {
			if call, ok := in.(*ssa.Call); ok {
				if bi, isB := call.Call.Value.(*ssa.Builtin); isB && bi.Name() == "append" && short(call.Type().String()) == "tq.batch" {
					accs = append(accs, call)
				}
			}
		}
	}
	c.AtLeast(rule, "accumulating appends in Concat's loop", len(accs), 2)
	// full(v): values contained in v as a whole; slices: the sub-slices taken on the way
	var walk func(v ssa.Value, full map[ssa.Value]bool, slices *[]*ssa.Slice, d int)
	walk = func(v ssa.Value, full map[ssa.Value]bool, slices *[]*ssa.Slice, d int) {
		if v == nil || full[v] || d > 12 {
			return
		}
		full[v] = true
		switch x := v.(type) {
		case *ssa.Phi:
			for _, e := range x.Edges {
				walk(e, full, slices, d+1)
			}
		case *ssa.Call:
			if bi, isB := x.Call.Value.(*ssa.Builtin); isB && bi.Name() == "append" {
				walk(x.Call.Args[0], full, slices, d+1)
				if len(x.Call.Args) > 1 {
					walk(x.Call.Args[1], full, slices, d+1)
				}
			}
		case *ssa.ChangeType:
			walk(x.X, full, slices, d+1)
		case *ssa.Convert:
			walk(x.X, full, slices, d+1)
		case *ssa.Slice:
			if x.Low == nil && x.High == nil {
				walk(x.X, full, slices, d+1)
			} else {
				*slices = append(*slices, x)
			}
		}
	}
	n := 0
	for _, r := range ReturnsOf(fn) {
		if len(r.Results) < 2 {
			continue
		}
		n++
		full := map[ssa.Value]bool{}
		var slices []*ssa.Slice
		walk(r.Results[0], full, &slices, 0)
		walk(r.Results[1], full, &slices, 0)
		for i, a := range accs {
			covered := full[a]
			if !covered {
				// two complementary slices of something that holds the accumulator as a whole
				for _, s1 := range slices {
					for _, s2 := range slices {
						if s1.Low == nil && s1.High != nil && s2.High == nil && s2.Low != nil && s1.High == s2.Low {
							f1, f2 := map[ssa.Value]bool{}, map[ssa.Value]bool{}
							var dummy []*ssa.Slice
							walk(s1.X, f1, &dummy, 0)
							walk(s2.X, f2, &dummy, 0)
							if f1[a] && f2[a] {
								covered = true
							}
						}
					}
				}
			}
			c.Check(covered, rule, "Concat:result-holds-every-tuple:return#"+itoa(n)+":acc#"+itoa(i+1), p.InstrPos(r), "what the loop collected is handed back in full",
				"(batch).Concat can return without one of the two sets it collected: objects waiting for their retry time are dropped when more than a batch of ready objects is available — they are never sent again and Wait() never returns")
		}
	}
	c.AtLeast(rule, "returns of Concat", n, 1)
}

// agentReadErrorEndsTheRead (C06): a custom transfer agent that exits or closes its output yields an error (EOF)
// from the line read. After any non-nil error from that read, readResponse neither reads again nor parses: the
// parse and any further read are reached only through the error's nil edge.
func agentReadErrorEndsTheRead(c *Ctx, rule string) {
	p := c.P
	fn := p.Fn("tq", "(*customAdapter).readResponse")
	if fn == nil {
		c.Missing(rule, "(*tq.customAdapter).readResponse", "not found")
		return
	}
	reads := CallsIn(fn, "(*bufio.Reader).ReadString", "(*bufio.Reader).ReadBytes", "(*bufio.Reader).ReadLine", "(*bufio.Scanner).Scan")
	n := 0
	for _, ri := range reads {
		rd, ok := ri.(*ssa.Call)
		if !ok {
			continue
		}
		pass := PassEdges(fn, func(cond ssa.Value) (bool, bool) {
			if e, trueMeansNil, ok := IsErrNilCheck(cond); ok && ResultOfCall(e, rd, 1) {
				return trueMeansNil, true
			}
			return false, false
		})
		var sinks []ssa.Instruction
		for _, ci := range CallsIn(fn, "encoding/json.Unmarshal", "(*encoding/json.Decoder).Decode") {
			sinks = append(sinks, ci)
		}
		for _, r2 := range reads {
			sinks = append(sinks, r2)
		}
		for _, s := range sinks {
			n++
			g, where := GuardedFrom(rd, s, pass)
			c.Check(g && nonVacuous(pass), rule, "custom-agent:read-error-ends-the-read#"+itoa(n), p.InstrPos(s), "after a failed read nothing more is read or parsed",
				"readResponse goes on after the read of the agent's answer failed ("+where+"): when the agent process dies, EOF is returned for ever, the worker never delivers a result and Wait() never returns")
		}
	}
	c.AtLeast(rule, "reads and parses in readResponse", n, 2)
}

// GuardedFrom: every path that starts right after instruction `from` and reaches `sink` crosses a pass edge.
func GuardedFrom(from ssa.Instruction, sink ssa.Instruction, pass []Edge) (bool, string) {
	cut := EdgeSet(pass)
	hit := false
	before := ExploreOverflow
	ExploreOverflow = false
	ExploreX(nil, from, nil, nil, cut, nil, func(in ssa.Instruction, st PState) bool {
		if in == sink {
			hit = true
		}
		return !hit
	})
	over := ExploreOverflow
	ExploreOverflow = before || over
	if !hit && !over {
		return true, ""
	}
	return false, "after " + from.String()
}

// notAPointerIsNotAnError (C08): filter-process passes content that is not a pointer through unchanged and tells
// Git so with status=success. The status sent for a request is computed from the command's error only after the
// informational not-a-pointer error was cleared: the value given to statusFromErr / delayedStatusFromErr is nil
// on the edge where errors.IsNotAPointerError held.
func notAPointerIsNotAnError(c *Ctx, rule string) {
	p := c.P
	fn := p.Fn("commands", "filterCommand")
	if fn == nil {
		c.Missing(rule, "commands.filterCommand", "not found")
		return
	}
	// the true-successors of `if errors.IsNotAPointerError(e)`
	cleared := map[*ssa.BasicBlock]ssa.Value{}
	for _, b := range fn.Blocks {
		if ifi, ok := lastInstr(b).(*ssa.If); ok {
			cond, flip := stripNot(ifi.Cond)
			if cc, _, ok := CallResult(cond); ok && strings.HasSuffix(CalleeName(cc.Common()), "errors.IsNotAPointerError") {
				k := 0
				if flip {
					k = 1
				}
				cleared[b.Succs[k]] = cc.Call.Args[0]
			}
		}
	}
	n := 0
	for _, ci := range CallsIn(fn, "commands.statusFromErr", "commands.delayedStatusFromErr") {
		a := ci.Common().Args[0]
		if IsNilConst(a) {
			continue
		}
		if cc, _, ok := CallResult(a); ok && strings.HasSuffix(CalleeName(cc.Common()), ".Flush") {
			continue // the flush error, not the command's
		}
		n++
		// the value is — possibly merged with the flush error first — a φ that is nil on the edge coming from a
		// block entered only when the not-a-pointer test held
		var hasClearedNil func(v ssa.Value, d int) bool
		hasClearedNil = func(v ssa.Value, d int) bool {
			ph, ok := v.(*ssa.Phi)
			if !ok || d > 3 {
				return false
			}
			for i, e := range ph.Edges {
				if i >= len(ph.Block().Preds) {
					continue
				}
				if IsNilConst(e) {
					pb := ph.Block().Preds[i]
					for cb := range cleared {
						if cb == pb || cb.Dominates(pb) {
							return true
						}
					}
				} else if hasClearedNil(e, d+1) {
					return true
				}
			}
			return false
		}
		good := hasClearedNil(a, 0)
		c.Check(good, rule, "filter-process:status-after-not-a-pointer-cleared#"+itoa(n), p.InstrPos(ci), "the status is computed from the error after the not-a-pointer case was cleared",
			"filter-process computes a request's status from the error before the informational not-a-pointer error is cleared: content passed through unchanged is answered with status=error, Git discards it and (with filter.lfs.required) aborts the checkout")
	}
	c.AtLeast(rule, "status computations from the command's error", n, 2)
}

// hostMatchNeedsEqualLabelCount (C10, C11): a `http.<url>.*` / `lfs.<url>.*` / `credential.<url>.*` key applies to
// a request only if the host names have the same number of labels (a `*` stands for exactly one label, as in Git).
// compareHosts returns a non-zero score only after the two label counts compared equal.
func hostMatchNeedsEqualLabelCount(c *Ctx, rule string) {
	p := c.P
	fn := p.Fn("config", "compareHosts")
	if fn == nil {
		c.Missing(rule, "config.compareHosts", "not found")
		return
	}
	isLen := func(v ssa.Value) bool {
		call, ok := v.(*ssa.Call)
		if !ok {
			return false
		}
		bi, isB := call.Call.Value.(*ssa.Builtin)
		return isB && bi.Name() == "len"
	}
	pass := PassEdges(fn, func(cond ssa.Value) (bool, bool) {
		op, x, y, ok := BinCmp(cond)
		if !ok || !isLen(x) || !isLen(y) {
			return false, false
		}
		switch op {
		case token.EQL:
			return true, true
		case token.NEQ:
			return false, true
		}
		return false, false
	})
	n := 0
	for _, r := range ReturnsOf(fn) {
		if k, isK := ConstInt(r.Results[0]); isK && k == 0 {
			continue
		}
		n++
		g, where := Guarded(fn.Blocks[0], r, pass, nil)
		c.Check(g && nonVacuous(pass), rule, "compareHosts:match-needs-equal-label-count#"+itoa(n), p.InstrPos(r), "a host matches only a pattern with as many labels",
			"compareHosts can report a match between host names with different numbers of labels ("+where+"): a key configured for one host (e.g. an http.<url>.extraHeader carrying an Authorization) also applies to every sub-domain of it")
	}
	c.AtLeast(rule, "matching returns of compareHosts", n, 1)
}

// extraHeadersLookedUpPerURL (C10): http.<url>.extraHeader values — which may hold an Authorization — are matched
// against the full URL of each request (scheme, host, port, path). The maps the client returns are built in the
// call from that look-up; they are not taken from a table remembered for a host name.
func extraHeadersLookedUpPerURL(c *Ctx, rule string) {
	p := c.P
	n := 0
	for _, name := range []string{"(*Client).extraHeaders", "(*Client).ExtraHeadersFor"} {
		fn := p.Fn("lfshttp", name)
		if fn == nil {
			c.Missing(rule, "lfshttp."+name, "not found")
			continue
		}
		for _, r := range ReturnsOf(fn) {
			for _, res := range r.Results {
				if _, isMap := res.Type().Underlying().(*types.Map); !isMap {
					continue
				}
				n++
				good := true
				for _, l := range p.LeavesNoFields(res, func(v ssa.Value) FlowAct {
					if _, ok := v.(*ssa.Lookup); ok {
						return Stop
					}
					if ex, ok := v.(*ssa.Extract); ok {
						if _, isL := ex.Tuple.(*ssa.Lookup); isL {
							return Stop
						}
					}
					return Descend
				}) {
					switch x := l.(type) {
					case *ssa.Lookup:
						good = false
					case *ssa.Extract:
						if _, isL := x.Tuple.(*ssa.Lookup); isL {
							good = false
						}
					}
				}
				c.Check(good, rule, "extra-headers:built-per-request:"+FnName(fn)+"#"+itoa(n), p.InstrPos(r), "the headers are built from this request's own look-up",
					"the extra headers of a request can come out of a table kept between requests: an Authorization configured for https://host is then also attached to a request for http://host (or another port or path) that follows it")
			}
		}
		for _, ci := range CallsIn(fn, "(*config.URLConfig).GetAll", "(*config.URLConfig).Get") {
			a := CallArgs(ci.Common())
			if s, ok := ConstString(a[3]); !ok || !strings.EqualFold(s, "extraHeader") {
				continue
			}
			n++
			cc, _, ok := CallResult(a[2])
			c.Check(ok && CalleeName(cc.Common()) == "(*net/url.URL).String", rule, "extra-headers:matched-against-full-url", p.InstrPos(ci), "the look-up is given the request's whole URL",
				"http.<url>.extraHeader is not looked up with the request's full URL (scheme, host, port and path): headers configured for one origin are attached to requests for another")
		}
	}
	c.AtLeast(rule, "extra-header results and look-ups", n, 3)
}

// priorityZeroIsAValue (C11): Git's configuration wins over .lfsconfig because it is read later and overwrites. For
// lfs.extension.<name>.priority the overwrite must happen for every valid value, 0 included: the store of
// Extension.Priority in readGitConfig is reached when the parsed number is 0.
func priorityZeroIsAValue(c *Ctx, rule string) {
	p := c.P
	fn := p.Fn("config", "readGitConfig")
	if fn == nil {
		c.Missing(rule, "config.readGitConfig", "not found")
		return
	}
	n := 0
	for _, b := range fn.Blocks {
		for _, in := range b.Instrs {
			st, ok := in.(*ssa.Store)
			if !ok {
				continue
			}
			fa, ok := st.Addr.(*ssa.FieldAddr)
			if !ok {
				continue
			}
			if tn, f := fieldAddrName(fa); tn != "config.Extension" || f != "Priority" {
				continue
			}
			n++
			good, why := true, ""
			for _, dc := range decidingConds(fn, b) {
				bo, ok := dc.Cond.(*ssa.BinOp)
				if !ok {
					continue
				}
				x, y, op := bo.X, bo.Y, bo.Op
				if _, isK := ConstInt(x); isK {
					x, y = y, x
					switch op {
					case token.LSS:
						op = token.GTR
					case token.GTR:
						op = token.LSS
					case token.LEQ:
						op = token.GEQ
					case token.GEQ:
						op = token.LEQ
					}
				}
				k, isK := ConstInt(y)
				if !isK || !SameValue(x, st.Val) {
					continue
				}
				if constant.Compare(constant.MakeInt64(0), op, constant.MakeInt64(k)) != dc.Want {
					good, why = false, describeCond(dc.Cond)
				}
			}
			c.Check(good, rule, "extension-priority:zero-is-stored#"+itoa(n), p.InstrPos(st), "a priority of 0 overwrites an earlier value like any other",
				"a priority of 0 is not stored ("+why+"): `lfs.extension.<name>.priority = 0` in Git's own configuration no longer overrides the priority a repository's .lfsconfig gives the same extension")
		}
	}
	c.AtLeast(rule, "stores of Extension.Priority in readGitConfig", n, 1)
}

// updateJudgesEffectiveValue (C11): `git lfs update` rewrites or removes legacy lfs.<url>.access values in the
// user's local configuration. The value it judges is the effective one — what Environment.Get returns, i.e. Git's
// own over .lfsconfig's — not an element of the per-key list of All(), whose first entry is .lfsconfig's.
func updateJudgesEffectiveValue(c *Ctx, rule string) {
	p := c.P
	fn := p.Fn("commands", "updateCommand")
	if fn == nil {
		c.Missing(rule, "commands.updateCommand", "not found")
		return
	}
	n := 0
	for _, b := range fn.Blocks {
		for _, in := range b.Instrs {
			bo, ok := in.(*ssa.BinOp)
			if !ok || (bo.Op != token.EQL && bo.Op != token.NEQ) {
				continue
			}
			var other ssa.Value
			if s, isC := ConstString(bo.Y); isC && (s == "basic" || s == "private") {
				other = bo.X
			} else if s, isC := ConstString(bo.X); isC && (s == "basic" || s == "private") {
				other = bo.Y
			}
			if other == nil {
				continue
			}
			n++
			fromGet, fromList := false, false
			for _, l := range p.LeavesNoFields(other, func(v ssa.Value) FlowAct {
				if _, _, ok := CallResult(v); ok {
					return Stop
				}
				if _, ok := v.(*ssa.Next); ok {
					return Stop
				}
				return Descend
			}) {
				if cc, _, ok := CallResult(l); ok {
					nm := CalleeName(cc.Common())
					if strings.HasSuffix(nm, ".Get") {
						fromGet = true
					} else {
						fromList = true
					}
				} else if _, isC := l.(*ssa.Const); !isC {
					fromList = true
				}
			}
			c.Check(fromGet && !fromList, rule, "update:judges-effective-access-value#"+itoa(n), p.InstrPos(bo), "the access value examined is the one Environment.Get reports",
				"`git lfs update` judges an lfs.<url>.access value that is not the effective one (e.g. the first element of All(), which is .lfsconfig's): a repository's .lfsconfig makes it unset or rewrite the key in the user's local Git configuration")
		}
	}
	c.AtLeast(rule, "comparisons of the access value in updateCommand", n, 1)
}

// exportReplacesEveryPointer (C12): `migrate export` turns every selected pointer into the object's content. Its
// blob callback hands back the blob it was given only for .gitattributes and for content that did not decode as
// a pointer; once the pointer decoded, the result is read from the object file (or the export fails).
func exportReplacesEveryPointer(c *Ctx, rule string) {
	p := c.P
	outer := p.Fn("commands", "migrateExportCommand")
	if outer == nil {
		c.Missing(rule, "commands.migrateExportCommand", "not found")
		return
	}
	n := 0
	for _, fn := range outer.AnonFuncs {
		decs := CallsIn(fn, "lfs.DecodePointer", "lfs.DecodePointerFromBlob")
		if len(decs) == 0 || len(fn.Params) < 2 {
			continue
		}
		dec, _ := decs[0].(*ssa.Call)
		var blob *ssa.Parameter
		for _, prm := range fn.Params {
			if strings.HasSuffix(prm.Type().String(), "gitobj/v2.Blob") {
				blob = prm
			}
		}
		if dec == nil || blob == nil {
			continue
		}
		pass := PassEdges(fn, func(cond ssa.Value) (bool, bool) {
			if e, trueMeansNil, ok := IsErrNilCheck(cond); ok && ResultOfCall(e, dec, 1) {
				return !trueMeansNil, true
			}
			if op, x, y, ok := BinCmp(cond); ok && (op == token.EQL || op == token.NEQ) {
				for _, s := range []ssa.Value{x, y} {
					if k, isC := ConstString(s); isC && k == ".gitattributes" {
						return op == token.EQL, true
					}
				}
			}
			return false, false
		})
		for _, r := range ReturnsOf(fn) {
			same := false
			for _, v := range ReturnValues(r, 0) {
				if Unwrap(v) == ssa.Value(blob) {
					same = true
				}
			}
			if !same {
				continue
			}
			n++
			g, where := Guarded(fn.Blocks[0], r, pass, nil)
			c.Check(g && nonVacuous(pass), rule, "export:blob-kept-only-if-not-a-pointer#"+itoa(n), p.InstrPos(r), "the input blob is kept only for .gitattributes and for non-pointers",
				"migrate export can keep a blob unchanged although it decoded as a pointer ("+where+"): with the object missing locally the export succeeds, rewrites .gitattributes, and leaves pointer text at a path it reports as exported")
		}
	}
	c.AtLeast(rule, "returns of the input blob in export's blob callback", n, 2)
}

// revListNameIsRemainder (C13, C03, C05): `git rev-list --objects` prints "<oid> <path>" with the path verbatim.
// The name the scanner reports is the rest of the line after the object id — a slice of the line open to its
// end — not one white-space separated field of it.
func revListNameIsRemainder(c *Ctx, rule string) {
	p := c.P
	fn := p.Fn("git", "(*RevListScanner).scan")
	if fn == nil {
		c.Missing(rule, "(*git.RevListScanner).scan", "not found")
		return
	}
	n := 0
	for _, r := range ReturnsOf(fn) {
		for _, v := range ReturnValues(r, 1) {
			if _, isC := v.(*ssa.Const); isC {
				continue
			}
			n++
			good := true
			var visit func(x ssa.Value, d int)
			visit = func(x ssa.Value, d int) {
				switch y := x.(type) {
				case *ssa.Const:
				case *ssa.Phi:
					if d > 4 {
						good = false
						return
					}
					for _, e := range y.Edges {
						visit(e, d+1)
					}
				case *ssa.Slice:
					if y.High != nil {
						good = false
					}
				default:
					good = false
				}
			}
			visit(v, 0)
			c.Check(good, rule, "rev-list:name-is-rest-of-line#"+itoa(n), p.InstrPos(r), "the object's name is everything after the object id",
				"the rev-list scanner does not report the rest of the line as the object's name: a path containing white space is cut short, and path filters (lfs.fetchexclude in fsck and prune, include/exclude in fetch) and reports see a different path")
		}
	}
	c.AtLeast(rule, "non-empty names returned by RevListScanner.scan", n, 1)
}

// delayedPointerRememberedAsDecoded (C14): the pointer remembered for a delayed blob is re-encoded when Git asks for
// the blob again, and must then smudge to the same content: it is the pointer delayedSmudge decoded, extensions
// included — not a new one built from some of its fields.
func delayedPointerRememberedAsDecoded(c *Ctx, rule string) {
	p := c.P
	fn := p.Fn("commands", "filterCommand")
	if fn == nil {
		c.Missing(rule, "commands.filterCommand", "not found")
		return
	}
	n := 0
	for _, b := range fn.Blocks {
		for _, in := range b.Instrs {
			mu, ok := in.(*ssa.MapUpdate)
			if !ok || short(mu.Value.Type().String()) != "*lfs.Pointer" {
				continue
			}
			n++
			good := true
			for _, l := range p.LeavesNoFields(mu.Value, func(v ssa.Value) FlowAct {
				if _, _, ok := CallResult(v); ok {
					return Stop
				}
				return Descend
			}) {
				cc, _, ok := CallResult(l)
				if !ok || CalleeName(cc.Common()) != "commands.delayedSmudge" {
					good = false
				}
			}
			c.Check(good, rule, "delayed:pointer-remembered-as-decoded#"+itoa(n), p.InstrPos(mu), "the remembered pointer is the one delayedSmudge decoded",
				"the pointer remembered for a delayed blob is not the decoded one (e.g. a copy without its extensions): when Git retrieves the blob the stored object is streamed without the extensions' smudge commands and differs from what the one-shot filter returns")
		}
	}
	c.AtLeast(rule, "pointers remembered in filterCommand", n, 1)
}

// expiryCountedFromRequestTime (C15): `expires_in` is relative to when the server produced the response; the client
// cannot know that moment and must not assume a later one. The time stored as an action's creation time is taken
// before the batch request is sent.
func expiryCountedFromRequestTime(c *Ctx, rule string) {
	p := c.P
	fn := p.Fn("tq", "(*tqClient).Batch")
	if fn == nil {
		c.Missing(rule, "(*tq.tqClient).Batch", "not found")
		return
	}
	var sends []ssa.Instruction
	for _, b := range fn.Blocks {
		for _, in := range b.Instrs {
			if call, ok := in.(*ssa.Call); ok {
				sig := call.Call.Signature()
				if sig.Results().Len() == 2 && short(sig.Results().At(0).Type().String()) == "*net/http.Response" {
					sends = append(sends, call)
				}
			}
		}
	}
	n := 0
	for _, b := range fn.Blocks {
		for _, in := range b.Instrs {
			st, ok := in.(*ssa.Store)
			if !ok {
				continue
			}
			fa, ok := st.Addr.(*ssa.FieldAddr)
			if !ok {
				continue
			}
			if tn, f := fieldAddrName(fa); tn != "tq.Action" || f != "createdAt" {
				continue
			}
			n++
			good := len(sends) > 0
			now, _, isCall := CallResult(st.Val)
			if !isCall || CalleeName(now.Common()) != "time.Now" {
				good = false
			} else {
				for _, s := range sends {
					if after(s, now) {
						good = false
					}
				}
			}
			c.Check(good, rule, "batch:action-lifetime-counted-from-before-the-request#"+itoa(n), p.InstrPos(st), "the basis of expires_in is a time taken before the request was sent",
				"the time an action's `expires_in` is added to is taken after the batch response arrived: every action is believed valid longer by the latency of the batch call, and an action that already expired is used instead of being requested again")
		}
	}
	c.AtLeast(rule, "stores of Action.createdAt in Batch", n, 1)
}

// authResendOnlyWithoutAuthorization (C15): the basic adapters send a request again inside DoTransfer — outside the
// queue's retry accounting — only to let the credential machinery add credentials: the re-send is guarded by "the
// request carries no Authorization header yet". Any other guard lets a server's 401 answers drive an unbounded,
// uncounted loop.
func authResendOnlyWithoutAuthorization(c *Ctx, rule string) {
	p := c.P
	n := 0
	for _, name := range []string{"(*basicDownloadAdapter).makeRequest", "(*basicUploadAdapter).makeRequest"} {
		fn := p.Fn("tq", name)
		if fn == nil {
			c.Missing(rule, "tq."+name, "not found")
			continue
		}
		pass := PassEdges(fn, func(cond ssa.Value) (bool, bool) {
			op, x, y, ok := BinCmp(cond)
			if !ok {
				return false, false
			}
			isAuthLen := func(v ssa.Value) bool {
				call, ok := v.(*ssa.Call)
				if !ok {
					return false
				}
				if bi, isB := call.Call.Value.(*ssa.Builtin); !isB || bi.Name() != "len" {
					return false
				}
				gc, _, ok := CallResult(call.Call.Args[0])
				if !ok || CalleeName(gc.Common()) != "(net/http.Header).Get" {
					return false
				}
				s, isC := ConstString(gc.Call.Args[1])
				return isC && s == "Authorization"
			}
			if k, isK := ConstInt(y); isK && k == 0 && isAuthLen(x) {
				switch op {
				case token.EQL, token.LEQ:
					return true, true
				case token.NEQ, token.GTR:
					return false, true
				}
			}
			if s, isC := ConstString(y); isC && s == "" {
				if gc, _, ok := CallResult(x); ok && CalleeName(gc.Common()) == "(net/http.Header).Get" {
					if a, isA := ConstString(gc.Call.Args[1]); isA && a == "Authorization" {
						return op == token.EQL, op == token.EQL || op == token.NEQ
					}
				}
			}
			return false, false
		})
		for _, ci := range CallsIn(fn, "(*tq.basicDownloadAdapter).makeRequest", "(*tq.basicUploadAdapter).makeRequest", "(*tq.adapterBase).doHTTP") {
			if len(CallsIn(fn, CalleeName(ci.Common()))) == 1 && strings.HasSuffix(CalleeName(ci.Common()), ".doHTTP") {
				continue // the first send
			}
			n++
			g, where := Guarded(fn.Blocks[0], ci, pass, nil)
			c.Check(g && nonVacuous(pass), rule, "auth-resend:only-without-authorization:"+FnName(fn)+"#"+itoa(n), p.InstrPos(ci), "the request is sent again only while it carries no Authorization",
				"a basic adapter re-sends a request after an authentication error although it already carries an Authorization header ("+where+"): a storage server answering 401 to the action's own token is asked again and again inside one transfer attempt — not counted, not bounded by lfs.transfer.maxretries, without back-off")
		}
	}
	c.AtLeast(rule, "re-sends after an authentication error", n, 2)
}

// nameListingsUnquoted (C16, C05): Git C-quotes non-ASCII path names in line-oriented output unless told not to.
// Every Git invocation in package git that asks for `--name-only` output without -z
// passes `-c core.quotepath=false`, so that the names handed on are the files' names.
func nameListingsUnquoted(c *Ctx, rule string) {
	p := c.P
	n := 0
	for _, fn := range p.RepoFuncs(func(path string) bool { return path == PkgPath("git") }) {
		for _, ci := range CallsIn(fn, gitRunners...) {
			a := CallArgs(ci.Common())
			if len(a) == 0 {
				continue
			}
			vecs, ok := ArgVectors(a[len(a)-1])
			if !ok || len(vecs) == 0 {
				continue
			}
			listing, good := false, true
			for _, vec := range vecs {
				has := map[string]bool{}
				for _, e := range vec {
					if s, isC := ConstString(e.V); isC && !e.Spread {
						has[s] = true
					}
				}
				if has["--name-only"] {
					listing = true
					if !has["-z"] && !has["core.quotepath=false"] {
						good = false
					}
				}
			}
			if !listing {
				continue
			}
			n++
			c.Check(good, rule, "git:name-listing-unquoted:"+FnName(fn), p.InstrPos(ci), "names are listed with core.quotepath=false (or -z)",
				"a Git command whose output is read as a list of file names runs with Git's default core.quotepath: a non-ASCII name comes back C-quoted, the file of that name does not exist, and the post-commit/post-checkout hooks silently skip it — a lockable file stays writable")
		}
	}
	c.AtLeast(rule, "name listings in package git", n, 1)
}

// fieldWrittenOnlyIn: every store to field typ.field in the repository's product code is in one of the named functions.
func fieldWrittenOnlyIn(c *Ctx, rule, key, typ, field string, owners []string, bad string) {
	p := c.P
	n := 0
	for _, fn := range p.RepoFuncs(productPkg) {
		for _, f := range WithAnon(fn) {
			for _, b := range f.Blocks {
				for _, in := range b.Instrs {
					st, ok := in.(*ssa.Store)
					if !ok {
						continue
					}
					fa, ok := st.Addr.(*ssa.FieldAddr)
					if !ok {
						continue
					}
					if tn, fl := fieldAddrName(fa); tn != typ || fl != field {
						continue
					}
					n++
					root := f
					for root.Parent() != nil {
						root = root.Parent()
					}
					c.Check(nameIn(FnName(root), owners), rule, key+":"+FnName(root), p.InstrPos(st), "written by its owner", bad)
				}
			}
		}
	}
	c.AtLeast(rule, "stores of "+typ+"."+field, n, 1)
}

// verifyStateDecidedOnce (C16): whether locks held by others stop a push (lfs.<url>.locksverify) is decided from the
// configuration when the verifier is built. No answer of the server changes it afterwards: verifyState is written
// only by newLockVerifier.
func verifyStateDecidedOnce(c *Ctx, rule string) {
	fieldWrittenOnlyIn(c, rule, "lock-verifier:state-written-only-at-construction", "commands.lockVerifier", "verifyState", []string{"commands.newLockVerifier"},
		"the lock verifier's state is changed after construction: a 404/501 answer for one ref of a push turns verification off for the whole push, and files another user holds locks on (reported for the other refs) are uploaded")
}

// refspecQualifiesTypedNames (C18, C16): Ref.Refspec is the name sent as `ref.name` in batch, lock and verify
// requests. For every ref whose type has a prefix the result is prefix + "/" + name; the bare name is returned only
// when Type.Prefix() says there is none — whatever the name looks like.
func refspecQualifiesTypedNames(c *Ctx, rule string) {
	p := c.P
	fn := p.Fn("git", "(*Ref).Refspec")
	if fn == nil {
		c.Missing(rule, "(*git.Ref).Refspec", "not found")
		return
	}
	pass := PassEdges(fn, func(cond ssa.Value) (bool, bool) {
		if cc, idx, ok := CallResult(cond); ok && idx == 1 && CalleeName(cc.Common()) == "(git.RefType).Prefix" {
			return false, true
		}
		return false, false
	})
	passSet := EdgeSet(pass)
	n := 0
	// the bare name can be returned directly, or arrive at the return through φ-nodes (a named result assigned
	// first and overwritten when there is a prefix): each way it arrives must lie behind the "no prefix" edge
	var visit func(v ssa.Value, guard func() (bool, string), pos string, d int)
	visit = func(v ssa.Value, guard func() (bool, string), pos string, d int) {
		if ph, isPhi := v.(*ssa.Phi); isPhi && d < 4 {
			for i, e := range ph.Edges {
				if i >= len(ph.Block().Preds) {
					continue
				}
				pb := ph.Block().Preds[i]
				visit(e, func() (bool, string) {
					for si, sb := range pb.Succs {
						if sb == ph.Block() && passSet[Edge{pb, si}] {
							return true, ""
						}
					}
					return Guarded(fn.Blocks[0], lastInstr(pb), pass, nil)
				}, pos, d+1)
			}
			return
		}
		tn, f, _, ok := FieldOf(v)
		if !ok || tn != "git.Ref" || f != "Name" {
			return
		}
		n++
		g, where := guard()
		c.Check(g && nonVacuous(pass), rule, "refspec:bare-name-only-without-prefix#"+itoa(n), pos, "the bare name is returned only for a ref type without a prefix",
			"Refspec can return the bare name of a branch or tag ("+where+"): for a ref such as refs/heads/refs/heads/x the requests name refs/heads/x — another ref of the server")
	}
	for _, r := range ReturnsOf(fn) {
		if len(r.Results) == 0 {
			continue
		}
		r := r
		visit(r.Results[0], func() (bool, string) { return Guarded(fn.Blocks[0], r, pass, nil) }, p.InstrPos(r), 0)
	}
	c.AtLeast(rule, "returns of the bare name in Refspec", n, 1)
}

// insideWorkTreeNeedsSeparator (C19): track and untrack write ./.gitattributes after making sure the current
// directory is inside the work tree. changeToWorkingCopy may skip the chdir only when the current directory equals
// the work tree or continues it with a path separator — a common string prefix is not enough (/x/proj-tools).
func insideWorkTreeNeedsSeparator(c *Ctx, rule string) {
	p := c.P
	fn := p.Fn("commands", "changeToWorkingCopy")
	if fn == nil {
		c.Missing(rule, "commands.changeToWorkingCopy", "not found")
		return
	}
	pass := PassEdges(fn, func(cond ssa.Value) (bool, bool) {
		op, x, y, ok := BinCmp(cond)
		if !ok || (op != token.EQL && op != token.NEQ) {
			return false, false
		}
		isSep := func(v ssa.Value) bool {
			v = Unwrap(v)
			if g, ok := v.(*ssa.Global); ok && g.Name() == "PathSeparator" {
				return true
			}
			if k, isK := ConstInt(v); isK && (k == '/' || k == '\\') {
				return true
			}
			if cv, ok := v.(*ssa.Convert); ok {
				if k, isK := ConstInt(cv.X); isK && (k == '/' || k == '\\') {
					return true
				}
			}
			return false
		}
		isIdx := func(v ssa.Value) bool { // cwd[len(workingDir)]: Index (or, in older go/ssa, Lookup) on a string
			switch Unwrap(v).(type) {
			case *ssa.Index, *ssa.Lookup:
				return true
			}
			return false
		}
		xIdx, yIdx := isIdx(x), isIdx(y)
		if (xIdx && isSep(y)) || (yIdx && isSep(x)) {
			return op == token.EQL, true
		}
		// cwd == workingDir
		isStr := func(v ssa.Value) bool { return short(v.Type().String()) == "string" }
		if isStr(x) && isStr(y) {
			if _, isC := x.(*ssa.Const); !isC {
				if _, isC := y.(*ssa.Const); !isC {
					return op == token.EQL, true
				}
			}
		}
		return false, false
	})
	chdirs := CallsIn(fn, "os.Chdir")
	bad := ""
	nRet := 0
	ExploreX(fn.Blocks[0], nil, nil, noReturnCommands, EdgeSet(pass), nil, func(in ssa.Instruction, st PState) bool {
		for _, cd := range chdirs {
			if in == cd {
				return false
			}
		}
		if r, ok := in.(*ssa.Return); ok {
			nRet++
			bad = p.InstrPos(r)
			return false
		}
		return true
	})
	c.Check(bad == "" && nonVacuous(pass) && len(chdirs) > 0, rule, "work-tree:chdir-skipped-only-inside", p.Pos(fn.Pos()), "the chdir into the work tree is skipped only from inside it",
		"changeToWorkingCopy can stay in a directory that merely shares a string prefix with the work tree (e.g. /x/proj-tools for /x/proj): track and untrack then write a .gitattributes Git never reads and report success")
}

// macroExpandsOnlyWhenSet (C19, C13): Git expands an attribute macro only where it is *set* (`macro`), and unsets its
// members where it is `!macro`; `-macro` and `macro=value` expand nothing. In ProcessLines the macro's attributes
// are appended as they are only on the edge where the attribute's value is "true".
func macroExpandsOnlyWhenSet(c *Ctx, rule string) {
	p := c.P
	fn := p.Fn("git/gitattr", "(*MacroProcessor).ProcessLines")
	if fn == nil {
		c.Missing(rule, "(*gitattr.MacroProcessor).ProcessLines", "not found")
		return
	}
	pass := PassEdges(fn, func(cond ssa.Value) (bool, bool) {
		op, x, y, ok := BinCmp(cond)
		if !ok || (op != token.EQL && op != token.NEQ) {
			return false, false
		}
		for _, pr := range [][2]ssa.Value{{x, y}, {y, x}} {
			if s, isC := ConstString(pr[1]); isC && s == "true" {
				if _, f, _, isF := FieldOf(pr[0]); isF && f == "V" {
					return op == token.EQL, true
				}
			}
		}
		return false, false
	})
	n := 0
	for _, b := range fn.Blocks {
		for _, in := range b.Instrs {
			call, ok := in.(*ssa.Call)
			if !ok {
				continue
			}
			bi, isB := call.Call.Value.(*ssa.Builtin)
			if !isB || bi.Name() != "append" || len(call.Call.Args) < 2 {
				continue
			}
			// the whole slice looked up in the macro table, spread into the line's attributes
			src := Unwrap(call.Call.Args[1])
			if ex, ok := src.(*ssa.Extract); ok {
				src = ex.Tuple
			}
			lk, ok := src.(*ssa.Lookup)
			if !ok {
				continue
			}
			if _, f, _, isF := FieldOf(lk.X); !isF || f != "macros" {
				continue
			}
			n++
			g, where := Guarded(fn.Blocks[0], call, pass, nil)
			c.Check(g && nonVacuous(pass), rule, "macro:expanded-only-when-set#"+itoa(n), p.InstrPos(call), "a macro's attributes are copied only where the macro is set",
				"a macro is expanded although it is not set on the line ("+where+"): `pattern -lfs` with `[attr]lfs filter=lfs …` is taken for a tracked pattern, `git lfs track` reports it as already supported and Git keeps reporting no LFS filter")
		}
	}
	c.AtLeast(rule, "macro expansions in ProcessLines", n, 1)
}
