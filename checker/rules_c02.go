package main

import (
	"fmt"
	"go/constant"
	"go/token"
	"go/types"
	"strings"

	"golang.org/x/tools/go/ssa"
)

// C02 — a download that reports success left bytes hashing to the requested OID.

func init() {
	register(&PropDef{
		ID:    "C02",
		Level: "other",
		Explanation: "Structural necessary conditions decided on the SSA of the download adapters: (R1) every call that publishes a file at a transfer's final object path (rename/link whose destination derives from Transfer.Path) is dominated by the passed edge of a hash test over exactly the bytes being published — a streaming hasher that fed the very file being renamed, compared for equality with Transfer.Oid of the same transfer, or VerifyFileHash(t.Oid, src) on the rename source; every DoTransfer implementation that can run a download contains such a guarded publish; " +
			"(R2) once a publish happened the function returns only nil or that publish's own error (explored with constant tracking of loop flags); (R3) resume keeps hash state, file offset and file content in step: the preloaded hasher is reachable only with fromByte>0 and a hash, every Truncate(0) is preceded by Seek(0,start) on the same file and followed, on every feasible path, by fromByte=0 and hash=nil at the copy / recursive call, and the resume is accepted only via Content-Range start == fromByte; " +
			"(R4) bytes are written only to temp files under incomplete/ (never to the final path); (R6) the standalone agent writes only into its temp dir. This does not decide SHA-256 equality at run time nor concurrent processes.",
		Assumptions: []string{
			"tools.HashingReader hashes exactly the bytes it passes on; io.Copy/CopyWithCallback write all bytes read (stdlib)",
			"os.Rename is atomic replace on POSIX; the `os.Stat(t.Path)==nil => return nil` tail after the rename is the documented concurrent-process idiom",
		},
		Run:           runC02,
		CrossPlatform: runC02,
		Canaries:      c02Canaries,
	})
}

var publishCallees = []string{"tools.RenameFileCopyPermissions", "os.Rename", "tools.RobustRename", "os.Link", "os.Symlink"}
var inplaceWriters = []string{"os.Create", "os.OpenFile", "os.WriteFile", "tools.CloneFileByPath", "(*os.File).Truncate"}

func derivesFromTransferPath(p *Prog, v ssa.Value) bool {
	found := false
	p.LeavesNoFields(v, func(x ssa.Value) FlowAct {
		if t, f, _, ok := FieldOf(x); ok && (t == "tq.Transfer" || t == "tq.objectTuple") && f == "Path" {
			found = true
			return Stop
		}
		return Descend
	})
	return found
}

// fieldBase returns the base value of a field load, looking through wrappers.
func fieldBase(v ssa.Value) (typ, field string, base ssa.Value) {
	t, f, b, ok := FieldOf(v)
	if !ok {
		return "", "", nil
	}
	return t, f, b
}

func sameField(a, b ssa.Value) bool {
	t1, f1, b1 := fieldBase(a)
	t2, f2, b2 := fieldBase(b)
	return t1 != "" && t1 == t2 && f1 == f2 && SameVar(b1, b2)
}

func tqFuncs(p *Prog) []*ssa.Function {
	return p.RepoFuncs(func(s string) bool { return s == Mod+"/tq" })
}

func runC02(c *Ctx) {
	transferPathIsLocal(c, "R1")
	downloadFileHoldsOnlyVerifiedBytes(c, "R3")
	p := c.P
	hardLinksOnlyInLinkOrCopy(c, "R7")
	failureSurvivesCleanup(c, "R2")
	workerErrorPerJob(c, "R2")
	// what the queue reports to its watchers as downloaded (fetch, pull, the filter process act on it) is decided
	// in package tq: only results without error, each describing its own entry, and an OID counts as completed
	// only after a successful transfer (C06.R8, shared)
	{
		saved := c.RulePrefix
		c.RulePrefix = saved + "C06/"
		if m := newTQModel(c); m != nil {
			m.deliveries()
		}
		c.RulePrefix = saved
	}
	noret := func(in ssa.Instruction) bool { _, ok := in.(*ssa.Panic); return ok }

	// ---- R1: every publish to Transfer.Path is hash-guarded --------------------------------
	type pub struct {
		call ssa.CallInstruction
		fn   *ssa.Function
		src  ssa.Value
		dst  ssa.Value
	}
	var pubs []pub
	for _, fn := range p.RepoFuncs(productPkg) {
		for _, ci := range CallsIn(fn, publishCallees...) {
			a := ci.Common().Args
			if len(a) < 2 {
				continue
			}
			if derivesFromTransferPath(p, a[1]) {
				pubs = append(pubs, pub{ci, fn, a[0], a[1]})
			} else if derivesFromTransferPath(p, a[0]) && strings.HasSuffix(FnName(fn), "DoTransfer") == false && fn.Pkg.Pkg.Path() == Mod+"/tq" {
				// a transfer's object path used as rename *source* in a download adapter would move the object away
				c.Info("R1", "path-as-source:"+FnName(fn), p.InstrPos(ci), "Transfer.Path used as a rename source")
			}
		}
		// in-place writers to Transfer.Path are never allowed
		for _, ci := range CallsIn(fn, inplaceWriters...) {
			a := ci.Common().Args
			if len(a) == 0 {
				continue
			}
			tgt := a[0]
			name := CalleeName(ci.Common())
			if name == "os.OpenFile" {
				if fl, ok := ConstInt(a[1]); ok && fl&(1|2|0x40|0x200|0x400) == 0 {
					continue // read-only open
				}
			}
			if name == "(*os.File).Truncate" {
				continue // handled in R3 by file identity
			}
			if derivesFromTransferPath(p, tgt) {
				c.Bad("R4", "inplace-write-to-final-path:"+FnName(fn), p.InstrPos(ci), "a transfer's final object path is opened for writing / created in place ("+name+"): a failed or partial download would leave bad bytes at the final location")
			}
		}
	}
	if !c.AtLeast("R1", "publishes to a transfer's final path", len(pubs), 3) {
		// continue anyway
	}
	guarded := map[*ssa.Function]bool{}
	for _, pb := range pubs {
		fn := pb.fn
		key := "publish:" + FnName(fn)
		// Form A: streaming hasher
		var passA []Edge
		var hasherOK string
		for _, b := range fn.Blocks {
			ifi, ok := lastInstr(b).(*ssa.If)
			if !ok {
				continue
			}
			cond, flip := stripNot(ifi.Cond)
			op, x, y, ok := BinCmp(cond)
			if !ok || (op != token.NEQ && op != token.EQL) {
				continue
			}
			var hcall *ssa.Call
			var other ssa.Value
			if hc, ok := IsResultOf(x, "(*tools.HashingReader).Hash"); ok {
				hcall, other = hc, y
			} else if hc, ok := IsResultOf(y, "(*tools.HashingReader).Hash"); ok {
				hcall, other = hc, x
			}
			if hcall == nil {
				continue
			}
			// the other side must be Transfer.Oid of the transfer whose Path is the destination
			t, f, base := fieldBase(other)
			dt, df, dbase := fieldBase(pb.dst)
			if !(t == "tq.Transfer" && f == "Oid") {
				c.Bad("R1", key+":hash-compared-with", p.InstrPos(ifi), "the hash of the downloaded bytes is compared with "+describeValue(p, other)+" instead of the transfer's Oid")
				continue
			}
			if dt == "tq.Transfer" && df == "Path" && !SameVar(base, dbase) {
				c.Bad("R1", key+":hash-of-other-transfer", p.InstrPos(ifi), "the hash is compared with the Oid of a different transfer than the one whose Path is published")
				continue
			}
			// hasher H fed the file being renamed
			H := hcall.Call.Args[0]
			fed := false
			for _, ci := range CallsIn(fn, "tools.CopyWithCallback", "io.Copy", "io.CopyN", "io.CopyBuffer") {
				ca := ci.Common().Args
				if len(ca) >= 2 && Unwrap(ca[1]) == Unwrap(H) {
					// writer is the file whose Name() is the rename source
					W := Unwrap(ca[0])
					srcOK := false
					p.LeavesNoFields(pb.src, func(v ssa.Value) FlowAct {
						if call, _, ok := CallResult(v); ok && CalleeName(call.Common()) == "(*os.File).Name" && Unwrap(call.Call.Args[0]) == W {
							srcOK = true
							return Stop
						}
						return Descend
					})
					if !srcOK {
						// the file name may be handed in by the caller next to the file itself: then every caller
						// must pass f.Name() of the very file it passes
						srcOK = nameOfFileAtAllCallers(p, fn, Unwrap(pb.src), W)
					}
					if srcOK && ci.Block().Dominates(b) {
						fed = true
					}
				}
			}
			if !fed {
				hasherOK = "the hasher compared with the Oid did not feed the file that is renamed into place (copy(writer=file, reader=hasher) with file.Name() == rename source not found before the test)"
				continue
			}
			passWhen := op == token.EQL
			if flip {
				passWhen = !passWhen
			}
			if passWhen {
				passA = append(passA, Edge{b, 0})
			} else {
				passA = append(passA, Edge{b, 1})
			}
		}
		// Form B: VerifyFileHash(t.Oid, src)
		var passB []Edge
		for _, vc := range CallsIn(fn, "tools.VerifyFileHash") {
			call, ok := vc.(*ssa.Call)
			if !ok {
				continue
			}
			va := call.Call.Args
			t, f, base := fieldBase(va[0])
			_, _, dbase := fieldBase(pb.dst)
			if !(t == "tq.Transfer" && f == "Oid" && SameVar(base, dbase)) {
				c.Bad("R1", key+":verify-oid", p.InstrPos(vc), "VerifyFileHash is not given the Oid of the transfer being published")
				continue
			}
			if !(Unwrap(va[1]) == Unwrap(pb.src) || sameField(va[1], pb.src)) {
				c.Bad("R1", key+":verify-path", p.InstrPos(vc), "VerifyFileHash checks "+describeValue(p, va[1])+" but "+describeValue(p, pb.src)+" is renamed into place")
				continue
			}
			passB = append(passB, PassEdges(fn, func(cond ssa.Value) (bool, bool) {
				e, trueMeansNil, ok := IsErrNilCheck(cond)
				if ok {
					if cc, _, isRes := CallResult(e); isRes && cc == call {
						return trueMeansNil, true
					}
				}
				return false, false
			})...)
		}
		pass := append(passA, passB...)
		if len(pass) == 0 {
			msg := "no hash test over the published bytes precedes this publish"
			if hasherOK != "" {
				msg = hasherOK
			}
			c.Bad("R1", key, p.InstrPos(pb.call), msg+": a truncated, padded or substituted body would be stored under the requested OID")
			continue
		}
		ok, path := Guarded(fn.Blocks[0], pb.call, pass, noret)
		if c.Check(ok, "R1", key, p.InstrPos(pb.call), "publish is dominated by the passed hash test of the bytes being published",
			"the object can be moved to its final path without the hash test having passed: "+path) {
			guarded[fn] = true
		}

		// ---- R2: after the publish only nil or the publish's own error is returned ----------
		call, isCall := pb.call.(*ssa.Call)
		if !isCall {
			c.Undecided("R2", key+":deferred-publish", p.InstrPos(pb.call), "publish is deferred or asynchronous")
			continue
		}
		okR2 := true
		why := ""
		Explore(nil, call, nil, noret, func(in ssa.Instruction, st PState) bool {
			r, ok := in.(*ssa.Return)
			if !ok {
				return true
			}
			ev := Resolve(r.Results[len(r.Results)-1], st)
			if cst, ok := EvalConst(ev, st); ok && cst.Value == nil {
				return false
			}
			derives := false
			for _, l := range p.LeavesNoFields(ev, func(v ssa.Value) FlowAct {
				if v == ssa.Value(call) {
					return Stop
				}
				return Descend
			}) {
				if l == ssa.Value(call) {
					derives = true
				}
			}
			if !derives {
				okR2 = false
				why = "after the object was moved into place the function can still report a failure that is not the move's own error (" + p.InstrPos(r) + ")"
			}
			return false
		})
		c.Check(okR2, "R2", key+":after-publish", p.InstrPos(pb.call), "after the publish only success or the publish's own error is returned", why)

		// ---- R5: success means the verified file was moved into place ----------------------------------
		// Every feasible path on which this function can report success (a return whose error is nil or not
		// known to be non-nil) runs through the publish, or hands the decision to another download function /
		// a direction that does not download. A shortcut such as "something already exists at the final path"
		// taken before the move leaves whatever is there — possibly a truncated leftover — as the object.
		okR5 := true
		whyR5 := ""
		pubKey := nonNil{call} // pseudo key: "the publish ran on this path"
		ExploreX(fn.Blocks[0], nil, nil, noret, nil, nil, func(in ssa.Instruction, st PState) bool {
			if in == ssa.Instruction(call) {
				st[pubKey] = ssa.NewConst(constant.MakeBool(true), types.Typ[types.Bool])
				return true
			}
			r, ok := in.(*ssa.Return)
			if !ok {
				return true
			}
			if len(r.Results) == 0 {
				return false
			}
			ev := Base(Resolve(r.Results[len(r.Results)-1], st), st)
			if _, nn := st[nonNil{ev}]; nn || NeverNil(ev) {
				return false // a failure
			}
			if _, done := st[pubKey]; done {
				return false
			}
			// delegation: the result of another function that transfers (the recursive re-request, the upload arm)
			if cc, _, isRes := CallResult(ev); isRes && cc.Call.StaticCallee() != nil && cc.Call.StaticCallee().Pkg == fn.Pkg {
				return false
			}
			if cst, isC := EvalConst(ev, st); isC && cst.Value == nil || true {
				if !inDownloadArm(p, fn, r, call) {
					return false
				}
				okR5 = false
				whyR5 = "the function can report success at " + p.InstrPos(r) + " without having moved the verified file to the object's final path (e.g. because something already exists there): stale or truncated bytes stay in place under the OID"
			}
			return false
		})
		c.Check(okR5, "R5", key+":success-implies-publish", p.InstrPos(pb.call), "every successful return of the download path ran the move into place", whyR5)
	}
	// sibling cross-check: every DoTransfer implementation reachable for downloads publishes through a guarded site
	for _, name := range []string{"(*basicDownloadAdapter).DoTransfer", "(*SSHAdapter).DoTransfer", "(*customAdapter).DoTransfer"} {
		fn := p.Fn("tq", name)
		if fn == nil {
			c.Missing("R1", "sibling:"+name, "download-capable DoTransfer implementation not found")
			continue
		}
		// the guarded publish is in fn or in a function it calls (depth 2)
		found := guarded[fn]
		for _, b := range fn.Blocks {
			for _, in := range b.Instrs {
				if cc := AsCall(in); cc != nil && cc.StaticCallee() != nil {
					if guarded[cc.StaticCallee()] {
						found = true
					}
					for _, b2 := range cc.StaticCallee().Blocks {
						for _, in2 := range b2.Instrs {
							if c2 := AsCall(in2); c2 != nil && c2.StaticCallee() != nil && guarded[c2.StaticCallee()] {
								found = true
							}
						}
					}
				}
			}
		}
		c.Check(found, "R1", "sibling:"+name, p.Pos(fn.Pos()), "reaches a hash-guarded publish", "this download adapter has no hash-guarded publish of the object")
	}
	// all implementations of transferImplementation.DoTransfer are known
	nImpl := 0
	for _, fn := range tqFuncs(p) {
		if fn.Name() == "DoTransfer" && fn.Signature.Recv() != nil {
			nImpl++
			known := map[string]bool{"(*tq.basicDownloadAdapter).DoTransfer": true, "(*tq.SSHAdapter).DoTransfer": true, "(*tq.customAdapter).DoTransfer": true, "(*tq.basicUploadAdapter).DoTransfer": true, "(*tq.tusUploadAdapter).DoTransfer": true}
			c.Check(known[FnName(fn)], "R1", "impl:"+FnName(fn), p.Pos(fn.Pos()), "known transfer implementation", "a new transfer implementation exists that the download rules do not cover")
		}
	}
	c.AtLeast("R1", "DoTransfer implementations", nImpl, 5)

	c02Resume(c)
	c02Standalone(c)
}

// ---- R3 + R4: resume logic of the basic adapter ---------------------------------------------

func c02Resume(c *Ctx) {
	p := c.P
	noret := func(in ssa.Instruction) bool { _, ok := in.(*ssa.Panic); return ok }
	dl := p.Fn("tq", "(*basicDownloadAdapter).download")
	dt := p.Fn("tq", "(*basicDownloadAdapter).DoTransfer")
	if dl == nil || dt == nil {
		c.Missing("R3", "basic download functions", "(*basicDownloadAdapter).download / DoTransfer not found")
		return
	}
	// parameters fromByte (int64) and hash (hash.Hash) of download
	var pFrom, pHash *ssa.Parameter
	for _, prm := range dl.Params {
		switch short(prm.Type().String()) {
		case "int64":
			pFrom = prm
		case "hash.Hash":
			pHash = prm
		}
	}
	if pFrom == nil || pHash == nil {
		c.Missing("R3", "download parameters", "cannot identify the resume offset / preloaded hash parameters")
		return
	}
	// (a) preload only under fromByte > 0 && hash != nil
	pre := CallsIn(dl, "tools.NewHashingReaderPreloadHash")
	if c.AtLeast("R3", "preload sites", len(pre), 1) {
		for _, pc := range pre {
			passPos := PassEdges(dl, func(cond ssa.Value) (bool, bool) {
				op, x, y, ok := BinCmp(cond)
				if !ok {
					return false, false
				}
				if k, isK := ConstInt(y); isK && k == 0 && derivesOnlyFrom(p, x, pFrom) {
					if op == token.GTR || op == token.NEQ {
						return true, true
					}
					if op == token.LEQ || op == token.EQL {
						return false, true
					}
				}
				return false, false
			})
			passHash := PassEdges(dl, func(cond ssa.Value) (bool, bool) {
				e, trueMeansNil, ok := IsErrNilCheck(cond)
				if ok && derivesOnlyFrom(p, e, pHash) {
					return !trueMeansNil, true
				}
				return false, false
			})
			// the immediate decision: restrict to tests that dominate the preload call closely (any is fine for GUARD)
			ok1, path1 := Guarded(dl.Blocks[0], pc, passPos, noret)
			ok2, path2 := Guarded(dl.Blocks[0], pc, passHash, noret)
			c.Check(ok1 && nonVacuous(passPos), "R3", "preload:needs-offset>0", p.InstrPos(pc), "preloaded hasher used only when resuming (fromByte > 0)", "the preloaded hash state can be used for a download that starts at byte 0: "+path1)
			c.Check(ok2 && nonVacuous(passHash), "R3", "preload:needs-hash", p.InstrPos(pc), "preloaded hasher used only with a hash state", "preload reachable with a nil hash: "+path2)
			// the hasher argument is the hash parameter (or its φ)
			hv := pc.Common().Args[1]
			c.Check(derivesOnlyFrom(p, hv, pHash), "R3", "preload:hash-arg", p.InstrPos(pc), "the preloaded state is the hash handed in by the caller", "the preloaded hash does not come from the caller's hash of the partial file")
		}
	}
	// (b)(c) every Truncate(0): preceded by Seek(0,0) on the same file; afterwards fromByte=0 and hash=nil
	for _, fn := range []*ssa.Function{dl, dt} {
		trs := CallsIn(fn, "(*os.File).Truncate")
		for i, tc := range trs {
			key := fmt.Sprintf("%s:truncate#%d", FnName(fn), i)
			a := tc.Common().Args
			if k, ok := ConstInt(a[1]); !ok || k != 0 {
				c.Undecided("R3", key, p.InstrPos(tc), "Truncate to a non-zero length")
				continue
			}
			file := a[0]
			// Seek(0, 0) on the same file dominating, with nothing but its error check in between
			seekOK := false
			for _, sc := range CallsIn(fn, "(*os.File).Seek") {
				sa := sc.Common().Args
				off, ok1 := ConstInt(sa[1])
				wh, ok2 := ConstInt(sa[2])
				if ok1 && ok2 && off == 0 && wh == 0 && sameFileValue(sa[0], file) {
					if sc.Block() == tc.Block() && InstrIndex(sc) < InstrIndex(tc) || sc.Block() != tc.Block() && sc.Block().Dominates(tc.Block()) {
						seekOK = true
					}
				}
			}
			c.Check(seekOK, "R3", key+":seek-start", p.InstrPos(tc), "file offset reset to 0 before the truncation",
				"Truncate(0) is not preceded by Seek(0, io.SeekStart) on the same file: the offset stays at the old length, so the new body is written behind a hole of zero bytes while the streaming hash (body only) still matches")
			// forward: on every feasible path, calls to download get (0, nil); the preload is unreachable; copy reached with state 0/nil
			okF := true
			why := ""
			Explore(nil, tc.(ssa.Instruction), nil, noret, func(in ssa.Instruction, st PState) bool {
				cc := AsCall(in)
				if cc == nil {
					return true
				}
				switch CalleeName(cc) {
				case "tools.NewHashingReaderPreloadHash":
					okF = false
					why = "after truncating the partial file the stale hash state can still be preloaded (" + p.InstrPos(in) + ")"
					return false
				case "tools.NewHashingReader":
					return false // fresh hasher: fine, path done
				case "(*tq.basicDownloadAdapter).download":
					// args: recv, t, cb, authOk, dlFile, fromByte, hash
					var af, ah ssa.Value
					for i, prm := range dl.Params {
						if prm == pFrom {
							af = cc.Args[i]
						}
						if prm == pHash {
							ah = cc.Args[i]
						}
					}
					cf, ok1 := EvalConst(af, st)
					ch, ok2 := EvalConst(ah, st)
					zero := ok1 && cf.Value != nil && cf.Int64() == 0
					nilh := ok2 && ch.Value == nil
					if !zero || !nilh {
						okF = false
						why = fmt.Sprintf("after truncating the partial file the download is restarted with offset/hash that are not provably (0, nil) at %s", p.InstrPos(in))
					}
					return false
				}
				return true
			})
			c.Check(okF, "R3", key+":reset-state", p.InstrPos(tc), "after the truncation the resume offset is 0 and the hash state dropped on every feasible path", why)
		}
		if fn == dl {
			c.AtLeast("R3", "truncate sites in download", len(trs), 2)
		} else {
			c.AtLeast("R3", "truncate sites in DoTransfer", len(trs), 1)
		}
	}
	// (c') the hash handed to download was computed over the same file whose length is fromByte
	for _, ci := range CallsIn(dt, "(*tq.basicDownloadAdapter).download") {
		var af, ah, afile ssa.Value
		for i, prm := range dl.Params {
			switch {
			case prm == pFrom:
				af = ci.Common().Args[i]
			case prm == pHash:
				ah = ci.Common().Args[i]
			case short(prm.Type().String()) == "*os.File":
				afile = ci.Common().Args[i]
			}
		}
		// fromByte leaves: result #0 of io.Copy(hash, f) or const 0
		okc := true
		var copyCall *ssa.Call
		for _, l := range p.LeavesNoFields(af, nil) {
			if k, ok := ConstInt(l); ok && k == 0 {
				continue
			}
			if call, idx, ok := CallResult(l); ok && CalleeName(call.Common()) == "io.Copy" && idx == 0 {
				copyCall = call
				continue
			}
			okc = false
		}
		if copyCall != nil {
			// io.Copy(hash, f): f is the file passed on, hash is the hash passed on
			if !sameFileValue(copyCall.Call.Args[1], afile) {
				okc = false
			}
			hashOK := false
			for _, l := range p.LeavesNoFields(ah, nil) {
				if Unwrap(l) == Unwrap(copyCall.Call.Args[0]) || IsNilConst(l) {
					hashOK = true
				}
			}
			for _, l := range p.LeavesNoFields(copyCall.Call.Args[0], nil) {
				for _, l2 := range p.LeavesNoFields(ah, nil) {
					if l == l2 {
						hashOK = true
					}
				}
			}
			if !hashOK {
				okc = false
			}
		} else {
			okc = false
		}
		c.Check(okc, "R3", "DoTransfer:offset-is-hashed-length", p.InstrPos(ci), "resume offset = number of bytes of the partial file that went into the hash state",
			"the resume offset handed to download is not the byte count of io.Copy(hash, partialFile) over the same file and hash")
	}
	// (d) the resume is accepted only via Content-Range start == fromByte and status 206
	nAccept := 0
	for _, b := range dl.Blocks {
		for _, in := range b.Instrs {
			ph, ok := in.(*ssa.Phi)
			if !ok || (ph.Comment != "rangeRequestOk" && !(strings.HasPrefix(ph.Comment, "_inl") && short(ph.Type().String()) == "bool")) {
				continue
			}
			for i, e := range ph.Edges {
				if bv, ok := ConstBool(e); ok && bv {
					nAccept++
					pred := b.Preds[i]
					// pred reachable only through (X == fromByte) true edge, X from ParseInt
					passEq := PassEdges(dl, rangeStartEq(p, pFrom))
					pass206 := PassEdges(dl, status206)
					sink := lastInstr(pred)
					ok1, path1 := Guarded(dl.Blocks[0], sink, passEq, noret)
					ok2, path2 := Guarded(dl.Blocks[0], sink, pass206, noret)
					c.Check(ok1 && nonVacuous(passEq), "R3", "resume-accepted:content-range-start==offset", p.InstrPos(sink), "resume accepted only when the Content-Range start equals the resume offset",
						"a ranged response can be accepted although its Content-Range start was not compared equal to the resume offset: "+path1)
					c.Check(ok2 && nonVacuous(pass206), "R3", "resume-accepted:status-206", p.InstrPos(sink), "resume accepted only for status 206", "resume accepted without status 206: "+path2)
				}
			}
			// every use of the flag: the true branch keeps state, the false branch truncates (checked by truncate rules)
		}
	}
	if nAccept == 0 {
		// the verdict may travel through a local cell (the result variable of a helper expanded in place): a
		// bool cell that is branched on; every store of `true` into it is an accept site
		for _, b := range dl.Blocks {
			for _, in := range b.Instrs {
				st, ok := in.(*ssa.Store)
				if !ok {
					continue
				}
				al, ok := st.Addr.(*ssa.Alloc)
				if !ok {
					continue
				}
				if bv, isC := ConstBool(st.Val); !isC || !bv {
					continue
				}
				branched := false
				for _, r := range Referrers(al) {
					if u, ok := r.(*ssa.UnOp); ok {
						for _, rr := range Referrers(u) {
							if _, isIf := rr.(*ssa.If); isIf {
								branched = true
							}
						}
					}
				}
				if !branched {
					continue
				}
				nAccept++
				ok1, path1 := Guarded(dl.Blocks[0], st, PassEdges(dl, rangeStartEq(p, pFrom)), noret)
				ok2, path2 := Guarded(dl.Blocks[0], st, PassEdges(dl, status206), noret)
				c.Check(ok1, "R3", "resume-accepted:content-range-start==offset", p.InstrPos(st), "resume accepted only when the Content-Range start equals the resume offset",
					"a ranged response can be accepted although its Content-Range start was not compared equal to the resume offset: "+path1)
				c.Check(ok2, "R3", "resume-accepted:status-206", p.InstrPos(st), "resume accepted only for status 206", "resume accepted without status 206: "+path2)
			}
		}
	}
	c.AtLeast("R3", "resume-accept assignments", nAccept, 1)

	// ---- R4 temp confinement: the writer of every content copy in the download adapters is a temp file
	for _, fn := range []*ssa.Function{dl, p.Fn("tq", "(*SSHAdapter).doDownload")} {
		if fn == nil {
			c.Missing("R4", "download copy function", "not found")
			continue
		}
		for _, ci := range CallsIn(fn, "tools.CopyWithCallback", "io.Copy") {
			w := ci.Common().Args[0]
			if short(w.Type().String()) != "*os.File" && !strings.Contains(short(w.Type().String()), "io.Writer") {
				continue
			}
			if _, isParam := Unwrap(w).(*ssa.Parameter); !isParam {
				continue
			}
			// find call sites of fn and check the file argument's provenance
			prm := Unwrap(w).(*ssa.Parameter)
			idx := -1
			for i, q := range fn.Params {
				if q == prm {
					idx = i
				}
			}
			n := 0
			for _, caller := range tqFuncs(p) {
				if caller == fn {
					continue
				}
				for _, cs := range CallsIn(caller, FnName(fn)) {
					n++
					arg := cs.Common().Args[idx]
					temp, final := false, false
					for _, l := range p.LeavesNoFields(arg, func(v ssa.Value) FlowAct {
						if call, _, ok := CallResult(v); ok && nameIn(CalleeName(call.Common()), []string{"tools.TempFile", "os.CreateTemp", "lfs.TempFile"}) {
							return Stop
						}
						return Descend
					}) {
						if call, _, ok := CallResult(l); ok && nameIn(CalleeName(call.Common()), []string{"tools.TempFile", "os.CreateTemp", "lfs.TempFile"}) {
							temp = true
							// directory argument derives from tempDir()
							dirOK := false
							for _, dl := range p.LeavesNoFields(call.Call.Args[0], func(v ssa.Value) FlowAct {
								if c2, _, ok := CallResult(v); ok && strings.HasSuffix(CalleeName(c2.Common()), ").tempDir") {
									return Stop
								}
								return Descend
							}) {
								if c2, _, ok := CallResult(dl); ok && strings.HasSuffix(CalleeName(c2.Common()), ").tempDir") {
									dirOK = true
								}
							}
							if !dirOK {
								final = true
							}
						}
					}
					if derivesFromTransferPath(p, arg) {
						final = true
					}
					c.Check(temp && !final, "R4", "download-file-is-temp:"+FnName(caller), p.InstrPos(cs), "bytes are written to a temp file created under the adapter's tempDir()", "the file receiving the download is not (only) a temp file under incomplete/")
				}
			}
			c.AtLeast("R4", "callers of "+FnName(fn), n, 1)
		}
	}
	// tempDir() is <LFSStorageDir>/incomplete (or os.TempDir)
	for _, name := range []string{"(*basicDownloadAdapter).tempDir", "(*SSHAdapter).tempDir"} {
		fn := p.Fn("tq", name)
		if fn == nil {
			c.Missing("R4", name, "not found")
			continue
		}
		good := true
		for _, r := range ReturnsOf(fn) {
			v := r.Results[0]
			if call, _, ok := CallResult(v); ok && CalleeName(call.Common()) == "os.TempDir" {
				continue
			}
			okv := false
			if call, _, ok := CallResult(v); ok && CalleeName(call.Common()) == "path/filepath.Join" {
				els := variadicElems(call.Call.Args[0])
				hasInc, hasStore := false, false
				for _, e := range els {
					if s, ok := ConstString(e); ok && s == "incomplete" {
						hasInc = true
					}
					if _, f, _, ok := FieldOf(e); ok && f == "LFSStorageDir" {
						hasStore = true
					}
				}
				okv = hasInc && hasStore
			}
			if !okv {
				good = false
			}
		}
		c.Check(good, "R4", "tempDir:"+name, p.Pos(fn.Pos()), "temp dir is <LFSStorageDir>/incomplete or the OS temp dir", "the adapter's temp dir is not <LFSStorageDir>/incomplete")
	}
	// .part name lives in tempDir
	if fn := p.Fn("tq", "(*basicDownloadAdapter).downloadFilename"); fn != nil {
		good := true
		for _, r := range ReturnsOf(fn) {
			if derivesFromTransferPath(p, r.Results[0]) {
				good = false
			}
			call, _, ok := CallResult(r.Results[0])
			if !ok || CalleeName(call.Common()) != "path/filepath.Join" {
				good = false
				continue
			}
			els := variadicElems(call.Call.Args[0])
			if len(els) == 0 {
				good = false
				continue
			}
			if c2, _, ok := CallResult(els[0]); !ok || !strings.HasSuffix(CalleeName(c2.Common()), ").tempDir") {
				good = false
			}
		}
		c.Check(good, "R4", "part-file-in-tempDir", p.Pos(fn.Pos()), "the .part resume file lives in tempDir()", "the .part resume file is not placed in tempDir()")
	}
}

func derivesOnlyFrom(p *Prog, v ssa.Value, prm *ssa.Parameter) bool {
	ls := p.LeavesNoFields(v, nil)
	if len(ls) == 0 {
		return false
	}
	has := false
	for _, l := range ls {
		if l == ssa.Value(prm) {
			has = true
			continue
		}
		if _, ok := l.(*ssa.Const); ok {
			continue
		}
		return false
	}
	return has
}

// sameFileValue: two SSA values denote the same *os.File variable (identical value, or loads of
// the same local variable cell).
func sameFileValue(a, b ssa.Value) bool {
	a, b = Unwrap(a), Unwrap(b)
	if a == b {
		return true
	}
	ua, ok1 := a.(*ssa.UnOp)
	ub, ok2 := b.(*ssa.UnOp)
	if ok1 && ok2 && ua.Op == token.MUL && ub.Op == token.MUL && ua.X == ub.X {
		return true
	}
	// φ of the same cell
	return false
}

// ---- R6: standalone agent -------------------------------------------------------------------------

func c02Standalone(c *Ctx) {
	p := c.P
	fn := p.Fn("lfshttp/standalone", "(*fileHandler).download")
	if fn == nil {
		c.Missing("R6", "(*fileHandler).download", "standalone agent download not found")
		return
	}
	// the destination of LinkOrCopy is a name created by os.CreateTemp(h.tempdir, …)
	for _, ci := range CallsIn(fn, "lfs.LinkOrCopy", "lfs.CopyFileContents", "os.Rename", "os.Link") {
		a := ci.Common().Args
		dst := a[len(a)-1]
		okd := false
		for _, l := range p.LeavesNoFields(dst, func(v ssa.Value) FlowAct {
			if call, _, ok := CallResult(v); ok && CalleeName(call.Common()) == "os.CreateTemp" {
				return Stop
			}
			return Descend
		}) {
			if call, _, ok := CallResult(l); ok && CalleeName(call.Common()) == "os.CreateTemp" {
				if _, f, _, isF := FieldOf(call.Call.Args[0]); isF && f == "tempdir" {
					okd = true
				}
			} else if _, isC := l.(*ssa.Const); !isC {
				if _, isP := l.(*ssa.Parameter); !isP {
					okd = false
				}
			}
		}
		c.Check(okd, "R6", "standalone-download-target", p.InstrPos(ci), "the agent copies into a file under its own temp dir and reports that path", "the standalone agent writes the download somewhere other than its temp dir")
	}
	c.AtLeast("R6", "standalone copy sites", len(CallsIn(fn, "lfs.LinkOrCopy", "lfs.CopyFileContents", "os.Rename", "os.Link")), 1)
}

var c02Canaries = []Canary{
	{Name: "r7-truncate-to-announced-size", ExpectKey: "C02.R3#download:temp-file-only-truncated-to-zero", Edits: []Edit{{File: "tq/ssh.go", Find: "\t}\n\n\tdlfilename := f.Name()\n\t// Wrap callback to give name context\n\tccb := func(totalSize int64, readSoFar int64, readSinceLast int) error {\n\t\tif cb != nil {\n", Repl: "\t}\n\n\tdlfilename := f.Name()\n\t// Size the temporary file up front to what the server announced, so that\n\t// a full disk or an exceeded quota is noticed before any data is moved\n\t// and the file is laid out in one piece.\n\tif err := f.Truncate(actualSize); err != nil {\n\t\tio.Copy(io.Discard, data)\n\t\treturn errors.Wrap(err, tr.Tr.Get(\"cannot write data to temporary file %q\", dlfilename))\n\t}\n\n\t// Wrap callback to give name context\n\tccb := func(totalSize int64, readSoFar int64, readSinceLast int) error {\n\t\tif cb != nil {\n"}}},
	{Name: "r7-path-from-batch-response", ExpectKey: "C02.R1#newTransfer:path-is-the-callers", Edits: []Edit{{File: "tq/transfer.go", Find: "// newTransfer returns a copy of the given Transfer, with the name and path\n// values set.\nfunc newTransfer(tr *Transfer, name string, path string) *Transfer {\n\tt := &Transfer{\n\t\tName:          name,\n\t\tPath:          path,\n", Repl: "// newTransfer returns a copy of the given Transfer, with the name and path\n// values set.\nfunc newTransfer(tr *Transfer, name string, path string) *Transfer {\n\t// Transfers synthesised for a standalone transfer agent already carry\n\t// their local path, so only fill it in when the batch did not.\n\tif len(tr.Path) > 0 {\n\t\tpath = tr.Path\n\t}\n\n\tt := &Transfer{\n\t\tName:          name,\n\t\tPath:          path,\n"}}},
	{Name: "r6-failure-lost-after-cleanup", ExpectKey: "C02.R2#DoTransfer:failure-returned-after-cleanup", Edits: []Edit{{File: "tq/basic_download.go", Find: "\tif err != nil {\n\t\tf.Close()\n\t\t// Rename file so next download can resume from where we stopped.\n\t\t// No error checking here, if rename fails then file will be deleted and there just will be no download resuming\n\t\ttools.RobustRename(f.Name(), a.downloadFilename(t))\n\t}\n\n\treturn err\n", Repl: "\tif err != nil {\n\t\tf.Close()\n\t\t// Rename file so next download can resume from where we stopped.\n\t\t// If rename fails then file will be deleted and there just will be no download resuming\n\t\tif err = tools.RobustRename(f.Name(), a.downloadFilename(t)); err != nil {\n\t\t\ttracerx.Printf(\"xfer: unable to keep partial download of %q for resuming: %v\", t.Oid, err)\n\t\t}\n\t}\n\n\treturn err\n"}}},
	{Name: "r5-hard-link-in-adapter", ExpectKey: "C02.R7", Edits: []Edit{{File: "tq/basic_download.go", Find: "\ttools.RobustRename(a.downloadFilename(t), f.Name())", Repl: "\tif err := os.Link(a.downloadFilename(t), f.Name()); err != nil {\n\t\ttools.RobustRename(a.downloadFilename(t), f.Name())\n\t}"}}},
	{Name: "basic-drop-hash-test", ExpectKey: "C02.R1#publish:(*tq.basicDownloadAdapter).download", Edits: []Edit{{File: "tq/basic_download.go", Find: "	if actual := hasher.Hash(); actual != t.Oid {\n		return errors.New(", Repl: "	if actual := hasher.Hash(); actual != t.Oid && written < 0 {\n		return errors.New("}}},
	{Name: "ssh-compare-name", ExpectKey: "C02.R1", Edits: []Edit{{File: "tq/ssh.go", Find: "	if actual := hasher.Hash(); actual != t.Oid {\n		return errors.New(tr.Tr.Get(\"expected OID %s, got %s after %d bytes written\", t.Oid, actual, written))\n	}\n\n	if err := f.Close(); err != nil {", Repl: "	if actual := hasher.Hash(); actual != t.Name {\n		return errors.New(tr.Tr.Get(\"expected OID %s, got %s after %d bytes written\", t.Oid, actual, written))\n	}\n\n	if err := f.Close(); err != nil {"}}},
	{Name: "custom-verify-after-move", ExpectKey: "C02.R1", Edits: []Edit{{File: "tq/custom.go", Find: "				if err = tools.VerifyFileHash(t.Oid, resp.Path); err != nil {\n					return errors.New(tr.Tr.Get(\"downloaded file failed checks: %v\", err))\n				}\n				// Move file to final location\n				if err = tools.RenameFileCopyPermissions(resp.Path, t.Path); err != nil {\n					return errors.New(tr.Tr.Get(\"failed to copy downloaded file: %v\", err))\n				}", Repl: "				// Move file to final location\n				if err = tools.RenameFileCopyPermissions(resp.Path, t.Path); err != nil {\n					return errors.New(tr.Tr.Get(\"failed to copy downloaded file: %v\", err))\n				}\n				if err = tools.VerifyFileHash(t.Oid, t.Path); err != nil {\n					return errors.New(tr.Tr.Get(\"downloaded file failed checks: %v\", err))\n				}"}}},
	{Name: "custom-skip-verify", ExpectKey: "C02.R1", Edits: []Edit{{File: "tq/custom.go", Find: "				if err = tools.VerifyFileHash(t.Oid, resp.Path); err != nil {", Repl: "				if err = tools.VerifyFileHash(t.Oid, resp.Path); err != nil && !a.standalone {"}}},
	{Name: "drop-hash-reset", ExpectKey: "C02.R3", Edits: []Edit{{File: "tq/basic_download.go", Find: "			fromByte = 0\n			hash = nil\n\n			if res.StatusCode == 200 {", Repl: "			fromByte = 0\n\n			if res.StatusCode == 200 {"}}},
	{Name: "drop-seek", ExpectKey: ":seek-start", Edits: []Edit{{File: "tq/basic_download.go", Find: "			if _, err := dlFile.Seek(0, io.SeekStart); err != nil {\n				return err\n			}\n			if err := dlFile.Truncate(0); err != nil {\n				return err\n			}\n			fromByte = 0", Repl: "			if err := dlFile.Truncate(0); err != nil {\n				return err\n			}\n			fromByte = 0"}}},
	{Name: "accept-wrong-offset", ExpectKey: "content-range-start", Edits: []Edit{{File: "tq/basic_download.go", Find: "					if contentStart == fromByte {", Repl: "					if contentStart <= fromByte {"}}},
	{Name: "restart-with-stale-offset", ExpectKey: "C02.R3", Edits: []Edit{{File: "tq/basic_download.go", Find: "			return a.download(t, cb, authOkFunc, dlFile, 0, nil)", Repl: "			return a.download(t, cb, authOkFunc, dlFile, fromByte, nil)"}}},
	{Name: "download-to-final-path", ExpectKey: "C02.R4", Edits: []Edit{{File: "tq/ssh.go", Find: "	f, err := tools.TempFile(a.tempDir(), t.Oid, a.fs)\n	if err != nil {\n		return err\n	}\n	tmpName := f.Name()\n	defer func() {\n		if f != nil {\n			f.Close()\n		}\n		os.Remove(tmpName)\n	}()\n\n	return a.doDownload(", Repl: "	f, err := os.Create(t.Path)\n	if err != nil {\n		return err\n	}\n	tmpName := f.Name()\n	defer func() {\n		if f != nil {\n			f.Close()\n		}\n		os.Remove(tmpName + \".x\")\n	}()\n\n	return a.doDownload("}}},
	{Name: "error-after-publish", ExpectKey: "C02.R2", Edits: []Edit{{File: "tq/ssh.go", Find: "	err = tools.RenameFileCopyPermissions(dlfilename, t.Path)\n	if _, err2 := os.Stat(t.Path); err2 == nil {\n		// Target file already exists, possibly was downloaded by other git-lfs process\n		return nil\n	}\n	return err\n}\n\nfunc (a *SSHAdapter) verifyUpload", Repl: "	err = tools.RenameFileCopyPermissions(dlfilename, t.Path)\n	if _, err2 := os.Stat(t.Path); err2 == nil {\n		// Target file already exists, possibly was downloaded by other git-lfs process\n		if written != actualSize {\n			return errors.New(\"size mismatch\")\n		}\n		return nil\n	}\n	return err\n}\n\nfunc (a *SSHAdapter) verifyUpload"}}},
}

// inDownloadArm: is return r part of the code that handles a download up to the publish? A function such as the
// custom adapter's DoTransfer also serves uploads; a success return there is about another direction. The
// download arm is taken to be: the blocks that can reach the publish, plus the blocks dominated by the block
// that decides for the publish's arm (approximated by: r is reachable from a block that also reaches the publish
// and lies after the first hash test / within the same switch arm). Conservatively: r's block is reachable from
// the immediate dominator chain of the publish within 6 dominators that is not the function entry.
func inDownloadArm(p *Prog, fn *ssa.Function, r *ssa.Return, pub ssa.Instruction) bool {
	pb := pub.Block()
	// the arm root: the highest dominator of the publish from which every path to a return stays within blocks
	// that mention the transfer being downloaded; approximated structurally by the nearest dominator that ends
	// in a direction test or, failing that, the function entry.
	root := fn.Blocks[0]
	for d := pb.Idom(); d != nil; d = d.Idom() {
		if ifi, ok := lastInstr(d).(*ssa.If); ok {
			if mentionsDirection(ifi.Cond) {
				// the successor on the way to the publish
				for _, s := range d.Succs {
					if s == pb || s.Dominates(pb) {
						root = s
					}
				}
				break
			}
		}
	}
	return root == r.Block() || root.Dominates(r.Block())
}

func mentionsDirection(v ssa.Value) bool {
	found := false
	var walk func(v ssa.Value, d int)
	walk = func(v ssa.Value, d int) {
		if d > 4 || found {
			return
		}
		if _, f, _, ok := FieldOf(v); ok && (f == "direction" || f == "Direction") {
			found = true
			return
		}
		switch x := v.(type) {
		case *ssa.BinOp:
			walk(x.X, d+1)
			walk(x.Y, d+1)
		case *ssa.UnOp:
			walk(x.X, d+1)
		case *ssa.Phi:
			for _, e := range x.Edges {
				walk(e, d+1)
			}
		}
	}
	walk(v, 0)
	return found
}

// nameOfFileAtAllCallers: name and file are parameters of fn, and at every static call site of fn the argument for
// name derives from (*os.File).Name() of the argument for file.
func nameOfFileAtAllCallers(p *Prog, fn *ssa.Function, name, file ssa.Value) bool {
	np, ok1 := name.(*ssa.Parameter)
	fp, ok2 := file.(*ssa.Parameter)
	if !ok1 || !ok2 || np.Parent() != fn || fp.Parent() != fn {
		return false
	}
	ni, fi := -1, -1
	for i, prm := range fn.Params {
		if prm == np {
			ni = i
		}
		if prm == fp {
			fi = i
		}
	}
	if ni < 0 || fi < 0 {
		return false
	}
	n := 0
	for _, caller := range p.RepoFuncs(productPkg) {
		for _, b := range caller.Blocks {
			for _, in := range b.Instrs {
				cc := AsCall(in)
				if cc == nil || cc.StaticCallee() != fn {
					continue
				}
				n++
				args := cc.Args
				if ni >= len(args) || fi >= len(args) {
					return false
				}
				fileArg := Unwrap(args[fi])
				good := false
				p.LeavesNoFields(args[ni], func(v ssa.Value) FlowAct {
					if call, _, ok := CallResult(v); ok && CalleeName(call.Common()) == "(*os.File).Name" && (Unwrap(call.Call.Args[0]) == fileArg || SameVar(call.Call.Args[0], fileArg)) {
						good = true
						return Stop
					}
					return Descend
				})
				if !good {
					return false
				}
			}
		}
	}
	return n > 0
}

// rangeStartEq matches `X == fromByte` with X parsed by strconv.ParseInt (the Content-Range start).
func rangeStartEq(p *Prog, pFrom *ssa.Parameter) CondMatch {
	return func(cond ssa.Value) (bool, bool) {
		op, x, y, ok := BinCmp(cond)
		if !ok || (op != token.EQL && op != token.NEQ) {
			return false, false
		}
		isFrom := func(v ssa.Value) bool { return derivesOnlyFrom(p, v, pFrom) }
		isParsed := func(v ssa.Value) bool {
			call, idx, ok := CallResult(v)
			return ok && idx == 0 && CalleeName(call.Common()) == "strconv.ParseInt"
		}
		if isFrom(x) && isParsed(y) || isFrom(y) && isParsed(x) {
			return op == token.EQL, true
		}
		return false, false
	}
}

// status206 matches `res.StatusCode == 206`.
func status206(cond ssa.Value) (bool, bool) {
	op, x, y, ok := BinCmp(cond)
	if !ok {
		return false, false
	}
	if k, isK := ConstInt(y); isK && k == 206 {
		if _, f, _, isF := FieldOf(x); isF && f == "StatusCode" {
			if op == token.EQL {
				return true, true
			}
			if op == token.NEQ {
				return false, true
			}
		}
	}
	return false, false
}
