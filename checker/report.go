package main

import (
	"encoding/json"
	"fmt"
	"os"
	"path/filepath"
	"regexp"
	"sort"
	"strings"
	"time"
)

// Ob is one proof obligation: rule id + semantic construct key.
type Ob struct {
	Prop   string `json:"property"`
	Rule   string `json:"rule"`
	Key    string `json:"key"`    // rule + construct, never a line number
	Status string `json:"status"` // discharged | violated | undecided | unresolved-anchor | vacuous | info
	Pos    string `json:"pos,omitempty"`
	Msg    string `json:"msg,omitempty"`
	Plat   string `json:"platform,omitempty"`
}

// Ctx collects the obligations of one property run.
type Ctx struct {
	P     *Prog
	Prop  string
	Tier  string
	Obs   []Ob
	Notes []string
	Stats map[string]int
	plat  string
	// RulePrefix is prepended to rule ids while rules shared from another property run
	RulePrefix string
}

func (c *Ctx) add(rule, key, status, pos, msg string) {
	rule = c.RulePrefix + rule
	c.Obs = append(c.Obs, Ob{Prop: c.Prop, Rule: c.Prop + "." + rule, Key: c.Prop + "." + rule + "#" + key, Status: status, Pos: pos, Msg: msg, Plat: c.plat})
}
func (c *Ctx) OK(rule, key, pos, msg string)        { c.add(rule, key, "discharged", pos, msg) }
func (c *Ctx) Bad(rule, key, pos, msg string)       { c.add(rule, key, "violated", pos, msg) }
func (c *Ctx) Undecided(rule, key, pos, msg string) { c.add(rule, key, "undecided", pos, msg) }
func (c *Ctx) Missing(rule, key, msg string)        { c.add(rule, key, "unresolved-anchor", "-", msg) }
func (c *Ctx) Info(rule, key, pos, msg string)      { c.add(rule, key, "info", pos, msg) }
func (c *Ctx) Note(format string, a ...interface{}) {
	c.Notes = append(c.Notes, fmt.Sprintf(format, a...))
}
func (c *Ctx) Stat(k string, n int) {
	if c.Stats == nil {
		c.Stats = map[string]int{}
	}
	c.Stats[k] += n
}

// Check records discharged/violated from a boolean.
func (c *Ctx) Check(ok bool, rule, key, pos, okMsg, badMsg string) bool {
	if ok {
		c.OK(rule, key, pos, okMsg)
	} else {
		c.Bad(rule, key, pos, badMsg)
	}
	return ok
}

// AtLeast fails the rule as vacuous when fewer instances than confirmed by hand matched.
func (c *Ctx) AtLeast(rule, what string, got, min int) bool {
	if got < min {
		c.add(rule, "instances:"+what, "vacuous", "-", fmt.Sprintf("rule matched %d instance(s) of %s, at least %d expected: the anchors moved or the rule went vacuous", got, what, min))
		return false
	}
	c.Stat("instances:"+rule+":"+what, got)
	return true
}

// ---------------------------------------------------------------------------------------

type KnownFinding struct {
	Property string `json:"property"`
	Rule     string `json:"rule"`
	Key      string `json:"key"`
	Status   string `json:"status"` // known | fixed
	Commit   string `json:"commit,omitempty"`
	What     string `json:"what"`
}

func loadKnown(path string) ([]KnownFinding, error) {
	b, err := os.ReadFile(path)
	if err != nil {
		if os.IsNotExist(err) {
			return nil, nil
		}
		return nil, err
	}
	var k struct {
		Findings []KnownFinding `json:"findings"`
	}
	if err := json.Unmarshal(b, &k); err != nil {
		return nil, err
	}
	return k.Findings, nil
}

var unsafeFile = regexp.MustCompile(`[^A-Za-z0-9._-]+`)

// Finish prints the verdict lines, writes evidence and replay files and returns the exit code.
func (c *Ctx) Finish(verifDir string, level string, explanation string, assumptions []string, trusted []string, start time.Time, seed int64, extra map[string]interface{}) int {
	known, err := loadKnown(filepath.Join(verifDir, "KNOWN_FINDINGS.json"))
	if err != nil {
		fmt.Fprintf(os.Stderr, "lfscheck: cannot read KNOWN_FINDINGS.json: %v\n", err)
		return 2
	}
	knownKeys := map[string]KnownFinding{}
	for _, k := range known {
		if k.Status == "known" && k.Property == c.Prop {
			knownKeys[k.Key] = k
		}
	}
	// de-duplicate obligations by key+platform (keep the worst status)
	rank := map[string]int{"discharged": 0, "info": 0, "vacuous": 3, "undecided": 2, "unresolved-anchor": 3, "violated": 4}
	type kk struct{ key, plat string }
	best := map[kk]int{}
	var obs []Ob
	for _, o := range c.Obs {
		k := kk{o.Key, o.Plat}
		if i, ok := best[k]; ok {
			if rank[o.Status] > rank[obs[i].Status] {
				obs[i] = o
			}
			continue
		}
		best[k] = len(obs)
		obs = append(obs, o)
	}
	replayDir := filepath.Join(verifDir, "evidence", "replay")
	os.MkdirAll(replayDir, 0o755)
	// remove stale replay files of this property
	if old, _ := filepath.Glob(filepath.Join(replayDir, c.Prop+".*.json")); old != nil {
		for _, f := range old {
			os.Remove(f)
		}
	}
	violations := 0
	discharged := 0
	total := 0
	var knownHit []string
	printedKnown := map[string]bool{}
	var failing []Ob
	for _, o := range obs {
		if o.Status == "info" {
			continue
		}
		total++
		if o.Status == "discharged" {
			discharged++
			continue
		}
		if k, ok := knownKeys[o.Key]; ok && (o.Status == "violated" || o.Status == "undecided") {
			if !printedKnown[o.Key] {
				fmt.Printf("KNOWN-FINDING: property=%s %s [%s at %s]\n", c.Prop, k.What, o.Key, o.Pos)
				printedKnown[o.Key] = true
				knownHit = append(knownHit, o.Key)
			}
			continue
		}
		violations++
		failing = append(failing, o)
	}
	sort.SliceStable(failing, func(i, j int) bool { return failing[i].Key < failing[j].Key })
	for _, o := range failing {
		name := fmt.Sprintf("%s.%s.json", c.Prop, unsafeFile.ReplaceAllString(strings.TrimPrefix(o.Key, c.Prop+"."), "_"))
		if len(name) > 180 {
			name = name[:180] + ".json"
		}
		rp := filepath.Join(replayDir, name)
		b, _ := json.MarshalIndent(map[string]interface{}{"obligation": o, "replay": fmt.Sprintf("./check %s %s", c.Prop, c.Tier), "repo": c.P.Dir}, "", " ")
		os.WriteFile(rp, b, 0o644)
		fmt.Printf("VIOLATION property=%s replay=%s\n", c.Prop, rp)
		fmt.Printf("  rule:     %s\n  instance: %s\n  status:   %s\n  at:       %s\n  why:      %s\n", o.Rule, o.Key, o.Status, o.Pos, o.Msg)
		if o.Plat != "" {
			fmt.Printf("  platform: %s\n", o.Plat)
		}
	}
	// evidence
	perRule := map[string]map[string]int{}
	for _, o := range obs {
		if perRule[o.Rule] == nil {
			perRule[o.Rule] = map[string]int{}
		}
		perRule[o.Rule][o.Status]++
	}
	var samples []interface{}
	seenRule := map[string]int{}
	for _, o := range obs {
		if o.Status == "info" {
			continue
		}
		if seenRule[o.Rule] < 2 || o.Status != "discharged" {
			samples = append(samples, o)
			seenRule[o.Rule]++
		}
	}
	var infos []Ob
	for _, o := range obs {
		if o.Status == "info" {
			infos = append(infos, o)
		}
	}
	var allKeys []string
	for _, o := range obs {
		if o.Status != "info" {
			k := o.Key
			if o.Plat != "" {
				k += " [" + o.Plat + "]"
			}
			allKeys = append(allKeys, k+" : "+o.Status)
		}
	}
	cov := map[string]interface{}{
		"obligation_list":     allKeys,
		"explanation":         explanation,
		"obligations":         total,
		"discharged":          discharged,
		"known_findings_hit":  knownHit,
		"per_rule":            perRule,
		"samples":             samples,
		"observations":        infos,
		"notes":               c.Notes,
		"stats":               c.Stats,
		"evaluations":         total,
		"distinct_nontrivial": total,
		"rule":                "one obligation per (rule, construct key) found in /repo's current source; all are distinct by key; trivial obligations are not generated",
		"checker_cmd":         fmt.Sprintf("./check %s %s", c.Prop, c.Tier),
		"trusted_base":        trusted,
		"functions_loaded":    len(c.P.srcFns),
		"packages_loaded":     len(c.P.Pkgs),
		"exhaustive":          false,
	}
	for k, v := range extra {
		cov[k] = v
	}
	ev := map[string]interface{}{
		"property_id": c.Prop,
		"tier":        c.Tier,
		"seed":        seed,
		"level":       level,
		"coverage":    cov,
		"assumptions": assumptions,
		"wall_s":      time.Since(start).Seconds(),
		"violations":  violations,
	}
	b, _ := json.MarshalIndent(ev, "", " ")
	os.MkdirAll(filepath.Join(verifDir, "evidence"), 0o755)
	if err := os.WriteFile(filepath.Join(verifDir, "evidence", c.Prop+".json"), b, 0o644); err != nil {
		fmt.Fprintf(os.Stderr, "lfscheck: cannot write evidence: %v\n", err)
		return 2
	}
	fmt.Printf("%s %s: %d obligations, %d discharged, %d known finding(s), %d violation(s)  [%.1fs]\n", c.Prop, c.Tier, total, discharged, len(knownHit), violations, time.Since(start).Seconds())
	if violations > 0 {
		return 1
	}
	return 0
}
