package main

import (
	"fmt"
	"go/constant"
	"go/token"
	"go/types"
	"strings"

	"golang.org/x/tools/go/ssa"
)

// C16 — file locks: others' locks block pushes, write bits and cache follow the server.

func init() {
	register(&PropDef{
		ID:    "C16",
		Level: "other",
		Explanation: "Decides structural necessary conditions on the current source: (R1) with verification enabled a pointer whose path is locked by someone else is never queued for upload and the push exits — explored under the assumption that the path is in their locks — and the verifier's their/our sets are filled from the matching halves of the server's verifiable listing; (R2) every unlock request issued by the unlock command is dominated by a passed uncommitted-changes guard for that path or id, which can only be bypassed by --force; " +
			"(R3) the local cache of own locks is written only from a lock the server just granted or from the `ours` half of a verifiable listing, cleared once before a full refresh (not per page), and an entry is removed only after the server confirmed the unlock; (R4) a lockable file's write bit is set from whether the current committer holds its lock, locking makes the file writable only after success, unlocking makes it read-only only when configured and lockable, and the post-checkout/commit/merge hooks all re-apply the flags. Two-user histories and server semantics are not decided.",
		Assumptions: []string{
			"the server's verifiable listing partitions locks into ours/theirs correctly",
			"git status reports uncommitted changes correctly (git.IsFileModified)",
		},
		Run:      runC16,
		Canaries: c16Canaries,
	})
}

func callNamed(v ssa.Value, name string) bool {
	cc, ok := v.(*ssa.Call)
	return ok && CalleeName(&cc.Call) == name
}

func runC16(c *Ctx) {
	nameListingsUnquoted(c, "R4")
	verifyStateDecidedOnce(c, "R1")
	refspecQualifiesTypedNames(c, "R1")
	p := c.P
	c16CachePersisted(c)
	c16VerifiedRefs(c)
	c16LocalSearchLimit(c)
	c16ModifiedIncludesUntracked(c)
	lockPathIsRepoRelative(c, "R2")
	locksOfAllRefsKnownBeforeUpload(c, "R1")
	rawErrorsWhereClassified(c, "R4")
	lockDecisionRecords(c, "R1")
	unlockForgetsLockFirst(c, "R3")
	unlockGuardAsksServer(c, "R2")
	prep := p.Fn("commands", "(*uploadContext).prepareUpload")
	rep := p.Fn("commands", "(*uploadContext).ReportErrors")
	if prep == nil || rep == nil {
		c.Missing("R1", "prepareUpload / ReportErrors", "not found")
		return
	}
	// ---- R1 ------------------------------------------------------------------------------------
	assumeLocked := func(enabled bool) func(v ssa.Value) (*ssa.Const, bool) {
		return func(v ssa.Value) (*ssa.Const, bool) {
			if callNamed(v, "(*commands.lockVerifier).LockedByThem") {
				return boolConst(true, v.Type()), true
			}
			if callNamed(v, "(*commands.lockVerifier).Enabled") {
				return boolConst(enabled, v.Type()), true
			}
			// not a duplicate, not uploaded, not empty: the pointer is otherwise eligible
			if callNamed(v, "(tools.StringSet).Contains") || callNamed(v, "(*commands.uploadContext).HasUploaded") {
				return boolConst(false, v.Type()), true
			}
			return nil, false
		}
	}
	loops := Loops(prep)
	for _, b := range prep.Blocks {
		for _, in := range b.Instrs {
			if !isAppendOf(in, "lfs.WrappedPointer") {
				continue
			}
			l := LoopOf(loops, b)
			if l == nil {
				continue
			}
			reached := false
			ExploreX(l.Body, nil, nil, noReturnCommands, nil, assumeLocked(true), func(x ssa.Instruction, st PState) bool {
				if x == in {
					reached = true
					return false
				}
				return x.Block() != l.Header
			})
			c.Check(!reached, "R1", "locked-by-them-not-uploaded", p.InstrPos(in), "with verification enabled a path locked by someone else is not queued for upload", "with lock verification enabled a pointer whose path is locked by another user can still be queued for upload")
			reached2 := false
			ExploreX(l.Body, nil, nil, noReturnCommands, nil, assumeLocked(false), func(x ssa.Instruction, st PState) bool {
				if x == in {
					reached2 = true
					return false
				}
				return x.Block() != l.Header
			})
			c.Check(reached2, "R1", "verification-disabled-still-uploads", p.InstrPos(in), "with verification disabled the upload proceeds (warning only)", "with lock verification disabled a path locked by someone else is no longer uploaded at all")
			// LockedByThem is asked about the pointer's own name
			for _, ci := range CallsIn(prep, "(*commands.lockVerifier).LockedByThem") {
				_, f, _, ok := FieldOf(ci.Common().Args[1])
				c.Check(ok && f == "Name", "R1", "locked-by-them:asked-for-pointer-path", p.InstrPos(ci), "the lock lookup uses the pointer's path", "the lock lookup is not keyed by the pointer's path")
			}
		}
	}
	// ReportErrors exits when unowned locks were touched and verification is enabled
	assumeRep := func(v ssa.Value) (*ssa.Const, bool) {
		if callNamed(v, "(*commands.lockVerifier).HasUnownedLocks") || callNamed(v, "(*commands.lockVerifier).Enabled") {
			return boolConst(true, v.Type()), true
		}
		if op, x, y, ok := BinCmp(v); ok && (op == token.GTR || op == token.NEQ) {
			if k, isK := ConstInt(y); isK && k == 0 {
				if lc, ok := x.(*ssa.Call); ok {
					if bi, ok := lc.Call.Value.(*ssa.Builtin); ok && bi.Name() == "len" {
						return boolConst(false, v.Type()), true // no missing/corrupt/other errors
					}
				}
			}
		}
		return nil, false
	}
	ret := ""
	ExploreX(rep.Blocks[0], nil, nil, noReturnCommands, nil, assumeRep, func(in ssa.Instruction, st PState) bool {
		if r, ok := in.(*ssa.Return); ok && r.Block().Comment != "recover" {
			ret = p.InstrPos(r)
			return false
		}
		return true
	})
	c.Check(ret == "", "R1", "push-exits-on-unowned-locks", p.Pos(rep.Pos()), "a push touching paths locked by others exits when verification is enabled", "a push that touched a path locked by another user can finish successfully with verification enabled (e.g. when it also touched one of the pusher's own locks): "+ret)
	// verifier sets are filled from the matching halves
	if vf := p.Fn("commands", "(*lockVerifier).Verify"); vf != nil {
		var search *ssa.Call
		for _, ci := range CallsIn(vf, "(*locking.Client).SearchLocksVerifiable") {
			search, _ = ci.(*ssa.Call)
		}
		n := 0
		for _, ci := range CallsIn(vf, "(*commands.lockVerifier).addLocks") {
			a := ci.Common().Args
			_, f, _, isF := FieldOf(a[3])
			if !isF || search == nil {
				continue
			}
			n++
			var wantIdx int
			switch f {
			case "ourLocks":
				wantIdx = 0
			case "theirLocks":
				wantIdx = 1
			default:
				continue
			}
			c.Check(ResultOfCall(a[2], search, wantIdx), "R1", "verifier-set-source:"+f, p.InstrPos(ci), f+" is filled from the matching half of the server's listing", "the verifier's "+f+" set is filled from the wrong half of the verifiable listing (own and foreign locks are confused)")
		}
		c.AtLeast("R1", "addLocks calls in Verify", n, 2)
	} else {
		c.Missing("R1", "(*lockVerifier).Verify", "not found")
	}
	if lbt := p.Fn("commands", "(*lockVerifier).LockedByThem"); lbt != nil {
		good := false
		for _, b := range lbt.Blocks {
			for _, in := range b.Instrs {
				if lk, ok := in.(*ssa.Lookup); ok && IsLoadOfField(lk.X, "commands.lockVerifier", "theirLocks") {
					good = true
				}
			}
		}
		c.Check(good, "R1", "LockedByThem:consults-their-locks", p.Pos(lbt.Pos()), "looks the path up in the locks held by others", "LockedByThem does not consult the set of locks held by others")
	}

	c16Unlock(c)
	c16Cache(c)
	c16WriteBits(c)
}

// c16Unlock (R2)
func c16Unlock(c *Ctx) {
	p := c.P
	uc := p.Fn("commands", "unlockCommand")
	if uc == nil {
		c.Missing("R2", "commands.unlockCommand", "not found")
		return
	}
	type pair struct{ unlock, guard string }
	n := 0
	for _, pr := range []pair{{"(*locking.Client).UnlockFile", "commands.unlockAbortIfFileModified"}, {"(*locking.Client).UnlockFileById", "commands.unlockAbortIfFileModifiedById"}} {
		for _, ci := range CallsIn(uc, pr.unlock) {
			n++
			var guards []*ssa.Call
			for _, gi := range CallsIn(uc, pr.guard) {
				if g, ok := gi.(*ssa.Call); ok {
					guards = append(guards, g)
				}
			}
			key := "unlock-guarded:" + pr.unlock
			if len(guards) == 0 {
				c.Bad("R2", key, p.InstrPos(ci), "the unlock request is not preceded by the uncommitted-changes guard")
				continue
			}
			var pass []Edge
			sameArg := false
			for _, g := range guards {
				pass = append(pass, errNilPass(uc, g)...)
				if SameValue(g.Call.Args[0], ci.Common().Args[1]) || SamePath(g.Call.Args[0], ci.Common().Args[1]) {
					sameArg = true
				}
			}
			if len(pass) == 0 {
				c.Bad("R2", key, p.InstrPos(ci), "the result of the uncommitted-changes guard is discarded: the lock of a file with uncommitted changes is released without --force")
				continue
			}
			loops := Loops(uc)
			entry := uc.Blocks[0]
			if l := LoopOf(loops, ci.Block()); l != nil {
				entry = l.Body
			}
			g, path := Guarded(entry, ci, pass, noReturnCommands)
			c.Check(g, "R2", key, p.InstrPos(ci), "the unlock request is sent only after the uncommitted-changes guard passed", "the unlock request can be sent although the uncommitted-changes guard refused (or was not consulted): "+path)
			c.Check(sameArg, "R2", key+":same-target", p.InstrPos(ci), "the guard examines the path/id that is unlocked", "the guard examines a different path/id than the one that is unlocked")
		}
	}
	c.AtLeast("R2", "unlock requests in unlockCommand", n, 2)
	// the guard itself: modified ∧ !force => error
	if g := p.Fn("commands", "unlockAbortIfFileModified"); g != nil {
		var mod *ssa.Call
		for _, ci := range CallsIn(g, "git.IsFileModified") {
			mod, _ = ci.(*ssa.Call)
		}
		if mod == nil {
			c.Bad("R2", "guard:consults-git-status", p.Pos(g.Pos()), "the guard does not ask git whether the file is modified")
		} else {
			assume := func(v ssa.Value) (*ssa.Const, bool) {
				if ResultOfCall(v, mod, 0) && short(v.Type().String()) == "bool" {
					return boolConst(true, v.Type()), true
				}
				if e, trueMeansNil, ok := IsErrNilCheck(v); ok && ResultOfCall(e, mod, 1) {
					return boolConst(trueMeansNil, v.Type()), true
				}
				if _, f, _, ok := FieldOf(v); ok && f == "Force" {
					return boolConst(false, v.Type()), true
				}
				return nil, false
			}
			nilRet := ""
			ExploreX(mod.Block(), mod, nil, noReturnCommands, nil, assume, func(in ssa.Instruction, st PState) bool {
				if r, ok := in.(*ssa.Return); ok {
					for _, v := range ReturnValues(r, 0) {
						if cst, ok := EvalConst(v, st); ok && cst.Value == nil {
							nilRet = p.InstrPos(r)
						}
					}
					return false
				}
				return true
			})
			c.Check(nilRet == "", "R2", "guard:modified-without-force-refuses", p.Pos(g.Pos()), "a modified file is refused unless --force", "the uncommitted-changes guard lets a modified file through without --force ("+nilRet+")")
		}
	} else {
		c.Missing("R2", "commands.unlockAbortIfFileModified", "not found")
	}
	if g := p.Fn("commands", "unlockAbortIfFileModifiedById"); g != nil {
		calls := CallsIn(g, "commands.unlockAbortIfFileModified")
		c.Check(len(calls) >= 1, "R2", "guard-by-id:delegates", p.Pos(g.Pos()), "the id form resolves the path and applies the same guard", "the id form of the guard does not apply the path guard")
	}
}

// c16Cache (R3)
func c16Cache(c *Ctx) {
	p := c.P
	n := 0
	for _, fn := range p.RepoFuncs(func(s string) bool { return s == Mod+"/locking" }) {
		for _, ci := range CallsIn(fn, "(locking.LockCacher).Add", "(*locking.LockCache).Add") {
			if strings.HasPrefix(FnName(fn), "(*locking.LockCache)") || strings.HasPrefix(FnName(fn), "(*locking.nilLockCacher)") {
				continue
			}
			n++
			arg := ci.Common().Args[len(ci.Common().Args)-1]
			switch FnName(fn) {
			case "(*locking.Client).LockFile":
				// after err == nil and Message == ""; the lock is the server's
				var lockCall *ssa.Call
				for _, lc := range CallsIn(fn, "(*locking.lockClient).Lock", "(locking.lockClient).Lock", "(*locking.httpLockClient).Lock") {
					lockCall, _ = lc.(*ssa.Call)
				}
				for _, b := range fn.Blocks {
					for _, in := range b.Instrs {
						if call, ok := in.(*ssa.Call); ok && strings.HasSuffix(CalleeName(&call.Call), ").Lock") && call.Call.Signature().Results().Len() == 3 {
							lockCall = call
						}
					}
				}
				if lockCall == nil {
					c.Undecided("R3", "cache.Add@LockFile", p.InstrPos(ci), "cannot find the lock API call")
					continue
				}
				passErr := errNilPassIdx(fn, lockCall, 2)
				passMsg := PassEdges(fn, func(cond ssa.Value) (bool, bool) {
					op, x, y, ok := BinCmp(cond)
					if !ok {
						return false, false
					}
					if k, isK := ConstInt(y); isK && k == 0 {
						if lc, ok := x.(*ssa.Call); ok {
							if bi, ok := lc.Call.Value.(*ssa.Builtin); ok && bi.Name() == "len" {
								if _, f, _, isF := FieldOf(lc.Call.Args[0]); isF && f == "Message" {
									switch op {
									case token.GTR, token.NEQ:
										return false, true
									case token.EQL:
										return true, true
									}
								}
							}
						}
					}
					if s, isC := ConstString(y); isC && s == "" {
						if _, f, _, isF := FieldOf(x); isF && f == "Message" {
							return op == token.EQL, true
						}
					}
					return false, false
				})
				g1, _ := Guarded(fn.Blocks[0], ci, passErr, nil)
				g2, path := Guarded(fn.Blocks[0], ci, passMsg, nil)
				fromServer := false
				for _, l := range p.LeavesNoFields(arg, func(v ssa.Value) FlowAct {
					if v == ssa.Value(lockCall) {
						return Stop
					}
					return Descend
				}) {
					if cc, _, ok := CallResult(l); ok && cc == lockCall {
						fromServer = true
					}
				}
				c.Check(g1 && g2 && nonVacuous(passErr) && nonVacuous(passMsg) && fromServer, "R3", "cache.Add@LockFile", p.InstrPos(ci), "the cache records exactly the lock the server granted, after a successful answer", "the own-locks cache is written although the server did not (yet) confirm the lock, or with something other than the server's lock: "+path)
			case "(*locking.Client).SearchLocksVerifiable":
				// which half?
				half := ""
				l := LoopOf(Loops(fn), ci.Block())
				if l != nil {
					if _, f, _, ok := FieldOf(l.RangedOperand()); ok {
						half = f
					}
				}
				switch half {
				case "Ours":
					c.OK("R3", "cache.Add@SearchLocksVerifiable(range list.Ours)", p.InstrPos(ci), "own locks from the server's listing are cached")
				case "Theirs":
					c.Bad("R3", "cache.Add@SearchLocksVerifiable(range list.Theirs)", p.InstrPos(ci), "locks held by OTHER users are added to the local cache of own locks: afterwards such a file counts as locked by the current committer and is made writable")
				default:
					c.Undecided("R3", "cache.Add@SearchLocksVerifiable", p.InstrPos(ci), "cannot tell which half of the listing is cached")
				}
			default:
				c.Bad("R3", "cache.Add@"+FnName(fn), p.InstrPos(ci), "the own-locks cache is written at a site the rules do not know")
			}
		}
		for _, ci := range CallsIn(fn, "(locking.LockCacher).Clear", "(*locking.LockCache).Clear") {
			if strings.HasPrefix(FnName(fn), "(*locking.LockCache)") {
				continue
			}
			inLoop := LoopOf(Loops(fn), ci.Block()) != nil
			c.Check(!inLoop && FnName(fn) == "(*locking.Client).SearchLocksVerifiable", "R3", "cache.Clear@"+FnName(fn), p.InstrPos(ci), "the cache is cleared once, before a full verifiable refresh", "the own-locks cache is cleared inside the pagination loop (or at an unknown site): only the last page's locks survive, so files the user has locked turn read-only")
		}
		for _, ci := range CallsIn(fn, "(locking.LockCacher).RemoveById", "(*locking.LockCache).RemoveById", "(locking.LockCacher).RemoveByPath") {
			if strings.HasPrefix(FnName(fn), "(*locking.LockCache)") || strings.HasPrefix(FnName(fn), "(*locking.nilLockCacher)") {
				continue
			}
			var unlockCall *ssa.Call
			for _, b := range fn.Blocks {
				for _, in := range b.Instrs {
					if call, ok := in.(*ssa.Call); ok && strings.HasSuffix(CalleeName(&call.Call), ").Unlock") {
						unlockCall = call
					}
				}
			}
			if unlockCall == nil {
				c.Bad("R3", "cache.Remove@"+FnName(fn), p.InstrPos(ci), "a cache entry is removed in a function that does not ask the server to unlock")
				continue
			}
			passErr := errNilPassIdx(fn, unlockCall, 2)
			g, path := Guarded(fn.Blocks[0], ci, passErr, nil)
			c.Check(g && nonVacuous(passErr), "R3", "cache.Remove@"+FnName(fn), p.InstrPos(ci), "an own lock is forgotten only after the server confirmed the unlock", "an own lock can be dropped from the cache although the server did not confirm the unlock: "+path)
		}
	}
	c.AtLeast("R3", "cache.Add sites", n, 2)
}

func errNilPassIdx(fn *ssa.Function, call *ssa.Call, idx int) []Edge {
	return PassEdges(fn, func(cond ssa.Value) (bool, bool) {
		e, trueMeansNil, ok := IsErrNilCheck(cond)
		if ok && ResultOfCall(e, call, idx) {
			return trueMeansNil, true
		}
		return false, false
	})
}

// c16WriteBits (R4)
func c16WriteBits(c *Ctx) {
	p := c.P
	fs := p.Fn("locking", "(*Client).fixSingleFileWriteFlags")
	if fs == nil {
		c.Missing("R4", "(*locking.Client).fixSingleFileWriteFlags", "not found")
	} else {
		n := 0
		for _, ci := range CallsIn(fs, "tools.SetFileWriteFlag") {
			n++
			flag := ci.Common().Args[1]
			conds := decidingConds(fs, ci.Block())
			underLockable, underUnlockable := false, false
			for _, dc := range conds {
				if cc, ok := dc.Cond.(*ssa.Call); ok && CalleeName(&cc.Call) == "(*filepathfilter.Filter).Allows" && dc.Want {
					if prm, ok := Unwrap(cc.Call.Args[0]).(*ssa.Parameter); ok {
						if prm.Name() == "lockable" {
							underLockable = true
						}
						if prm.Name() == "unlockable" {
							underUnlockable = true
						}
					}
				}
			}
			switch {
			case underLockable:
				cc, _, ok := CallResult(flag)
				good := ok && CalleeName(cc.Common()) == "(*locking.Client).IsFileLockedByCurrentCommitter" && SameVar(cc.Call.Args[1], ci.Common().Args[0])
				c.Check(good, "R4", "write-bit:lockable-file", p.InstrPos(ci), "a lockable file is writable exactly when the current committer holds its lock", "the write bit of a lockable file is not set from IsFileLockedByCurrentCommitter(that file)")
			case underUnlockable:
				bv, isC := ConstBool(flag)
				c.Check(isC && bv, "R4", "write-bit:no-longer-lockable", p.InstrPos(ci), "a file that is no longer lockable is made writable", "a file that is no longer lockable is not made writable")
			default:
				c.Bad("R4", fmt.Sprintf("write-bit:unconditional#%d", n), p.InstrPos(ci), "a write bit is changed for a file that matched neither the lockable nor the unlockable patterns")
			}
		}
		c.AtLeast("R4", "SetFileWriteFlag calls in fixSingleFileWriteFlags", n, 2)
	}
	if lf := p.Fn("locking", "(*Client).LockFile"); lf != nil {
		for _, ci := range CallsIn(lf, "tools.SetFileWriteFlag") {
			bv, isC := ConstBool(ci.Common().Args[1])
			// after the cache.Add succeeded (hence after the server's grant)
			adds := CallsIn(lf, "(locking.LockCacher).Add", "(*locking.LockCache).Add")
			after := len(adds) > 0 && adds[0].Block().Dominates(ci.Block())
			if !after && len(adds) > 0 {
				// the grant and the write-bit change may sit in two helpers called in sequence (expanded in place,
				// their results passing through local cells): every feasible path to the change crosses the
				// success edge of the cache Add
				addCall, _ := adds[0].(*ssa.Call)
				pass := PassEdges(lf, func(cond ssa.Value) (bool, bool) {
					if e, trueMeansNil, ok := IsErrNilCheck(cond); ok && addCall != nil && ResultOfCall(e, addCall, 0) {
						return trueMeansNil, true
					}
					return false, false
				})
				if g, _ := Guarded(lf.Blocks[0], ci, pass, nil); g && nonVacuous(pass) {
					after = true
				}
			}
			c.Check(isC && bv && after, "R4", "LockFile:writable-after-grant", p.InstrPos(ci), "the file becomes writable only after the lock was granted and recorded", "LockFile changes the write bit before the lock was granted, or clears it")
		}
	}
	if uf := p.Fn("locking", "(*Client).UnlockFileById"); uf != nil {
		for _, ci := range CallsIn(uf, "tools.SetFileWriteFlag") {
			bv, isC := ConstBool(ci.Common().Args[1])
			conds := decidingConds(uf, ci.Block())
			cfg, lockable := false, false
			for _, dc := range conds {
				if _, f, _, ok := FieldOf(dc.Cond); ok && f == "SetLockableFilesReadOnly" && dc.Want {
					cfg = true
				}
				if cc, ok := dc.Cond.(*ssa.Call); ok && CalleeName(&cc.Call) == "(*locking.Client).IsFileLockable" && dc.Want {
					lockable = true
				}
			}
			c.Check(isC && !bv && cfg && lockable, "R4", "UnlockFileById:read-only-when-configured-and-lockable", p.InstrPos(ci), "after unlocking, the file is made read-only only when configured and lockable", "unlocking changes the write bit outside (SetLockableFilesReadOnly ∧ lockable)")
		}
	}
	for _, hook := range []string{"postCheckoutCommand", "postCommitCommand", "postMergeCommand"} {
		fn := p.Fn("commands", hook)
		if fn == nil {
			c.Missing("R4", "commands."+hook, "hook command not found")
			continue
		}
		reach := false
		seen := map[*ssa.Function]bool{}
		var walk func(f *ssa.Function, depth int)
		walk = func(f *ssa.Function, depth int) {
			if f == nil || seen[f] || depth > 3 || f.Blocks == nil {
				return
			}
			seen[f] = true
			for _, ff := range WithAnon(f) {
				for _, b := range ff.Blocks {
					for _, in := range b.Instrs {
						if cc := AsCall(in); cc != nil {
							n := CalleeName(cc)
							if n == "(*locking.Client).FixLockableFileWriteFlags" || n == "(*locking.Client).FixAllLockableFileWriteFlags" {
								reach = true
							}
							if sc := cc.StaticCallee(); sc != nil && sc.Pkg != nil && sc.Pkg.Pkg.Path() == Mod+"/commands" {
								walk(sc, depth+1)
							}
						}
					}
				}
			}
		}
		walk(fn, 0)
		c.Check(reach, "R4", "hook-reapplies-write-flags:"+hook, p.Pos(fn.Pos()), "the hook re-applies lockable write flags", hook+" no longer re-applies the write flags of lockable files")
	}
	if il := p.Fn("locking", "(*Client).IsFileLockedByCurrentCommitter"); il != nil {
		usesCache := false
		seenF := map[*ssa.Function]bool{}
		var look func(f *ssa.Function, d int)
		look = func(f *ssa.Function, d int) {
			if f == nil || seenF[f] || d > 2 || f.Blocks == nil {
				return
			}
			seenF[f] = true
			for _, b := range f.Blocks {
				for _, in := range b.Instrs {
					if cc := AsCall(in); cc != nil {
						n := CalleeName(cc)
						if strings.HasSuffix(n, ".Locks") && (strings.Contains(n, "LockCache") || strings.Contains(n, "LockCacher")) {
							usesCache = true
						}
						if sc := cc.StaticCallee(); sc != nil && sc.Pkg == il.Pkg {
							look(sc, d+1)
						}
					}
				}
			}
		}
		look(il, 0)
		c.Check(usesCache, "R4", "locked-by-committer:uses-own-locks-cache", p.Pos(il.Pos()), "decided from the cache of own locks", "IsFileLockedByCurrentCommitter does not consult the cache of own locks")
	}
}

var c16Canaries = []Canary{
	{Name: "r7-verify-state-rewritten", ExpectKey: "C16.R1#lock-verifier:state-written-only-at-construction", Edits: []Edit{{File: "commands/lockverifier.go", Find: "\tours, theirs, err := lockClient.SearchLocksVerifiable(0, false)\n\tif err != nil {\n\t\tif errors.IsNotImplementedError(err) {\n\t\t\tdisableFor(lv.endpoint.Url)\n\t\t} else if lv.verifyState == verifyStateUnknown || lv.verifyState == verifyStateEnabled {\n\t\t\tif errors.IsAuthError(err) {\n\t\t\t\tif lv.verifyState == verifyStateUnknown {\n", Repl: "\tours, theirs, err := lockClient.SearchLocksVerifiable(0, false)\n\tif err != nil {\n\t\tif errors.IsNotImplementedError(err) {\n\t\t\t// The remote has no locking API: remember that, and do\n\t\t\t// not ask it again for the remaining refs of this push.\n\t\t\tdisableFor(lv.endpoint.Url)\n\t\t\tlv.verifyState = verifyStateDisabled\n\t\t} else if lv.verifyState == verifyStateUnknown || lv.verifyState == verifyStateEnabled {\n\t\t\tif errors.IsAuthError(err) {\n\t\t\t\tif lv.verifyState == verifyStateUnknown {\n"}}},
	{Name: "r7-quotepath-dropped", ExpectKey: "C16.R4#git:name-listing-unquoted", Edits: []Edit{{File: "git/git.go", Find: "func GetFilesChanged(from, to string) ([]string, error) {\n\tvar files []string\n\targs := []string{\n\t\t\"-c\", \"core.quotepath=false\", // handle special chars in filenames\n\t\t\"diff-tree\",\n\t\t\"--no-commit-id\",\n\t\t\"--name-only\",\n", Repl: "func GetFilesChanged(from, to string) ([]string, error) {\n\tvar files []string\n\targs := []string{\n\t\t\"diff-tree\",\n\t\t\"--no-commit-id\",\n\t\t\"--name-only\",\n"}}},
	{Name: "r6-unlock-id-skips-server", ExpectKey: "C16.R2#unlock-id:server-asked-when-cache-is-empty", Edits: []Edit{{File: "commands/command_unlock.go", Find: "\t// Get the path so we can check the status\n\tfilter := map[string]string{\"id\": id}\n\t// try local cache first\n\tlocks, _ := lockClient.SearchLocks(filter, 0, true, false)\n\tif len(locks) == 0 {\n\t\t// Fall back on calling server\n\t\tlocks, _ = lockClient.SearchLocks(filter, 0, false, false)\n\t}\n", Repl: "\t// Get the path so we can check the status\n\tfilter := map[string]string{\"id\": id}\n\t// try local cache first\n\tlocks, err := lockClient.SearchLocks(filter, 0, true, false)\n\tif err != nil {\n\t\t// Fall back on calling server\n\t\tlocks, _ = lockClient.SearchLocks(filter, 0, false, false)\n\t}\n"}}},
	{Name: "r5-locks-fetched-per-ref", ExpectKey: "C16.R1#locks-of-all-refs", Edits: []Edit{{File: "commands/uploader.go", Find: "\tverifyLocksForUpdates(ctx.lockVerifier, updates)\n", Repl: ""}}},
	{Name: "r4-lock-path-from-cwd", ExpectKey: "C16.R2#lock-path", Edits: []Edit{{File: "locking/locks.go", Find: "return filepath.Join(c.LocalWorkingDir, p), nil", Repl: "return filepath.Abs(p)"}}},
	{Name: "can-upload-always", ExpectKey: "C16.R1#locked-by-them-not-uploaded", Edits: []Edit{{File: "commands/uploader.go", Find: "			canUpload = !c.lockVerifier.Enabled()", Repl: "			canUpload = !c.lockVerifier.Enabled() || p.Size > 0"}}},
	{Name: "drop-exit", ExpectKey: "C16.R1#push-exits-on-unowned-locks", Edits: []Edit{{File: "commands/uploader.go", Find: "		if c.lockVerifier.Enabled() {\n			Exit(tr.Tr.Get(\"Cannot update locked files.\"))\n		} else {", Repl: "		if c.lockVerifier.Enabled() && !c.allowMissing {\n			Exit(tr.Tr.Get(\"Cannot update locked files.\"))\n		} else {"}}},
	{Name: "swapped-halves", ExpectKey: "C16.R1#verifier-set-source", Edits: []Edit{{File: "commands/lockverifier.go", Find: "	lv.addLocks(ref, ours, lv.ourLocks)\n	lv.addLocks(ref, theirs, lv.theirLocks)", Repl: "	lv.addLocks(ref, theirs, lv.ourLocks)\n	lv.addLocks(ref, ours, lv.theirLocks)"}}},
	{Name: "ignore-path-guard", ExpectKey: "C16.R2#unlock-guarded", Edits: []Edit{{File: "commands/command_unlock.go", Find: "			if err := unlockAbortIfFileModified(path); err != nil {\n				locks = handleUnlockError(locks, \"\", path, err)\n				success = false\n				continue\n			}", Repl: "			if err := unlockAbortIfFileModified(path); err != nil {\n				locks = handleUnlockError(locks, \"\", path, err)\n				success = false\n			}"}}},
	{Name: "ignore-id-guard", ExpectKey: "C16.R2#unlock-guarded", Edits: []Edit{{File: "commands/command_unlock.go", Find: "		err := unlockAbortIfFileModifiedById(unlockCmdFlags.Id, lockClient)\n		if err == nil {\n			err = lockClient.UnlockFileById(unlockCmdFlags.Id, unlockCmdFlags.Force)\n		}", Repl: "		unlockAbortIfFileModifiedById(unlockCmdFlags.Id, lockClient)\n		err := lockClient.UnlockFileById(unlockCmdFlags.Id, unlockCmdFlags.Force)"}}},
	{Name: "modified-only-warns", ExpectKey: "C16.R2#guard:modified-without-force-refuses", Edits: []Edit{{File: "commands/command_unlock.go", Find: "		} else {\n			return errors.New(tr.Tr.Get(\"Cannot unlock file with uncommitted changes\"))\n		}", Repl: "		} else {\n			Error(tr.Tr.Get(\"Cannot unlock file with uncommitted changes\"))\n		}"}}},
	{Name: "cache-before-message", ExpectKey: "C16.R3#cache.Add@LockFile", Edits: []Edit{{File: "locking/locks.go", Find: "	if len(lockRes.Message) > 0 {\n		if len(lockRes.RequestID) > 0 {\n			tracerx.Printf(\"Server Request ID: %s\", lockRes.RequestID)\n		}\n		return Lock{}, errors.New(tr.Tr.Get(\"server unable to create lock: %s\", lockRes.Message))\n	}\n\n	lock := *lockRes.Lock", Repl: "	if len(lockRes.Message) > 0 && lockRes.Lock == nil {\n		if len(lockRes.RequestID) > 0 {\n			tracerx.Printf(\"Server Request ID: %s\", lockRes.RequestID)\n		}\n		return Lock{}, errors.New(tr.Tr.Get(\"server unable to create lock: %s\", lockRes.Message))\n	}\n\n	lock := *lockRes.Lock"}}},
	{Name: "clear-per-page", ExpectKey: "C16.R3#cache.Clear", Edits: []Edit{{File: "locking/locks.go", Find: "		c.cache.Clear()\n\n		for {\n			list, status, err := c.client.SearchVerifiable(c.Remote, body)", Repl: "		for {\n			list, status, err := c.client.SearchVerifiable(c.Remote, body)\n			c.cache.Clear()"}}},
	{Name: "inverted-write-flag", ExpectKey: "C16.R4#write-bit:lockable-file", Edits: []Edit{{File: "locking/lockable.go", Find: "		err := tools.SetFileWriteFlag(file, c.IsFileLockedByCurrentCommitter(file))", Repl: "		err := tools.SetFileWriteFlag(file, !c.IsFileLockedByCurrentCommitter(file))"}}},
	{Name: "post-merge-skips-flags", ExpectKey: "C16.R4#hook-reapplies-write-flags:postMergeCommand", Edits: []Edit{{File: "commands/command_post_merge.go", Find: "	err := lockClient.FixAllLockableFileWriteFlags()", Repl: "	var err error\n	_ = lockClient"}}},
}

// c16CachePersisted (R3, persistence): the cache of own locks is written to disk by Client.Close(). The lock and
// unlock commands defer Close(), but deferred calls do not run when the process leaves through os.Exit: an exit
// taken after the server granted or released a lock has to call Close() first, or the local list of own locks
// (and with it the write bits set by the post-checkout/commit/merge hooks) disagrees with the server.
func c16CachePersisted(c *Ctx) {
	p := c.P
	mutators := []string{"(*locking.Client).LockFile", "(*locking.Client).UnlockFile", "(*locking.Client).UnlockFileById"}
	n := 0
	for _, fn := range p.RepoFuncs(func(s string) bool { return s == Mod+"/commands" }) {
		for _, mc := range CallsIn(fn, mutators...) {
			call, ok := mc.(*ssa.Call)
			if !ok {
				continue
			}
			n++
			bad := ""
			closed := nonNil{call}
			ExploreX(nil, call, nil, nil, nil, nil, func(in ssa.Instruction, st PState) bool {
				if cc := AsCall(in); cc != nil {
					if CalleeName(cc) == "(*locking.Client).Close" {
						if _, isDefer := in.(*ssa.Defer); !isDefer {
							st[closed] = ssa.NewConst(constant.MakeBool(true), types.Typ[types.Bool])
						}
						return true
					}
					if _, isGo := in.(*ssa.Go); isGo {
						return true
					}
					if _, isDefer := in.(*ssa.Defer); isDefer {
						return true
					}
				}
				if noReturnCommands(in) {
					if _, ok := st[closed]; !ok {
						if _, isPanic := in.(*ssa.Panic); !isPanic {
							bad = p.InstrPos(in)
						}
					}
					return false
				}
				return true
			})
			c.Check(bad == "", "R3", fmt.Sprintf("cache-saved-before-exit:%s#%d", FnName(fn), n), p.InstrPos(mc), "every exit after a granted/released lock saves the lock cache first",
				"after the server granted or released a lock the command can leave through an exit at "+bad+" without Client.Close(): deferred calls do not run on os.Exit, the lock cache is not saved and the local list of own locks no longer matches the server")
		}
	}
	c.AtLeast("R3", "lock-changing calls in commands", n, 3)
}

// c16VerifiedRefs (R1, per-ref verification): the verifier asks the server for the locks of each ref being pushed
// and remembers which refs it has asked about. The memory has to be keyed by the fully qualified ref (what the
// server is asked about): keyed by the short name, refs/heads/x and refs/tags/x count as one, the second is never
// verified and locks held by others on it do not block the push.
func c16VerifiedRefs(c *Ctx) {
	p := c.P
	fn := p.Fn("commands", "(*lockVerifier).Verify")
	if fn == nil {
		c.Missing("R1", "(*commands.lockVerifier).Verify", "not found")
		return
	}
	n := 0
	for _, b := range fn.Blocks {
		for _, in := range b.Instrs {
			var key ssa.Value
			what := ""
			switch x := in.(type) {
			case *ssa.Lookup:
				if _, f, _, ok := FieldOf(x.X); ok && f == "verifiedRefs" {
					key, what = x.Index, "lookup"
				}
			case *ssa.MapUpdate:
				if _, f, _, ok := FieldOf(x.Map); ok && f == "verifiedRefs" {
					key, what = x.Key, "store"
				}
			}
			if key == nil {
				continue
			}
			n++
			cc, _, isRes := CallResult(key)
			c.Check(isRes && CalleeName(cc.Common()) == "(*git.Ref).Refspec", "R1", fmt.Sprintf("verified-refs-keyed-by-full-ref:%s#%d", what, n), p.InstrPos(in), "verified refs are remembered by their fully qualified name",
				"the set of already verified refs is keyed by "+describeValue(p, key)+" instead of the fully qualified ref: a branch and a tag with the same short name count as one ref, the second is never verified and others' locks on it do not block the push")
		}
	}
	c.AtLeast("R1", "accesses to the verified-refs set", n, 2)
}

// c16LocalSearchLimit (R4, own-lock lookup): whether the committer holds the lock of a path is asked as "search
// the cache of own locks for this path, limit 1". The limit has to count MATCHES; cutting the cached list to
// `limit` entries before filtering looks at one arbitrary lock only, and files whose lock the user holds are made
// read-only by the hooks. Decided on the local search: the cached list that is ranged over is not sliced, and the
// limit is compared with a count that grows only when an entry is kept.
func c16LocalSearchLimit(c *Ctx) {
	p := c.P
	// wherever the search is written (its own function, or in the callers): the list handed out by the lock cache
	// is never sliced — the limit counts matches
	n := 0
	sliced := ""
	for _, fn := range p.RepoFuncs(func(s string) bool { return s == Mod+"/locking" }) {
		for _, b := range fn.Blocks {
			for _, in := range b.Instrs {
				if cc := AsCall(in); cc != nil && strings.HasSuffix(CalleeName(cc), ".Locks") && strings.Contains(CalleeName(cc), "LockCache") {
					n++
				}
				sl, ok := in.(*ssa.Slice)
				if !ok || !strings.HasSuffix(short(sl.X.Type().String()), "[]locking.Lock") || sl.High == nil {
					continue
				}
				for _, l := range p.LeavesUp(sl.X, func(v ssa.Value) FlowAct {
					if cc, _, ok := CallResult(v); ok && strings.HasSuffix(CalleeName(cc.Common()), ".Locks") {
						return Stop
					}
					return Descend
				}) {
					if cc, _, ok := CallResult(l); ok && strings.HasSuffix(CalleeName(cc.Common()), ".Locks") && strings.Contains(CalleeName(cc.Common()), "LockCache") {
						sliced = p.InstrPos(in)
					}
				}
			}
		}
	}
	c.Check(sliced == "", "R4", "local-lock-search:limit-counts-matches", "locking/locks.go", "the limit is applied to the matching locks, not to the list searched", "the cached lock list is cut to `limit` entries before it is filtered ("+sliced+"): IsFileLockedByCurrentCommitter (limit 1) then looks at one arbitrary own lock, and files the committer holds the lock of are made read-only by the post-checkout/commit/merge hooks")
	c.AtLeast("R4", "reads of the own-locks cache list", n, 1)
}

// c16ModifiedIncludesUntracked (R2, what counts as modified): the unlock guard treats a file as modified when
// `git status --porcelain -- <path>` prints a line for it — which includes untracked files (a new file that was
// locked but never added). The status invocation must not hide untracked files.
func c16ModifiedIncludesUntracked(c *Ctx) {
	p := c.P
	fn := p.Fn("git", "IsFileModified")
	if fn == nil {
		c.Missing("R2", "git.IsFileModified", "not found")
		return
	}
	var consts []string
	for _, b := range fn.Blocks {
		for _, in := range b.Instrs {
			if st, ok := in.(*ssa.Store); ok {
				if s, isC := ConstString(st.Val); isC {
					consts = append(consts, s)
				}
			}
		}
	}
	has := func(s string) bool { return nameIn(s, consts) }
	hides := ""
	for _, s := range consts {
		if strings.HasPrefix(s, "--untracked-files=no") || s == "-uno" || strings.HasPrefix(s, "--ignore-submodules") || s == "--ignored=no" && false {
			hides = s
		}
	}
	c.Check(has("status") && has("--porcelain") && has("--") && hides == "", "R2", "IsFileModified:status-sees-untracked", p.Pos(fn.Pos()), "git status --porcelain -- <path>, untracked files included",
		"the status call behind the unlock guard runs with "+hides+": an untracked (new, never added) locked file counts as unmodified and its lock is released without --force")
}
